#!/usr/bin/env python3
"""Regenerates MANIFEST.json from the table below (keeps it valid and consistent)."""
import json, os
ROOT=os.path.dirname(os.path.abspath(__file__))
props=[json.loads(l) for l in open(os.path.join(ROOT,"properties.jsonl"))]
ENGINE_NOTE=("Trusted base: TLC; the abstraction function harness/project.py (SQLite rows -> spec variables); the sqlite3 connection "
  "proxy and drivers in harness/driver.py; SQLite backend only (no PostgreSQL server in the sandbox); time is abstracted "
  "(a delay elapses only when nothing else is deliverable, locks lapse before wait-retry delays); one worker per Engine.tla "
  "(multi-worker races are separate Race/Store/Queue specs). Exhaustive only within the stated constants; larger programs "
  "and schedules are sampled.")
def eng(pid, text, tech, ref):
    return {"property_id":pid,"quick_cmd":f"./check {pid} --tier quick","thorough_cmd":f"./check {pid} --tier thorough",
      "evidence_file":f"/verif/evidence/{pid}.json","replay_cmd_template":f"./check {pid} --replay {{path}}","engine":"engine-tla",
      "level_claimed":{"category":"model_checking","text":text,"design_ref":ref},"level_note":ENGINE_NOTE,"technique":tech}
CHECKS={
 "C01": eng("C01","TLC model-checks Engine.tla (crash between any two commits, restart, recovery sweep) against C01_* formulas on small programs; every durable commit point and every task-execution point of every program of the family is used as a crash point on the REAL engine and each recorded execution (commit-by-commit projection of the database) is validated by TLC against Engine.tla with the same formulas evaluated in every state; model counter-examples are replayed on the real engine before they count.",
   "TLA+ spec Engine.tla + TLC model checking + TLC trace validation of crash-enumerated executions of the real engine (spec->code replay of counter-examples)","DESIGN.md 7 C01"),
 "C02": eng("C02","TLC explores every delivery order and every lost-ack redelivery (bounded) of Engine.tla on small programs; seeded random delivery schedules with withheld acks are run on the real engine over the whole family and validated by TLC against the spec, formulas C02_* evaluated in every state.",
   "TLA+ Engine.tla + TLC (any-order, redelivery) + TLC trace validation of sampled schedules","DESIGN.md 7 C02"),
 "C03": eng("C03","Action properties C03_* (declarative join condition written independently of the readiness code) checked by TLC on Engine.tla for all join types with spurious StartStage injection, and on TLC-validated executions of the real engine over join programs and seeded random DAGs (<=7 stages).",
   "TLA+ action properties on Engine.tla + TLC + trace validation with injected early/duplicate StartStage","DESIGN.md 7 C03"),
 "C05": eng("C05","Quiescence formulas C05_* checked by TLC over any-order/redelivery behaviours of Engine.tla and in every quiescent state of TLC-validated random schedules of the real engine (failing branches, early-firing joins, loops).",
   "TLA+ Engine.tla + TLC + trace validation","DESIGN.md 7 C05"),
 "C06": eng("C06","Action properties C06_Legal / C06_CompletedIsFinal (transition table transcribed from models/status.py) checked by TLC on every transition of the model and on every commit of every recorded execution (crash, schedule, cancel drivers), plus the raw status-change audit rows written by SQL triggers (sees A->B->C inside one commit).",
   "TLA+ action properties + TLC on model and on traces; trigger audit rows checked by TLC","DESIGN.md 7 C06"),
 "C09": eng("C09","C09_NoRehandle: the handler body is entered only for ids without a durable processed record. TLC checks Engine.tla incl. the in-memory filter (restart, rotation, trust-negative option) and validates executions of the real engine in which EVERY message of a run is redelivered (ack lost) at later points across restart / filter reset / option on and off; Dedup.tla (k-hash filter over an arbitrary hash function) is model-checked and replayed on BloomDeduplicator.",
   "TLA+ Engine.tla (+Dedup.tla) + TLC + trace validation of enumerated redeliveries","DESIGN.md 7 C09"),
 "C10": eng("C10","A recovery sweep (x1, x2) is injected before every delivery step of the in-order run of every program on the real engine, and after every sampled crash point (two sweeps); all executions validated by TLC against Engine.tla with C10_* (same outcome, no extra execution); TLC explores sweeps at arbitrary points (also between the commits of a handler) on the model.",
   "TLA+ Engine.tla + TLC + trace validation with enumerated sweep injection","DESIGN.md 7 C10"),
 "C14": eng("C14","Transient-failure family (k = 0..12 consecutive failures, with/without context update, task first/middle/last, polling) run in order and shuffled on the real engine, validated by TLC; C14_Bounded / C14_ProgressKept / C14_ProgressExact evaluated in every state; model checked with the code's behaviour and with the intended design (FixRetry).",
   "TLA+ Engine.tla + TLC + trace validation over a parametrised failure-count family","DESIGN.md 7 C14"),
 "C15": eng("C15","Loop shapes (self loop, 2-4 stage cycles, loop with side branch and fan-in, forward jumps) x max-jumps 0..3 x requested iterations 0..limit+2: TLC checks C15_JumpBudget / C15_RearmExact (declarative re-arm set) / once-per-iteration and termination on Engine.tla; in-order and shuffled executions of the real engine validated by TLC.",
   "TLA+ Engine.tla (JumpToStage) + TLC + trace validation","DESIGN.md 7 C15"),
 "C17": eng("C17","A cancel request is injected before every delivery step of every program (remaining messages in order and shuffled, the cancel itself may be overtaken); executions validated by TLC with C17_NoStartAfterCancel / C17_CancelCompletes; TLC explores SendCancel at every point of the model.",
   "TLA+ Engine.tla + TLC + trace validation with enumerated cancel injection","DESIGN.md 7 C17"),
 "C11": eng("C11","C11_Mutex (never two RUNNING stages per mutex key, in every state), C11_ChoiceAtMostOne / C11_ChoiceLosersCanceled, waiter liveness at quiescence and C11_ClaimsOfLiveKept (retention sweep at arbitrary points) checked by TLC on Engine.tla (claim rows acquired in the claim transaction, steal only from a terminal owner) over every delivery order, and on TLC-validated executions of the real engine (random schedules with retention sweeps and duplicate StartStage, every crash point with early and late lock expiry). The statement-level two-worker race on the claim row is covered by the Race spec (check C04 machinery) - see level_note.",
   "TLA+ Engine.tla (stage_claims) + TLC + trace validation","DESIGN.md 7 C11"),
 "C18": eng("C18","Signals: TLC explores SendSignal (persistent / transient) at every point of the model incl. between the commits of a handler and across a crash (C18_StaysSuspended, C18_NeverLost: sent = consumed + buffered + pending in every state, C18_NotSittingOnSignal, C18_ResumeOncePerSignal, C18_TransientNoEffect); on the real engine a signal is sent before every delivery step (in order and shuffled, one and two signals) and the process is killed at every commit of the suspend / resume steps; every execution validated by TLC.",
   "TLA+ Engine.tla (SignalStage, suspend/resume) + TLC + trace validation with enumerated signal times and crash points","DESIGN.md 7 C18"),
}
EXTRA=json.load(open(os.path.join(ROOT,"manifest_extra.json"))) if os.path.exists(os.path.join(ROOT,"manifest_extra.json")) else {}
CHECKS.update(EXTRA.get("checks",{}))
NA=EXTRA.get("not_applicable",{})
m={"version":1,"setup_cmd":"./setup.sh",
 "hooks":{"guard":"STABILIZE_VERIF","enable":"none needed: all observation is harness-side (sqlite3.connect factory installed in the harness process, SQL triggers on the scratch database, wrapped handler objects); /repo carries no hook","baseline_off_cmd":"cd /repo && /venv/bin/python -m pytest -ra -q -p no:cacheprovider --timeout=900 --continue-on-collection-errors","source_commits":[],"add_only":True},
 "engines":[{"name":"queue-tla","path":"spec/Queue.tla","serves_properties":["C08"],"kind_free_text":"TLA+ statement-grain model of the SQLite queue and DLQ; TLC exhaustive + liveness; replay of graph walks on the real queue; trace validation of random histories"},{"name":"dataflow-tla","path":"spec/DataFlow.tla","serves_properties":["C16"],"kind_free_text":"TLA+ model of the ancestor-output merge and of the fan-in reducers; TLC theorems + prediction of every view; trace validation of recorded task contexts"},{"name":"store-tla","path":"spec/Store.tla","serves_properties":["C07","C19"],"kind_free_text":"TLA+ statement-grain model of optimistic locking + register model of round trips; TLC enumeration; replay on the real store/queue"},{"name":"race-tla","path":"spec/Race.tla","serves_properties":["C04"],"kind_free_text":"TLA+ specification of concurrent handlers at transaction grain + TLC enumeration of interleavings + replay on real threads under a baton scheduler"},{"name":"engine-tla","path":"spec/Engine.tla","serves_properties":sorted(k for k,v in CHECKS.items() if v.get("engine")=="engine-tla"),"kind_free_text":"TLA+ specification of the durable state machine (one action per commit) + TLC model checking + TLC trace validation of executions recorded from the real engine + spec->code replay of counter-examples"}],
 "checks":[CHECKS[p["id"]] for p in props if p["id"] in CHECKS],
 "not_applicable":[{"property_id":p["id"],"reason":NA.get(p["id"],"check under construction in this round (see DESIGN.md 12 roadmap); not claimed yet")} for p in props if p["id"] not in CHECKS],
 "notes":"Model-based verification with explicit TLA+ specifications (spec/*.tla). quick/thorough commands exit 0 / 1 (VIOLATION line) / 2 (machinery failure, no verdict). known_findings.json lists genuine defects recorded rather than repaired; checks print KNOWN-FINDING lines for them and still report anything else."}
json.dump(m,open(os.path.join(ROOT,"MANIFEST.json"),"w"),indent=1)
print("checks:",[c["property_id"] for c in m["checks"]],"n/a:",[c["property_id"] for c in m["not_applicable"]])
