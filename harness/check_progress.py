"""C14 under a second worker - binding of spec/Progress.tla.

A RunTask whose task body raises TransientError(context_update=...) races with other workers that
write the same stage row (persistent SignalStage on a RUNNING stage -> buffered in the stage context).
TLC explores Progress.tla (invariants ProgressWithRetry, ProgressKept, ProgressFinal, NoLostUpdate,
NothingLeft, NoStarvation) and exports the state graph; EVERY interleaving at write-transaction grain
is replayed on real handler threads under the baton scheduler of check_race (state compared with the
specification after every step), plus seeded statement-level (PCT) schedules whose final state must be
a terminal state of the specification."""
from __future__ import annotations

import json
import os
import random
import re
import shutil
import threading

from . import core
from .core import Hooks
from . import tlc
from . import programs as PR
from .check_race import Baton, all_paths, canon, mover, pcs
from .evidence import Reporter

TASK = "a.1"


def program(n_fail: int, mode: str = "progress") -> dict:
    if mode == "suspend":   # needs more distinct signals than the race can hand it: it suspends every time
        return PR.P("suspendrace", [PR.S("a", tasks=[PR.T(TASK, "suspend", 6)])])
    return PR.P("prograce", [PR.S("a", tasks=[PR.T(TASK, "transient", n_fail)])])


MODES = {
    "progress": {"root": "MC_Progress", "cfg": "ProgressCfg",
                 "invariants": ["ProgressWithRetry", "ProgressKept", "ProgressFinal", "NoLostUpdate", "NothingLeft", "NoStarvation"]},
    "suspend": {"root": "MC_SuspendRace", "cfg": "SuspendRaceCfg",
                "invariants": ["SignalsConserved", "NotSittingOnSignal", "ResumeOncePerSignal", "ResumedHasWork", "ConsumedInOrder",
                               "NothingLeft", "NoStarvation"]},
}


def cfg_module(writers: list[str], row: dict, max_tries: int, mode: str = "progress", names: dict | None = None) -> str:
    if mode == "suspend":
        return "\n".join([
            "---- MODULE SuspendRaceCfg ----", "EXTENDS TLC",
            "Writers == {%s}" % ", ".join('"%s"' % w for w in writers),
            "NameOf == (%s)" % " @@ ".join('"%s" :> "%s"' % (w, names[w]) for w in writers),
            "InitRow == [ver |-> %d, status |-> \"%s\", buf |-> %s, sig |-> \"%s\"]" % (
                row["ver"], row["status"], PR.tla_value(list(row["buf"])), row["sig"]),
            "MaxTries == %d" % max_tries, "InnerRetries == 5", "===="]) + "\n"
    return "\n".join([
        "---- MODULE ProgressCfg ----", "EXTENDS TLC",
        "Writers == {%s}" % ", ".join('"%s"' % w for w in writers),
        "InitRow == [ver |-> %d, prog |-> %d, buf |-> %d]" % (row["ver"], row["prog"], row["buf"]),
        "MaxTries == %d" % max_tries, "InnerRetries == 5", "===="]) + "\n"


INVARIANTS = ["ProgressWithRetry", "ProgressKept", "ProgressFinal", "NoLostUpdate", "NothingLeft", "NoStarvation"]


def explore(rd: str, cfgmod: str, mode: str = "progress"):
    os.makedirs(rd, exist_ok=True)
    with open(os.path.join(rd, MODES[mode]["cfg"] + ".tla"), "w") as fh:
        fh.write(cfgmod)
    cfg = "\n".join(["INIT InitP", "NEXT Next"] + ["INVARIANT " + i for i in MODES[mode]["invariants"]]
                    + ["ACTION_CONSTRAINT Edge", "CHECK_DEADLOCK FALSE"]) + "\n"
    r = tlc.run_tlc(rd, MODES[mode]["root"], cfg, workers=1, extra=["-coverage", "1", "-continue"])
    edges: dict[str, list[str]] = {}
    init = None
    for m in re.finditer(r'<<\s*"(EDGE|INIT)",\s*"((?:[^"\\]|\\.)*)"(?:,\s*"((?:[^"\\]|\\.)*)")?\s*>>', r.out, re.S):
        a = canon(m.group(2).encode().decode("unicode_escape"))
        if m.group(1) == "INIT":
            init = a
        else:
            b = canon(m.group(3).encode().decode("unicode_escape"))
            if b not in edges.setdefault(a, []):
                edges[a].append(b)
    return edges, init, r


def wmover(a: dict, b: dict) -> str:
    for w, rec in a["wk"].items():
        if b["wk"][w] != rec:
            return w
    raise ValueError("no worker moved")


def model_view(s: dict) -> dict:
    if "runtasks" in s:     # SuspendRace
        return {"row": {"ver": s["row"]["ver"], "status": s["row"]["status"], "buf": list(s["row"]["buf"]), "sig": s["row"]["sig"]},
                "retry": s["runtasks"], "done": sorted(s["done"]), "inq": sorted(s["inq"])}
    return {"row": {k: s["row"][k] for k in ("ver", "prog", "buf")}, "retry": s["retry"],
            "done": sorted(s["done"]), "inq": sorted(s["inq"])}


def paths_of(edges: dict, init: str, limit: int, rng: random.Random) -> list[list[str]]:
    out: list[list[str]] = []

    def dfs(path):
        nxt = edges.get(path[-1], [])
        if not nxt:
            out.append(list(path))
            return len(out) >= limit * 20
        for t in nxt:
            path.append(t)
            if dfs(path):
                return True
            path.pop()
        return False

    dfs([init])
    if len(out) > limit:
        rng.shuffle(out)
        out = out[:limit]
    return out


# ----- preparation: drive the real engine until RunTask(a.1) is the only pending message, then send the signals --------
def prepare(attempt: int, nwriters: int, basedir: str, mode: str = "progress") -> tuple[str, dict]:
    """progress: `attempt` = failed attempts already behind the racing RunTask; suspend: `attempt` = persistent signals
    already buffered in the stage when the race starts."""
    from .driver import Run

    prog = program(attempt + 2, mode)
    run = Run(prog, mode + "race-prep", keep=True)
    run.start()
    if mode == "suspend":
        for _ in range(200):
            rows = run.rows()
            if len(rows) == 1 and rows[0]["typ"] == "RunTask":
                break
            todo = [r for r in rows if not r["locked"] and not r["delayed"]]
            if not todo:
                break
            run.deliver(todo[0]["qid"])
        for _ in range(attempt):         # signals that arrive while the stage is RUNNING: buffered before the race
            run.send_signal("a", True)
            sg = [r for r in run.rows() if r["typ"] == "SignalStage"]
            run.deliver(sg[0]["qid"])
        attempt_done = True
    else:
        attempt_done = False
    seen_runtask = 0
    for _ in range(0 if attempt_done else 200):
        rows = run.rows()
        rt = [r for r in rows if r["typ"] == "RunTask"]
        if rt and len(rows) == 1:
            if seen_runtask == attempt:
                break
            seen_runtask += 1
            if rt[0]["delayed"]:
                run.warp(rt[0]["qid"])
            run.deliver(rt[0]["qid"])
            continue
        todo = [r for r in rows if not r["locked"] and not r["delayed"]]
        if todo:
            run.deliver(todo[0]["qid"])
            continue
        delayed = [r for r in rows if r["delayed"]]
        if delayed:
            run.warp(delayed[0]["qid"])
            continue
        break
    for _ in range(nwriters):
        run.send_signal("a", True)
    rows = run.rows()
    state = run.proj.state()
    db = os.path.join(basedir, f"{mode}race_{attempt}_{nwriters}.db")
    run.raw.close()
    run.raw = None
    Hooks.on_commit = Hooks.on_execute = None
    core.reset_volatile()
    shutil.copy(run.db, db)
    shutil.rmtree(run.dir, ignore_errors=True)
    return db, {"rows": rows, "state": state, "prog": prog}


def project(raw, msg_of: dict[str, int], mode: str = "progress") -> dict:
    r = raw.execute("SELECT version, status, context FROM stage_executions WHERE ref_id = 'a' AND execution_id LIKE 'W-%'").fetchone()
    ctx = json.loads(r["context"] or "{}")
    if mode == "suspend":
        qids = {x["id"] for x in raw.execute("SELECT id FROM queue_messages")}
        done = {int(x["message_id"]) for x in raw.execute("SELECT message_id FROM processed_messages")}
        more = len([1 for x in raw.execute("SELECT id, message_type FROM queue_messages")
                    if x["message_type"] == "RunTask" and x["id"] not in msg_of.values()])
        return {"row": {"ver": r["version"], "status": r["status"],
                        "buf": [str(b.get("signal_name", "")) for b in (ctx.get("_buffered_signals", []) or [])],
                        "sig": str(ctx.get("_signal_name") or "")},
                "retry": more, "done": sorted(w for w, q in msg_of.items() if q in done),
                "inq": sorted(w for w, q in msg_of.items() if q in qids)}
    qids = {x["id"] for x in raw.execute("SELECT id FROM queue_messages")}
    done = {int(x["message_id"]) for x in raw.execute("SELECT message_id FROM processed_messages")}
    retry = len([1 for x in raw.execute("SELECT id, message_type FROM queue_messages")
                 if x["message_type"] == "RunTask" and x["id"] not in msg_of.values()])
    return {"row": {"ver": r["version"], "prog": int(ctx.get("prog." + TASK, 0)), "buf": len(ctx.get("_buffered_signals", []) or [])},
            "retry": retry, "done": sorted(w for w, q in msg_of.items() if q in done),
            "inq": sorted(w for w, q in msg_of.items() if q in qids)}


def replay_path(prog: dict, basedb: str, rows: list[dict], writers: list[str], path: list[str],
                random_seed: int | None = None, terminal: list[dict] | None = None, mode: str = "progress") -> dict | None:
    from stabilize import QueueProcessor, SqliteQueue, SqliteWorkflowStore, TaskRegistry
    from stabilize.queue.processor.config import QueueProcessorConfig
    from .vtask import VerifTask, LEDGER
    from .programs import task_class_name, register_builder

    d = core.scratch_dir("prograce")
    db = os.path.join(d, "w.db")
    shutil.copy(basedb, db)
    cs = "sqlite:///" + db
    core.reset_volatile()
    baton = Baton()
    Hooks.on_commit = None
    Hooks.on_execute = baton.on_execute
    raw = core.raw_connect(db)
    workers = ["r"] + writers
    wid = {w: i + 1 for i, w in enumerate(workers)}
    try:
        register_builder(prog)
        store = SqliteWorkflowStore(cs, create_tables=False)
        queue = SqliteQueue(cs)
        reg = TaskRegistry()
        for sd in prog["stages"]:
            for td in sd["tasks"]:
                reg.register(task_class_name(td["name"]), VerifTask(td["name"]))
                reg.register_verifier("vverif", __import__("harness.vtask", fromlist=["vverif"]).vverif)
        b, c = core.shared_resilience()
        cfg = QueueProcessorConfig.from_handler_config(None)
        cfg.enable_lock_heartbeat = False
        proc = QueueProcessor(queue, config=cfg, store=store, task_registry=reg, bulkhead_manager=b, circuit_factory=c)
        rt = next(r for r in rows if r["typ"] == "RunTask")
        sigs = [r for r in rows if r["typ"] == "SignalStage"]
        pick = {"r": rt}
        for w, s in zip(writers, sigs):
            pick[w] = s
        msgs, msg_of = {}, {}
        for w in workers:
            row = pick[w]
            raw.execute("UPDATE queue_messages SET deliver_at = '2999-01-01T00:00:00+00:00' WHERE id != ?", (row["qid"],))
            raw.execute("UPDATE queue_messages SET deliver_at = '2000-01-01T00:00:00+00:00' WHERE id = ?", (row["qid"],))
            m = queue.poll_one()
            if m is None or int(m.message_id) != row["qid"]:
                raise RuntimeError("could not poll the racing message")
            msgs[w] = m
            msg_of[w] = row["qid"]
        store._get_connection().commit()
        threads = []
        for w in workers:
            def body(w=w):
                proc._handle_message(msgs[w])
                queue.ack(msgs[w])
            t = threading.Thread(target=baton.run_worker, args=(wid[w], body), daemon=True)
            threads.append(t)
            t.start()
        with baton.cv:
            baton.cv.wait_for(lambda: len(baton.parked) == len(workers), 10)
        states = [json.loads(s) for s in path]
        if random_seed is not None:
            baton.every_statement = True
            rng = random.Random(random_seed)
            sched = []
            prio = list(workers)
            rng.shuffle(prio)
            uniform = random_seed % 4 == 0
            changes = sorted(rng.randrange(1, 60) for _ in range(rng.randint(1, 3)))
            for n in range(20000):
                live = [w for w in prio if wid[w] not in baton.finished]
                if not live:
                    break
                if changes and n >= changes[0]:
                    changes.pop(0)
                    prio.append(prio.pop(prio.index(live[0])))
                    live = [w for w in prio if wid[w] not in baton.finished]
                w = rng.choice(live) if uniform else live[0]
                sched.append(w)
                baton.step(wid[w])
            for t in threads:
                t.join(5)
            got = project(raw, msg_of, mode)
            errs = {w: repr(e) for w, e in baton.errors.items()}
            if got not in terminal or errs:
                return {"step": -1, "worker": "", "model_pc": "end", "thread": "finished", "want": {"any of": terminal},
                        "got": got, "error": str(errs), "schedule": sched[:200], "seed": random_seed}
            return None
        for i in range(1, len(states)):
            w = wmover(states[i - 1], states[i])
            res = baton.step(wid[w])
            want = model_view(states[i])
            got = project(raw, msg_of, mode)
            ok = got == want
            endpc = states[i]["wk"][w]["pc"]
            if ok and ((endpc == "end") != (res == "finished")):
                ok = False
            if baton.errors.get(wid[w]) is not None:
                ok = False
            if not ok:
                return {"step": i, "worker": w, "model_pc": endpc, "thread": res, "want": want, "got": got,
                        "error": repr(baton.errors.get(wid[w])),
                        "schedule": [wmover(states[j - 1], states[j]) for j in range(1, len(states))]}
        for t in threads:
            t.join(5)
        return None
    finally:
        with baton.cv:
            baton.turn = None
        for w in workers:
            if wid[w] not in baton.finished:
                try:
                    for _ in range(60):
                        if baton.step(wid[w], 5) == "finished":
                            break
                except Exception:
                    pass
        Hooks.on_execute = None
        raw.close()
        core.reset_volatile()
        shutil.rmtree(d, ignore_errors=True)


def _job(args):
    # the racing threads run under the baton: the real back-off sleeps of the retry policies (up to seconds each) only
    # slow the replay down - in this worker process they return at once
    import time

    time.sleep = lambda _s: None
    prog, basedb, rows, writers, paths, seeds, terminal, init = args[:8]
    mode = args[9] if len(args) > 9 else "progress"
    bad = []
    for p in paths:
        r = replay_path(prog, basedb, rows, writers, p, mode=mode)
        if r is not None:
            bad.append(r)
    for sd in seeds:
        r = replay_path(prog, basedb, rows, writers, [init], random_seed=sd, terminal=terminal, mode=mode)
        if r is not None:
            bad.append(r)
    return len(paths) + len(seeds), bad


def row_of(prep: dict, mode: str) -> dict:
    st = prep["state"]["st"]["a"]
    if mode == "suspend":
        return {"ver": st["ver"], "status": st["status"], "buf": list(st["buf"]), "sig": st["sig"]}
    return {"ver": st["ver"], "prog": prep["state"]["tk"][TASK]["prog"], "buf": len(st["buf"])}


def names_of(writers: list[str], attempt: int) -> dict:
    """the driver names the k-th signal it sends str(k); `attempt` signals were sent (and buffered) before the race"""
    return {w: str(attempt + i + 1) for i, w in enumerate(writers)}


def component(rep: Reporter, tier: str, seed: int, mode: str = "progress") -> dict:
    import concurrent.futures as cf
    import multiprocessing as mp

    quick = tier != "thorough"
    rng = random.Random(seed)
    base = core.scratch_dir("progbase")
    spec = "Progress.tla" if mode == "progress" else "SuspendRace.tla"
    # progress: (attempt the racing RunTask is, number of concurrent writers)
    # suspend:  (signals already buffered when the race starts, number of concurrent signal handlers)
    configs = [(0, 1), (1, 1), (0, 2)] + ([] if quick else [(1, 2), (2, 1), (0, 3)])
    states = transitions = replayed = 0
    info, samples, jobs = [], [], []
    try:
        for (attempt, nw) in configs:
            writers = [f"s{i + 1}" for i in range(nw)]
            db, prep = prepare(attempt, nw, base, mode)
            rows = prep["rows"]
            if len([r for r in rows if r["typ"] == "RunTask"]) != 1 or len([r for r in rows if r["typ"] == "SignalStage"]) != nw:
                rep.machinery_failure(f"{mode} race ({attempt},{nw}): unexpected pending messages {[(r['typ']) for r in rows]}")
                continue
            row = row_of(prep, mode)
            if (row["prog"] if mode == "progress" else len(row["buf"])) != attempt:
                rep.machinery_failure(f"{mode} race ({attempt},{nw}): preparation left {row}")
                continue
            rd = os.path.join(base, f"tlc_{attempt}_{nw}")
            edges, init, r = explore(rd, cfg_module(writers, row, nw + 1, mode, names_of(writers, attempt)), mode)
            states += r.distinct
            transitions += r.generated
            if r.violated:
                for fm in sorted(set(r.violated)):
                    rep.violation(f"{spec} ({attempt},{nw}): {fm} is false in the specification",
                                  {"formula": fm, "state": None, "program": prep["prog"], "source": "progress-model"},
                                  {"kind": "progress-model", "program": prep["prog"], "formula": fm, "config": [attempt, nw],
                                   "mode": mode})
            if not r.ok and not r.violated:
                rep.machinery_failure(f"TLC on {spec} ({attempt},{nw}): " + r.out[-1500:])
                continue
            paths = paths_of(edges, init, 400 if quick else (3000 if nw <= 2 else 800), rng)
            term_states = {s for ts in edges.values() for s in ts} | set(edges.keys())
            terminal = []
            for s in term_states:
                if not edges.get(s):
                    v = model_view(json.loads(s))
                    if v not in terminal:
                        terminal.append(v)
            cov = r.coverage()
            info.append({"attempt": attempt, "writers": nw, "distinct": r.distinct, "interleavings": len(paths),
                         "terminal_states": len(terminal), "coverage": cov})
            if paths and len(samples) < 2:
                ps = [json.loads(s) for s in paths[len(paths) // 2]]
                samples.append({"config": [attempt, nw], "schedule": [wmover(ps[i - 1], ps[i]) for i in range(1, len(ps))]})
            n = 10
            for i in range(0, len(paths), n):
                jobs.append((prep["prog"], db, rows, writers, paths[i:i + n], [], terminal, init, attempt, mode))
            nrand = 60 if quick else (1000 if nw <= 2 else 300)
            seeds = [rng.randrange(1 << 30) for _ in range(nrand)]
            for i in range(0, len(seeds), 10):
                jobs.append((prep["prog"], db, rows, writers, [], seeds[i:i + 10], terminal, init, attempt, mode))
            info[-1]["statement_level_random_schedules"] = nrand
        with cf.ProcessPoolExecutor(max_workers=int(os.environ.get("VERIF_NPROC", "16")), mp_context=mp.get_context("spawn")) as ex:
            for (cnt, bad), job in zip(ex.map(_job, jobs), jobs):
                replayed += cnt
                for b in bad[:3]:
                    rep.violation(f"{mode} race, writers {job[3]}, schedule {b['schedule'][:40]}: after step {b['step']} "
                                  f"(worker {b['worker']} -> {b['model_pc']}) the real engine's state differs from {spec}: "
                                  f"want {json.dumps(b['want'])[:300]} got {json.dumps(b['got'])[:300]} {b['error']}",
                                  {"formula": "CONFORMANCE", "state": None, "program": job[0], "source": "progress-race"},
                                  {"kind": "progress-race", "program": job[0], "writers": job[3], "schedule": b["schedule"],
                                   "config": [job[8], len(job[3])], "seed": b.get("seed"), "mismatch": b, "mode": mode})
    finally:
        shutil.rmtree(base, ignore_errors=True)
    return {"states": states, "transitions": transitions, "replayed": replayed, "configs": info, "samples": samples}


def replay_doc(pid: str, doc: dict, path: str) -> int:
    """./check C14 --replay <file> for a progress-race record: the same schedule on the current tree."""
    attempt, nw = doc["config"]
    mode = doc.get("mode", "progress")
    writers = [f"s{i + 1}" for i in range(nw)]
    base = core.scratch_dir("progreplay")
    try:
        db, prep = prepare(attempt, nw, base, mode)
        row = row_of(prep, mode)
        edges, init, r = explore(os.path.join(base, "tlc"), cfg_module(writers, row, nw + 1, mode, names_of(writers, attempt)), mode)
        if doc.get("kind") == "progress-model":
            bad = doc["formula"] in set(r.violated)
            print("Progress.tla", doc["config"], doc["formula"], "false" if bad else "holds")
        elif doc.get("seed") is not None:
            terminal = []
            for s in {s for ts in edges.values() for s in ts} | set(edges.keys()):
                if not edges.get(s):
                    v = model_view(json.loads(s))
                    if v not in terminal:
                        terminal.append(v)
            res = replay_path(prep["prog"], db, prep["rows"], writers, [init], random_seed=doc["seed"], terminal=terminal, mode=mode)
            bad = res is not None
            print("statement-level schedule, seed", doc["seed"], "->", "final state is not a terminal state of Progress.tla: "
                  + json.dumps(res["got"]) + " " + res["error"] if bad else "ends in a terminal state of the specification")
        else:
            want = doc["schedule"]
            bad = None
            for p in paths_of(edges, init, 100000, random.Random(1)):
                ps = [json.loads(s) for s in p]
                sch = [wmover(ps[i - 1], ps[i]) for i in range(1, len(ps))]
                if sch[:len(want)] == want[:len(sch)]:
                    res = replay_path(prep["prog"], db, prep["rows"], writers, p, mode=mode)
                    bad = res is not None
                    print("schedule", sch, "->", f"differs from Progress.tla after step {res['step']}: want {res['want']} got {res['got']} {res['error']}"
                          if bad else "the real handlers follow Progress.tla")
                    break
            if bad is None:
                print("the recorded schedule is not a behaviour of Progress.tla any more")
                return 2
        if bad:
            print(f"VIOLATION property={pid} replay={path}")
            return 1
        return 0
    finally:
        shutil.rmtree(base, ignore_errors=True)
