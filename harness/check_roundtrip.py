"""C19 - what is stored or queued is read back unchanged.          (level claimed: EXPLORATION)

spec/RoundTrip.tla is a register model of the store (ReadBack, Frame, TaskOrder) and of the queue
(PathsAgree).  TLC enumerates the cases - which subset of fields a `store_stage` call changes, which
message type goes through which push path, and (rotation r) which VALUE CLASS goes into which field,
every enum member included - checks the model's own formulas, and prints every case with the tokens it
expects at each observation.  This module concretises every token with a real value of its class
(hypothesis, seeded), performs the operations on the real SqliteWorkflowStore / SqliteQueue /
AtomicTransaction and compares, field by field and type-strictly, what comes back with the value of
the token the model predicts.  The field tables (names, kinds, classes) are read from the spec and
are checked against the code's dataclasses, table columns and MESSAGE_TYPES, so a field or message type
added to the code without the spec is reported.

TLA+ contributes the oracle (register / frame) and the systematic enumeration of which fields, classes
and paths are exercised together; "for any JSON value" rests on hypothesis sampling.
"""
from __future__ import annotations

import dataclasses
import hashlib
import copy
import json
import os
import random
import re
import shutil
import sys
import time
import traceback

from . import core  # noqa: F401  (must precede any stabilize import)
from . import evidence, findings, tlc

NPROC = int(os.environ.get("VERIF_NPROC", "16"))
CASE_RE = re.compile(r'^<<"CASE", "(.*)">>\s*$')
TABLES_RE = re.compile(r'^<<"TABLES", "(.*)">>\s*$')
ALL_MSG_TYPES = ["StartWorkflow", "CompleteWorkflow", "CancelWorkflow", "StartWaitingWorkflows", "StartStage", "CompleteStage",
                 "SkipStage", "CancelStage", "RestartStage", "ResumeStage", "ContinueParentStage", "JumpToStage", "SignalStage",
                 "CancelRegion", "AddMultiInstance", "StartTask", "RunTask", "CompleteTask", "PauseTask", "InvalidWorkflowId",
                 "InvalidStageId", "InvalidTaskId", "InvalidTaskType"]
META_FIELDS = {"message_id", "created_at", "attempts", "max_attempts"}     # owned by the queue, not by the sender

# ------------------------------------------------------------------------------------------------
# TLC
# ------------------------------------------------------------------------------------------------


def cfg_text(mode: str, rots, rounds: int, slots: int, types) -> str:
    return ("CONSTANTS\n"
            f'  Mode = "{mode}"\n  Rots = {{{", ".join(str(r) for r in rots)}}}\n  MaxRounds = {rounds}\n  MaxSlots = {slots}\n'
            "  MsgTypes = {" + ", ".join(f'"{t}"' for t in types) + "}\n"
            "INIT Init\nNEXT Next\nACTION_CONSTRAINT SameRot\n"
            "INVARIANT ReadBack\nINVARIANT Frame\nINVARIANT TaskOrder\nINVARIANT PathsAgree\nINVARIANT Export\n"
            "CHECK_DEADLOCK FALSE\n")


def enumerate_cases(tag: str, mode: str, rots, rounds: int, slots: int, types, outdir: str, simulate: int = 0, seed: int = 1) -> dict:
    rd = tlc.new_rundir("c19-" + tag)
    try:
        extra = ["-simulate", f"num={simulate}", "-depth", "30", "-seed", str(seed)] if simulate else []
        r = tlc.run_tlc(rd, "RoundTrip", cfg_text(mode, rots, rounds, slots, types), workers=1, extra=extra, timeout=1500)
        path = os.path.join(outdir, tag + ".jsonl")
        n = 0
        tables = None
        seen = set()
        with open(path, "w") as fh:
            for ln in r.out.splitlines():
                m = CASE_RE.match(ln)
                if m:
                    if simulate:
                        h = hash(m.group(1))
                        if h in seen:
                            continue
                        seen.add(h)
                    fh.write(json.loads('"' + m.group(1) + '"') + "\n")
                    n += 1
                    continue
                m = TABLES_RE.match(ln)
                if m and tables is None:
                    tables = json.loads(json.loads('"' + m.group(1) + '"'))
        return {"tag": tag, "mode": mode, "path": path, "count": n, "tables": tables, "states": r.distinct, "generated": r.generated,
                "violated": r.violated, "errors": [e for e in r.errors if "is violated" not in e and "behavior up to" not in e],
                "wall": round(r.wall, 1), "out_tail": r.out[-1200:] if (r.errors or not n) else ""}
    finally:
        shutil.rmtree(rd, ignore_errors=True)


# ------------------------------------------------------------------------------------------------
# value classes -> hypothesis strategies
# ------------------------------------------------------------------------------------------------


REDUCER_NAMES = ["collect", "append", "extend", "sum", "max", "min", "merge", "first", "last"]


def strategies(large: int):
    from hypothesis import strategies as st

    ascii_t = st.text(alphabet=st.characters(min_codepoint=32, max_codepoint=126), min_size=1, max_size=24)
    any_t = st.text(alphabet=st.characters(blacklist_categories=("Cs",)), min_size=0, max_size=16)
    nonascii = st.text(alphabet=st.characters(min_codepoint=128, blacklist_categories=("Cs",)), min_size=1, max_size=8)
    uni_t = st.builds(lambda a, b, c: a + b + c, any_t, nonascii, any_t)
    large_t = st.builds(lambda u: (u * (large // len(u) + 1))[:large], st.one_of(ascii_t, uni_t))
    scalar = st.one_of(st.none(), st.booleans(), st.integers(), st.integers(min_value=-2**70, max_value=2**70),
                       st.floats(allow_nan=False, allow_infinity=False), ascii_t, uni_t, st.just(""))
    key = st.one_of(ascii_t, uni_t)
    flat = st.dictionaries(key, scalar, min_size=1, max_size=6)
    nested = st.recursive(scalar, lambda ch: st.one_of(st.lists(ch, max_size=4), st.dictionaries(key, ch, max_size=4)), max_leaves=12)
    nested_d = st.dictionaries(key, nested, min_size=1, max_size=4).filter(
        lambda d: any(isinstance(v, (dict, list)) for v in d.values()))
    uni_d = st.dictionaries(uni_t, st.one_of(uni_t, st.lists(uni_t, max_size=3)), min_size=1, max_size=4)
    large_d = st.builds(lambda s, n: {"blob": s, "n": n, "list": [s[:10], n]}, large_t, st.integers())
    S = {
        ("text", "ascii"): ascii_t, ("text", "unicode"): uni_t, ("text", "large"): large_t, ("text", "empty"): st.just(""),
        ("json", "empty"): st.just({}), ("json", "scalars"): flat, ("json", "nested"): nested_d, ("json", "unicode"): uni_d,
        ("json", "large"): large_d,
        ("jsonlist", "empty"): st.just([]), ("jsonlist", "nested"): st.lists(nested_d, min_size=1, max_size=3),
        ("jsonlist", "unicode"): st.lists(uni_d, min_size=1, max_size=3),
        ("strmap", "empty"): st.just({}), ("strmap", "ascii"): st.dictionaries(ascii_t, ascii_t, min_size=1, max_size=4),
        ("strmap", "unicode"): st.dictionaries(uni_t, uni_t, min_size=1, max_size=4),
        ("reducers", "empty"): st.just({}),
        ("reducers", "one"): st.dictionaries(st.one_of(ascii_t, uni_t), st.sampled_from(REDUCER_NAMES), min_size=1, max_size=1),
        ("reducers", "many"): st.dictionaries(st.one_of(ascii_t, uni_t), st.sampled_from(REDUCER_NAMES), min_size=2, max_size=5),
        ("refs", "empty"): st.just(set()), ("refs", "one"): st.builds(lambda a: {a}, st.one_of(ascii_t, uni_t)),
        ("refs", "many"): st.sets(st.one_of(ascii_t, uni_t), min_size=2, max_size=5),
        ("bool", "true"): st.just(True), ("bool", "false"): st.just(False),
        ("int", "none"): st.none(), ("int", "zero"): st.just(0), ("int", "small"): st.integers(1, 1000),
        ("int", "epoch"): st.integers(10**12, 2 * 10**12), ("int", "max"): st.just(2**63 - 1),
    }
    S[("otext", "none")] = st.none()
    for c in ("ascii", "unicode", "large", "empty"):
        S[("otext", c)] = S[("text", c)]
        S[("text1", c)] = S[("text", c)]
    return S, st


def draw_pools(S: dict, hseed: int, n: int, size: int) -> list[dict]:
    """n pools; a pool holds `size` hypothesis-drawn values per (kind, class).  Drawing per class keeps every
    hypothesis example small (one list); hypothesis' first example of a run is its simplest one, so pool 0 holds
    the boundary values ('0', {'0': None}, 1, ...) and the others random ones."""
    from hypothesis import HealthCheck, Phase, given, seed, settings
    from hypothesis import strategies as st

    pools: list[dict] = [{} for _ in range(n)]
    for key, strat in S.items():
        got: list[list] = []

        @settings(max_examples=n, deadline=None, database=None, suppress_health_check=list(HealthCheck), phases=[Phase.generate])
        @seed(hseed)
        @given(st.lists(strat, min_size=size, max_size=size))
        def go(xs):
            got.append(xs)

        go()
        for i in range(n):
            pools[i][key] = got[i % len(got)]
    return pools


class Picker:
    """Concrete values for tokens: picks from a hypothesis-drawn pool with a seeded generator."""

    def __init__(self, pool: dict, rng: random.Random) -> None:
        self.pool, self.rng = pool, rng

    def get(self, kind: str, cls: str):
        xs = self.pool[(kind, cls)]
        return xs[self.rng.randrange(len(xs))]


def make_value(kind: str, cls: str, pk: Picker):
    """A concrete value of class `cls` for a field of kind `kind`."""
    from stabilize.models.multi_instance import MultiInstanceConfig
    from stabilize.models.stage import JoinType, SplitType, SyntheticStageOwner
    from stabilize.models.status import WorkflowStatus
    from stabilize.models.workflow import PausedDetails, WorkflowType

    enums = {"status": WorkflowStatus, "ostatus": WorkflowStatus, "join": JoinType, "split": SplitType,
             "owner": SyntheticStageOwner, "oowner": SyntheticStageOwner, "wftype": WorkflowType}
    if kind in enums:
        if cls == "none":
            return None
        return list(enums[kind])[int(cls[1:]) - 1]
    if kind in ("oint", "nat"):
        return pk.get("int", cls)
    flip = lambda: pk.rng.random() < 0.5  # noqa: E731
    if kind == "omi":
        if cls == "none":
            return None
        if cls == "default":
            return MultiInstanceConfig()
        return MultiInstanceConfig(count=pk.get("int", "small"), count_from_context=pk.get("text", "unicode"),
                                   sync_on_complete=flip(), allow_dynamic=flip(), collection_from_context=pk.get("text", "ascii"),
                                   join_threshold=pk.get("int", "small"), cancel_remaining=flip())
    if kind == "opaused":
        if cls == "none":
            return None
        return PausedDetails(paused_by=pk.get("text", "unicode"), pause_time=pk.get("int", "epoch"),
                             resume_time=pk.get("int", "epoch") if flip() else None, paused_ms=pk.get("int", "small"))
    return pk.get(kind, cls)


SAVE_PATHS = ("direct", "txn", "direct+phase", "txn+phase")


def strict_eq(a, b) -> bool:
    """Equality of JSON-representable values without Python's bool/int/float coercions."""
    if dataclasses.is_dataclass(a) and dataclasses.is_dataclass(b):
        return type(a) is type(b) and strict_eq(dataclasses.asdict(a), dataclasses.asdict(b))
    if type(a) is not type(b):
        return False
    if isinstance(a, dict):
        return a.keys() == b.keys() and all(strict_eq(a[k], b[k]) for k in a)
    if isinstance(a, (list, tuple)):
        return len(a) == len(b) and all(strict_eq(x, y) for x, y in zip(a, b))
    if isinstance(a, (set, frozenset)):
        return a == b
    if isinstance(a, float):
        return repr(a) == repr(b)
    return a == b


def short(v) -> str:
    s = repr(v)
    return s if len(s) <= 160 else s[:100] + f"...<{len(s)} chars>..." + s[-30:]


# ------------------------------------------------------------------------------------------------
# replay of one case with one draw of values (runs inside pool workers)
# ------------------------------------------------------------------------------------------------


class Env:
    def __init__(self, large: int, parent: str | None = None) -> None:
        import tempfile

        core.reset_volatile()
        from stabilize.persistence.sqlite.store.store import SqliteWorkflowStore
        from stabilize.queue.sqlite.queue import SqliteQueue

        # inside a directory the parent process removes (pool workers are killed without running atexit handlers)
        self.dir = tempfile.mkdtemp(prefix="db-", dir=parent) if parent else core.scratch_dir("c19db")
        self.cs = "sqlite:///" + os.path.join(self.dir, "rt.db")
        self.store = SqliteWorkflowStore(self.cs, create_tables=True)
        self.queue = SqliteQueue(self.cs)
        self.queue._create_table()
        self.raw = core.raw_connect(os.path.join(self.dir, "rt.db"))
        self.S, self.st = strategies(large)
        self.n = 0
        self.tables = None
        self.kind = {}

    def set_tables(self, tables: dict) -> None:
        self.tables = tables
        self.kind = {"wf": {f["n"]: f["k"] for f in tables["wf"]}, "st": {f["n"]: f["k"] for f in tables["st"]},
                     "tk": {f["n"]: f["k"] for f in tables["tk"]},
                     "msg": {t: {f["n"]: f["k"] for f in fs} for t, fs in tables["msg"].items()}}

    def close(self) -> None:
        shutil.rmtree(self.dir, ignore_errors=True)

    def other(self, fn):
        """Run fn(store) on another thread = through an INDEPENDENT connection (stabilize keeps one connection per
        thread): what another worker sees, i.e. committed data only."""
        import threading

        box: dict = {}

        def body():
            try:
                box["r"] = fn(self.store)
            except BaseException as e:  # noqa: BLE001
                box["e"] = e
            finally:
                core.close_thread_connections()

        th = threading.Thread(target=body)
        th.start()
        th.join()
        if "e" in box:
            raise box["e"]
        return box["r"]


class CaseRun:
    """One case, one draw.  `vals` maps a token's identity (scope, field, w) to its concrete value."""

    def __init__(self, env: Env, pk: Picker) -> None:
        self.env, self.pk = env, pk
        self.vals: dict = {}
        self.mism: list[dict] = []
        self.nontrivial = 0
        self.written = 0
        self.covered: set = set()   # (table or message type, field, class) concretised in this run
        self.same_ms = 0        # consecutive default (ULID) task ids generated within one millisecond
        env.n += 1
        self.uid = f"c{os.getpid()}x{env.n}"

    def val(self, scope: str, table: str, field: str, tok: dict, mtype: str | None = None):
        key = (scope, field, tok["w"])
        if key not in self.vals:
            kinds = self.env.kind["msg"][mtype] if table == "msg" else self.env.kind[table]
            v = copy.deepcopy(make_value(kinds[field], tok["c"], self.pk))     # the case's own object (pools are shared)
            self.vals[key] = v
            self.written += 1
            self.covered.add((mtype or table, field, tok["c"]))
            if tok["c"] not in ("none", "empty", "zero", "false", "default"):
                self.nontrivial += 1
        v = self.vals[key]
        if tok.get("plus"):
            v = v + tok["plus"]
        return v

    def diff(self, formula: str, where: str, field: str, tok: dict, want, got, op_no: int) -> None:
        if not strict_eq(want, got):
            self.mism.append({"formula": formula, "where": where, "field": field, "class": tok.get("c"), "op": op_no,
                              "expected": short(want), "observed": short(got)})

    # ---- stage mode
    def task_id(self, ids: str, s: int, rank: int) -> str | None:
        if ids == "ulid":
            return None
        return f"{self.uid}-s{s}-{rank:03d}" if ids == "custom_sorted" else f"{self.uid}-s{s}-{999 - rank:03d}"

    def task_kwargs(self, s: int, t: dict, ids: str) -> dict:
        kw = {f: self.val(f"tk{s}.{t['rank']}", "tk", f, tok) for f, tok in t["f"].items()}
        tid = self.task_id(ids, s, t["rank"])
        if tid is not None:
            kw["id"] = tid
        return kw

    def build_task(self, s: int, t: dict, ids: str):
        from stabilize.models.task import TaskExecution

        return TaskExecution(**self.task_kwargs(s, t, ids))

    def build_workflow(self, op: dict):
        from stabilize.models.stage import StageExecution
        from stabilize.models.task import TaskExecution
        from stabilize.models.workflow import Trigger, Workflow

        img = op["img"]
        wfv = {f: self.val("wf", "wf", f, tok) for f, tok in img["wf"].items()}
        trig = Trigger(**{k.split(".", 1)[1]: wfv.pop(k) for k in list(wfv) if k.startswith("trigger.")})
        stages = []
        self.stage_ids = []
        self.task_ids: dict[int, list[str]] = {}
        for i, cols in enumerate(img["st"]):
            s = i + 1
            kw = {f: self.val(f"st{s}", "st", f, tok) for f, tok in cols.items()}
            sid = f"{self.uid}-S{s}"
            kws = [self.task_kwargs(s, t, op["ids"]) for t in img["tk"][i]]
            tasks = [TaskExecution(**kw) for kw in kws]       # created back to back: default ids fall into one millisecond
            if op["ids"] == "ulid":
                self.same_ms += sum(1 for a, b in zip(tasks, tasks[1:]) if a.id[:10] == b.id[:10])
            stg = StageExecution(id=sid, ref_id=f"ref{s}", tasks=tasks, **kw)
            for t in tasks:
                t.stage = stg
            self.stage_ids.append(sid)
            self.task_ids[s] = [t.id for t in tasks]
            stages.append(stg)
        wf = Workflow(id=f"{self.uid}-W", stages=stages, trigger=trig, **wfv)
        self.wf_id = wf.id
        self.ids = op["ids"]
        return wf

    def check_stage(self, s: int, got, cols: dict, tks: list, op_no: int, fresh_w: int, after_ss: bool) -> None:
        for f, tok in cols.items():
            want = self.val(f"st{s}", "st", f, tok)
            formula = "ReadBack" if (tok["w"] == fresh_w or not after_ss) else "Frame"
            self.diff(formula, f"stage{s}", f, tok, want, getattr(got, f), op_no)
        self.diff("ReadBack", f"stage{s}", "id", {}, self.stage_ids[s - 1], got.id, op_no)
        self.diff("ReadBack", f"stage{s}", "ref_id", {}, f"ref{s}", got.ref_id, op_no)
        want_ids = self.task_ids[s][:len(tks)]
        got_ids = [t.id for t in got.tasks]
        if got_ids != want_ids:
            self.mism.append({"formula": "TaskOrder", "where": f"stage{s}", "field": "tasks", "class": self.ids, "op": op_no,
                              "expected": short(want_ids), "observed": short(got_ids), "ntasks": len(want_ids)})
            if sorted(got_ids) != sorted(want_ids):
                return
        by_id = {t.id: t for t in got.tasks}
        for t, gt in zip(tks, [by_id[i] for i in want_ids]):
            for f, tok in t["f"].items():
                want = self.val(f"tk{s}.{t['rank']}", "tk", f, tok)
                formula = "ReadBack" if (tok["w"] == fresh_w or not after_ss) else "Frame"
                self.diff(formula, f"stage{s}.task{t['rank']}", f, tok, want, getattr(gt, f), op_no)
            self.diff("ReadBack", f"stage{s}.task{t['rank']}", "version", {}, t["ver"], gt.version, op_no)

    def check_workflow(self, got, exp: dict, op_no: int, fresh_w: int, after_ss: bool) -> None:
        for f, tok in exp["wf"].items():
            want = self.val("wf", "wf", f, tok)
            g = getattr(got.trigger, f.split(".", 1)[1]) if f.startswith("trigger.") else getattr(got, f)
            self.diff("Frame" if after_ss else "ReadBack", "workflow", f, tok, want, g, op_no)
        by_id = {s.id: s for s in got.stages}
        if set(by_id) != set(self.stage_ids):
            self.mism.append({"formula": "ReadBack", "where": "workflow", "field": "stages", "class": None, "op": op_no,
                              "expected": short(self.stage_ids), "observed": short(sorted(by_id))})
            return
        for i, cols in enumerate(exp["st"]):
            self.check_stage(i + 1, by_id[self.stage_ids[i]], cols, exp["tk"][i], op_no, fresh_w, after_ss)

    def run_stage_case(self, hist: list[dict]) -> None:

        store = self.env.store
        fresh_w, after_ss = 0, False
        for k, op in enumerate(hist):
            o = op["op"]
            if o == "store":
                wf = self.build_workflow(op)
                self.covered.add(("store_how", op.get("how", "store"), ""))
                if op.get("how") == "add_stage" and len(wf.stages) > 1:
                    late = wf.stages[1:]
                    wf.stages = wf.stages[:1]
                    store.store(wf)
                    for stg in late:                 # the second way to insert a stage
                        stg.execution = wf
                        store.add_stage(stg)
                else:
                    store.store(wf)
                fresh_w, after_ss = op["w"], False
            elif o == "retrieve":
                self.check_workflow(store.retrieve(self.wf_id), op["expect"], k, fresh_w, after_ss)
                n0 = len(self.mism)
                try:
                    got = self.env.other(lambda st: st.retrieve(self.wf_id))
                except Exception as e:  # noqa: BLE001
                    self.mism.append({"formula": "ReadBack", "where": "workflow (independent connection)", "field": "<workflow>",
                                      "class": None, "op": k, "expected": "the stored workflow", "observed": short(repr(e))})
                else:
                    self.check_workflow(got, op["expect"], k, fresh_w, after_ss)
                for m in self.mism[n0:]:
                    m["where"] += " (independent connection)" if "independent" not in m["where"] else ""
            elif o == "retrieve_stage":
                got = store.retrieve_stage(self.stage_ids[0])
                self.check_stage(1, got, op["expect"]["st"], op["expect"]["tk"], k, fresh_w, after_ss)
                n0 = len(self.mism)
                got = self.env.other(lambda st: st.retrieve_stage(self.stage_ids[0]))
                self.check_stage(1, got, op["expect"]["st"], op["expect"]["tk"], k, fresh_w, after_ss)
                for m in self.mism[n0:]:
                    m["where"] += " (independent connection)"
            elif o == "store_stage":
                fresh_w, after_ss = op["w"], True
                stg = store.retrieve_stage(self.stage_ids[0])
                phase_before = stg.status.name
                for f, tok in (op["set"] or {}).items():
                    v = self.val("st1", "st", f, tok)
                    if f == "context" and stg.output_reducers:
                        v["_output_reducers"] = dict(stg.output_reducers)     # the caller keeps the stage's private key
                    setattr(stg, f, v)
                for f, tok in (op["mem_only"] or {}).items():       # assigned in memory; store_stage must not persist them
                    setattr(stg, f, make_value(self.env.kind["st"][f], tok["c"], self.pk))
                have = {t.id: t for t in stg.tasks}
                for i, t in enumerate(op["tasks"]):
                    if i < len(self.task_ids[1]):
                        if "tasks_mod" in op["changed"]:
                            for f, tok in t["f"].items():
                                setattr(have[self.task_ids[1][i]], f, self.val(f"tk1.{t['rank']}", "tk", f, tok))
                    else:
                        nt = self.build_task(1, t, self.ids)
                        nt.stage = stg
                        stg.tasks.append(nt)
                        self.task_ids[1].append(nt.id)
                # The register model gives store_stage ONE meaning; the code has four save paths for it (direct /
                # inside store.transaction(), each with or without the phase check `expected_phase` = the stored
                # status, which always matches here).  The path rotates with (case, example, operation).
                via = SAVE_PATHS[(getattr(self, "via_base", 0) + k) % len(SAVE_PATHS)]
                self.covered.add(("save_path", via, ""))
                kw = {"expected_phase": phase_before} if via.endswith("+phase") else {}
                if via.startswith("txn"):
                    with store.transaction(None) as txn:
                        txn.store_stage(stg, **kw)
                else:
                    store.store_stage(stg, **kw)

    # ---- queue mode
    def run_queue_case(self, hist: list[dict]) -> None:
        from stabilize.queue.messages import MESSAGE_TYPES, get_message_type_name

        store, queue = self.env.store, self.env.queue
        queue.clear()
        delivered = []
        for k, op in enumerate(hist):
            if op["op"] == "push":
                t = op["type"]
                kw = {f: self.val(f"msg.{t}.{op['r']}", "msg", f, tok, t) for f, tok in op["f"].items()}
                msg = MESSAGE_TYPES[t](**kw)
                if op["path"] == "direct":
                    queue.push(msg)
                else:
                    with store.transaction(queue) as txn:
                        txn.push_message(msg)
            elif op["op"] == "poll":
                got = queue.poll_one()
                exp = op["expect"]
                if got is None:
                    self.mism.append({"formula": "PathsAgree", "where": "poll", "field": "<message>", "class": None, "op": k,
                                      "expected": exp["type"], "observed": "nothing delivered"})
                    continue
                tn = get_message_type_name(got)
                path = [h["path"] for h in hist if h["op"] == "push"][len(delivered)]
                ack = op.get("ack", True)
                if ack:
                    delivered.append(got)
                else:
                    path += ", first delivery"
                if path.startswith(("direct", "txn")) and not ack:
                    self.covered.add(("redelivery", "unacked", ""))
                if tn != exp["type"]:
                    self.mism.append({"formula": "PathsAgree", "where": f"poll({path})", "field": "<type>", "class": None, "op": k,
                                      "expected": exp["type"], "observed": tn})
                else:
                    rr = next(h["r"] for h in hist if h["op"] == "push" and h["type"] == exp["type"] and h["f"] == exp["f"])
                    for f, tok in exp["f"].items():
                        want = self.val(f"msg.{tn}.{rr}", "msg", f, tok, tn)
                        self.diff("PathsAgree", f"poll({path}) {tn}", f, tok, want, getattr(got, f), k)
                if ack:
                    queue.ack(got)
                else:
                    scribble(got)         # the consumer works on ITS copy, then dies: the lock lapses, no ack, no reschedule
                    self.env.raw.execute("UPDATE queue_messages SET locked_until = '2000-01-01T00:00:00+00:00' WHERE id = ?",
                                         (int(got.message_id),))
        extra = queue.poll_one()
        if extra is not None:
            self.mism.append({"formula": "PathsAgree", "where": "poll", "field": "<message>", "class": None, "op": len(hist),
                              "expected": "queue empty", "observed": short(extra)})


def scribble(msg) -> None:
    """What a consumer may do to the message object it was handed: change nested values in place, record an error."""
    import dataclasses

    for f in dataclasses.fields(msg):
        if f.name in ("message_id", "attempts", "max_attempts", "created_at"):
            continue
        v = getattr(msg, f.name)
        if isinstance(v, dict):
            for k in list(v):
                if isinstance(v[k], (dict, list)):
                    v[k].clear()
            v["scribbled"] = True
        elif isinstance(v, list):
            v.append("scribbled")
        elif isinstance(v, str):
            try:
                setattr(msg, f.name, v + "-scribbled")
            except Exception:  # noqa: BLE001
                pass
    try:
        msg.set_error_context(RuntimeError("consumer failed"))
    except Exception:  # noqa: BLE001
        pass


_ENV: Env | None = None


def _init(large: int, tables: dict, parent: str | None = None) -> None:
    global _ENV
    _ENV = Env(large, parent)
    _ENV.set_tables(tables)
    import atexit

    atexit.register(_ENV.close)


def _job(args) -> dict:
    """Replays the chosen cases of a case file, each with `examples` different draws of concrete values."""
    path, mode, idxs, examples, hseed, jobno = args
    want = set(idxs)
    out = {"evaluations": 0, "nontrivial": set(), "mism": [], "errors": [], "cases": 0, "values": 0, "sample": None, "same_ms": 0,
           "covered": set(), "ops": {}}
    try:
        pools = draw_pools(_ENV.S, hseed * 7919 + jobno, examples, 6)
    except Exception as e:  # noqa: BLE001
        out["errors"].append(f"hypothesis could not draw the value pools: {type(e).__name__}: {e}")
        out["nontrivial"] = []
        return out
    with open(path) as fh:
        for i, ln in enumerate(fh):
            if i not in want or not ln.strip():
                continue
            hist = json.loads(ln)
            out["cases"] += 1
            for e in range(examples):
                run = CaseRun(_ENV, Picker(pools[e], random.Random(f"{hseed}/{os.path.basename(path)}/{i}/{e}")))
                run.via_base = i + e
                try:
                    if mode == "stage":
                        try:
                            run.run_stage_case(hist)
                        finally:     # keep the scratch database small (large values!): rows are reused by SQLite
                            if getattr(run, "wf_id", None):
                                _ENV.store.delete(run.wf_id)
                    else:
                        run.run_queue_case(hist)
                except Exception as ex:  # noqa: BLE001
                    run.mism.append({"formula": "ReadBack", "where": "operation raised", "field": type(ex).__name__, "class": None,
                                     "op": -1, "expected": "the operation succeeds", "observed": short(str(ex)),
                                     "trace": traceback.format_exc()[-1500:]})
                out["evaluations"] += 1
                out["values"] += run.written
                out["same_ms"] += run.same_ms
                out["covered"] |= run.covered
                for o in hist:
                    k = o["op"] + ("/" + o["path"] if o["op"] == "push" else "")
                    out["ops"][k] = out["ops"].get(k, 0) + 1
                if run.nontrivial:
                    out["nontrivial"].add(hashlib.md5(repr(sorted((str(k), short(v)) for k, v in run.vals.items())).encode(
                        "utf-8", "replace")).hexdigest())
                for m in run.mism:
                    m["case"], m["mode"], m["file"], m["example"], m["jobno"] = i, mode, os.path.basename(path), e, jobno
                    if len(out["mism"]) < 400:
                        out["mism"].append({**m, "hist": hist})
                if out["sample"] is None and run.vals and e == examples - 1:
                    out["sample"] = {"mode": mode,
                                     "ops": [o["op"] + (":" + o.get("type", "") + "/" + o.get("path", "") if o["op"] == "push" else
                                                        (":" + ",".join(o.get("changed", [])) if o["op"] == "store_stage" else ""))
                                             for o in hist],
                                     "some_values": {str(k): short(v) for k, v in list(run.vals.items())[:6]}}
    out["nontrivial"] = list(out["nontrivial"])
    out["covered"] = list(out["covered"])
    return out


# ------------------------------------------------------------------------------------------------
# findings predicates (proposed entries: docs/findings_C19.json)
# ------------------------------------------------------------------------------------------------


def _task_order_by_id(sig, ctx) -> bool:
    """Tasks read back ORDER BY id: a stage whose task ids do not sort in list order comes back permuted."""
    return (ctx.get("formula") == "TaskOrder" and ctx.get("id_class") == sig.get("id_class", "custom_unsorted")
            and ctx.get("ntasks", 0) >= 2)


def _lossy_default(sig, ctx) -> bool:
    """A falsy value replaced by the column's default on the way back (`row[...] or <default>`)."""
    return (ctx.get("formula") in ("ReadBack", "Frame") and ctx.get("where") == sig["where"] and ctx.get("field") == sig["field"]
            and ctx.get("class") == sig["class"] and ctx.get("observed") == sig["observed"])


findings.PREDICATES["c19_task_order_by_id"] = _task_order_by_id
findings.PREDICATES["c19_lossy_default"] = _lossy_default

# ------------------------------------------------------------------------------------------------
# the tables of the specification versus the code
# ------------------------------------------------------------------------------------------------


def table_drift(tables: dict) -> list[str]:
    """Fields / message types the code has and the specification does not (or vice versa)."""
    from stabilize.models.stage import StageExecution
    from stabilize.models.task import TaskExecution
    from stabilize.models.workflow import Workflow
    from stabilize.persistence.sqlite.schema import SCHEMA
    from stabilize.queue.messages import MESSAGE_TYPES

    problems = []

    def cols(table: str) -> set[str]:
        m = re.search(r"CREATE TABLE IF NOT EXISTS " + table + r" \((.*?)\n\);", SCHEMA, re.S)
        return {ln.strip().split()[0] for ln in m.group(1).splitlines() if ln.strip() and not ln.strip().startswith(("UNIQUE", "PRIMARY"))}

    spec_st = {f["n"] for f in tables["st"]} | {"id", "ref_id", "execution_id"}
    if cols("stage_executions") != spec_st - {"output_reducers"}:       # persisted through the context column
        problems.append(f"stage_executions columns vs spec StageFields: {sorted(cols('stage_executions') ^ spec_st)}")
    dc_st = {f.name for f in dataclasses.fields(StageExecution)} - {"tasks", "cleanup_on_failure", "finalizer_names", "_execution"}
    if dc_st != spec_st - {"execution_id"}:
        problems.append(f"StageExecution fields vs spec StageFields: {sorted(dc_st ^ (spec_st - {'execution_id'}))}")
    spec_tk = {f["n"] for f in tables["tk"]} | {"id", "stage_id", "version"}
    if cols("task_executions") != spec_tk:
        problems.append(f"task_executions columns vs spec TaskFields: {sorted(cols('task_executions') ^ spec_tk)}")
    dc_tk = {f.name for f in dataclasses.fields(TaskExecution)} - {"_stage"}
    if dc_tk != spec_tk - {"stage_id"}:
        problems.append(f"TaskExecution fields vs spec TaskFields: {sorted(dc_tk ^ (spec_tk - {'stage_id'}))}")
    spec_wf = {f["n"].split(".")[0] for f in tables["wf"]} | {"id"}
    wf_cols = cols("pipeline_executions") - {"created_at"}
    if wf_cols != spec_wf:
        problems.append(f"pipeline_executions columns vs spec WfFields: {sorted(wf_cols ^ spec_wf)}")
    dc_wf = {f.name for f in dataclasses.fields(Workflow)} - {"stages", "config_version"}
    if dc_wf != spec_wf:
        problems.append(f"Workflow fields vs spec WfFields: {sorted(dc_wf ^ spec_wf)}")
    if set(MESSAGE_TYPES) != set(tables["msg"]):
        problems.append(f"MESSAGE_TYPES vs spec MsgTypes: {sorted(set(MESSAGE_TYPES) ^ set(tables['msg']))}")
    for t, fs in tables["msg"].items():
        if t in MESSAGE_TYPES:
            dc = {f.name for f in dataclasses.fields(MESSAGE_TYPES[t])} - META_FIELDS
            if dc != {f["n"] for f in fs}:
                problems.append(f"fields of message {t} vs spec MsgFields: {sorted(dc ^ {f['n'] for f in fs})}")
    return problems


# ------------------------------------------------------------------------------------------------
# driver
# ------------------------------------------------------------------------------------------------


def run(pid: str, tier: str, seed: int) -> int:
    import concurrent.futures as cf
    import multiprocessing as mp

    rep = evidence.Reporter(pid)
    t0 = time.time()
    rnd = random.Random(seed)
    th = tier == "thorough"
    rots = list(range(13))      # >= the largest class list (ostatus: None + 12 members): every field sees every class
    outdir = core.scratch_dir("c19cases")
    try:
        # ---- 1. TLC enumerates the cases (one JVM per rotation: they are independent)
        runs = []
        with cf.ThreadPoolExecutor(max_workers=NPROC) as ex:
            fs = []
            for g in range(6):       # the rotations are independent: a few JVMs side by side
                fs.append(ex.submit(enumerate_cases, f"stage-g{g}", "stage", rots[g::6], 1, 1, ALL_MSG_TYPES[:1], outdir))
            for g in range(3):
                fs.append(ex.submit(enumerate_cases, f"queue-g{g}", "queue", rots[g::3], 1, 1, ALL_MSG_TYPES, outdir))
            if th:
                for k in range(5):
                    fs.append(ex.submit(enumerate_cases, f"stage2-sim{k}", "stage", rots, 2, 1, ALL_MSG_TYPES[:1], outdir, 1200, seed + k))
                for k in range(3):
                    fs.append(ex.submit(enumerate_cases, f"queue2-sim{k}", "queue", rots, 1, 2, ALL_MSG_TYPES, outdir, 1200, seed + k))
            runs = [f.result() for f in fs]
        t_tlc = time.time() - t0
        tables = None
        states = 0
        for r in runs:
            states += r["states"]
            if r["errors"] or not r["count"]:
                rep.machinery_failure(f"TLC failed on {r['tag']}: {r['errors'][:2]} {r['out_tail'][-500:]}")
            for inv in r["violated"]:
                rep.violation(f"model: {inv} is violated ({r['tag']})", {"formula": inv, "source": "model"},
                              {"kind": "model", "tag": r["tag"], "formula": inv})
            if r["mode"] == "queue" and r["tables"] and (tables is None):
                tables = r["tables"]
        if tables is None:
            rep.machinery_failure("the specification did not print its field tables")
            return rep.finish()
        drift = table_drift(tables)
        for d in drift:
            rep.machinery_failure("specification tables out of date with the code: " + d)

        # ---- 2. replay
        examples = int(os.environ.get("VERIF_C19_EXAMPLES", "4" if th else "2"))
        large = 200_000 if th else 50_000
        cap_stage = int(os.environ.get("VERIF_C19_CAP", "1000000" if th else "2400"))
        jobs = []
        total_cases = 0
        for r in runs:
            if not r["count"]:
                continue
            total_cases += r["count"]
            cap = cap_stage if r["mode"] == "stage" else 10**9
            idxs = list(range(r["count"]))
            if r["tag"].startswith("stage-g") and r["count"] * 6 > cap:
                idxs = sorted(rnd.sample(idxs, max(1, cap // 6)))
            step = 40 if r["mode"] == "stage" else 120
            for i in range(0, len(idxs), step):
                jobs.append((r["path"], r["mode"], idxs[i:i + step], examples, seed, len(jobs)))
        agg = {"evaluations": 0, "nontrivial": set(), "mism": [], "errors": [], "cases": 0, "values": 0, "samples": [], "same_ms": 0,
               "covered": set(), "ops": {}}
        with cf.ProcessPoolExecutor(max_workers=NPROC, mp_context=mp.get_context("fork"), initializer=_init,
                                    initargs=(large, tables, outdir)) as ex:
            for res in ex.map(_job, jobs, chunksize=1):
                agg["evaluations"] += res["evaluations"]
                agg["nontrivial"].update(res["nontrivial"])
                agg["mism"].extend(res["mism"])
                agg["errors"].extend(res["errors"])
                agg["cases"] += res["cases"]
                agg["values"] += res["values"]
                agg["same_ms"] += res["same_ms"]
                agg["covered"].update(tuple(x) for x in res["covered"])
                for k, v in res["ops"].items():
                    agg["ops"][k] = agg["ops"].get(k, 0) + v
                if res["sample"] and len(agg["samples"]) < 6:
                    agg["samples"].append(res["sample"])
        for e in agg["errors"][:5]:
            rep.machinery_failure("replay: " + e)
        # vacuity: every (field, value class) of the specification's tables was concretised and compared at least once,
        # every operation kind was replayed
        want_cov = set()
        for tname in ("wf", "st", "tk"):
            for f in tables[tname]:
                want_cov |= {(tname, f["n"], c) for c in tables["classes"][f["k"]]}
        for t, fs in tables["msg"].items():
            for f in fs:
                want_cov |= {(t, f["n"], c) for c in tables["classes"][f["k"]]}
        paths = sorted(x[1] for x in agg["covered"] if x[0] == "save_path")
        if paths != sorted(SAVE_PATHS):
            rep.machinery_failure(f"store_stage save paths exercised: {paths}, wanted all of {SAVE_PATHS}")
        hows = sorted(x[1] for x in agg["covered"] if x[0] == "store_how")
        if hows != ["add_stage", "store"]:
            rep.machinery_failure(f"stage insert paths exercised: {hows}, wanted store and add_stage")
        if ("redelivery", "unacked", "") not in agg["covered"]:
            rep.machinery_failure("no unacknowledged delivery followed by a redelivery was replayed")
        missing = sorted(want_cov - agg["covered"])
        if missing:
            rep.machinery_failure(f"vacuity: {len(missing)} (field, class) pairs of the specification were never replayed, e.g. {missing[:5]}")
        for k in ("store", "store_stage", "retrieve", "retrieve_stage", "push/direct", "push/txn", "poll"):
            if not agg["ops"].get(k):
                rep.machinery_failure(f"vacuity: operation {k} was never replayed")

        # ---- 3. verdicts: one violation per (formula, place, field, class) - the rest are repetitions
        groups: dict[tuple, list[dict]] = {}
        for m in agg["mism"]:
            groups.setdefault((m["formula"], re.sub(r"\d+", "#", m["where"]), m["field"], m["class"]), []).append(m)
        for (formula, where, field, cls), ms in sorted(groups.items(), key=lambda kv: str(kv[0])):
            m = ms[0]
            ctx = {"formula": formula, "where": where, "field": field, "class": cls, "observed": m["observed"],
                   "expected": m["expected"], "id_class": m["class"] if formula == "TaskOrder" else None, "ntasks": m.get("ntasks", 0)}
            rep.violation(f"{formula}: {where}.{field} (class {cls}): expected {m['expected']} observed {m['observed']} "
                          f"[{len(ms)} occurrences; first: {m['file']} case {m['case']} op {m['op']}]"
                          + (("\n" + m["trace"]) if m.get("trace") else ""), ctx,
                          {"kind": "case", "mode": m["mode"], "hist": m["hist"], "seed": seed, "case": m["case"], "large": large,
                           "file": m["file"], "jobno": m["jobno"], "formula": formula, "field": field, "where": m["where"],
                           "examples": examples})
        wall = time.time() - t0
        coverage = {
            "evaluations": agg["evaluations"], "distinct_nontrivial": len(agg["nontrivial"]),
            "rule": "a case is an operation sequence enumerated by TLC from spec/RoundTrip.tla (stage mode: store(workflow), then a "
                    "store_stage round for each of the 256 subsets of {status, context, outputs, start_time, end_time, tasks_mod, "
                    "tasks_add, other}, each followed by retrieve_stage and retrieve; queue mode: each of the 23 message types pushed "
                    "directly, transactionally, or as a direct/transactional pair in both orders, then polled) x 13 rotations that "
                    "assign a value class to every field (empty / ascii / unicode / large / nested / None / 0 / epoch / 2^63-1 / every "
                    "enum member); an evaluation is one case replayed on the real store/queue with one hypothesis draw of concrete "
                    "values; it counts as non-trivial if at least one written value is not None/empty/0/False/default, and distinct "
                    "by the hash of its drawn values",
            "samples": agg["samples"], "cases_enumerated": total_cases, "cases_replayed": agg["cases"],
            "values_written_and_compared": agg["values"], "hypothesis_examples_per_case": examples, "large_value_chars": large,
            "ulid_task_pairs_created_within_one_millisecond": agg["same_ms"],
            "store_stage_save_paths": paths, "stage_insert_paths": hows,
            "reads": "every retrieve / retrieve_stage through the writer's connection AND through an independent connection (other thread)",
            "redelivery": "every other rotation: first delivery unacknowledged, consumer mutates its copy, lock lapses, delivered again", "field_class_pairs_covered": len(agg["covered"] & want_cov), "field_class_pairs_in_spec": len(want_cov),
            "operations_replayed": agg["ops"],
            "tlc_states": states, "mismatch_groups": len(groups), "mismatches": len(agg["mism"]),
            "fields_covered": {"workflow": len(tables["wf"]), "stage": len(tables["st"]) + 2, "task": len(tables["tk"]) + 2,
                               "message_types": len(tables["msg"]),
                               "message_fields": sum(len(v) for v in tables["msg"].values())},
            "tlc_wall_s": round(t_tlc, 1), "exhaustive": False,
        }
        evidence.write_evidence(pid, tier, seed, "exploration", coverage, wall, violations=len(rep.violations),
                                assumptions=["values are JSON-representable: str keys, no NaN/Infinity, valid Unicode (no lone surrogates)",
                                             "message metadata owned by the queue (message_id, created_at, attempts, max_attempts) is not "
                                             "part of 'field values'",
                                             "python-ulid 4.x StrictMonotonicPolicy: ids generated in one process are increasing even "
                                             "within one millisecond (the dependency range python-ulid>=2.0 also admits versions without it)"])
        print(f"C19 {tier}: {total_cases} cases enumerated by TLC ({states} states), {agg['cases']} replayed x {examples} draws = "
              f"{agg['evaluations']} evaluations ({len(agg['nontrivial'])} distinct non-trivial), {agg['values']} values compared, "
              f"{len(agg['mism'])} mismatches in {len(groups)} groups, wall {wall:.1f}s (TLC {t_tlc:.1f}s)")
        return rep.finish()
    finally:
        shutil.rmtree(outdir, ignore_errors=True)


def replay(pid: str, path: str) -> int:
    doc = json.load(open(path))
    if doc.get("kind") == "model":
        print("model-level violation recorded for", doc.get("tag"), doc.get("formula"), "- re-run ./check", pid)
        return 2
    outdir = core.scratch_dir("c19replay")
    try:
        r = enumerate_cases("tables", "queue", [0], 1, 1, ALL_MSG_TYPES, outdir)
        k = int(doc.get("case", 0))      # same file name, line number, job number and seed -> the same drawn values
        p = os.path.join(outdir, doc.get("file", "one.jsonl"))
        with open(p, "w") as fh:
            fh.write("\n" * k + json.dumps(doc["hist"]) + "\n")
        _init(doc.get("large", 50_000), r["tables"], outdir)
        res = _job((p, doc["mode"], [k], doc.get("examples", 2), doc.get("seed", 1), doc.get("jobno", 0)))
        hit = [m for m in res["mism"] if m["formula"] == doc["formula"] and m["field"] == doc["field"]]
        for m in hit[:3]:
            print("replayed:", m["formula"], m["where"], m["field"], "expected", m["expected"], "observed", m["observed"])
        if hit:
            print(f"VIOLATION property={pid} replay={path}")
            return 1
        print("replayed: the store/queue agrees with the register model on this case")
        return 0 if not res["errors"] else 2
    finally:
        shutil.rmtree(outdir, ignore_errors=True)


if __name__ == "__main__":
    sys.exit(run("C19", os.environ.get("VERIF_TIER", "quick"), int(os.environ.get("VERIF_SEED", "1"))))
