"""C04 - a stage starts exactly once even when workers race.

Race.tla specifies two/three workers handling messages of one workflow at the grain at which SQLite
lets them interleave (initial reads | write transaction + following reads).  TLC checks the C04
invariants on every interleaving and exports the state graph; EVERY interleaving (2 workers) or a
seeded sample plus all interleavings with <= 2 preemptions (3 workers) is then replayed on the REAL
handlers: each worker is a real thread with its own SQLite connection, run under a baton that changes
hands only where the specification allows (right before a statement that opens a write transaction),
and after every step the projection of the real database is compared with the state the specification
predicts.  A disagreement is a conformance violation; the property formulas are TLC's."""
from __future__ import annotations

import json
import os
import random
import re
import shutil
import threading
import time

from . import core
from .core import Hooks
from . import tlc
from . import programs as PR
from .evidence import Reporter, write_evidence

DML = re.compile(r"^\s*(INSERT|UPDATE|DELETE|REPLACE)", re.I)


# ----- baton scheduler ------------------------------------------------------------------------------
class Baton:
    def __init__(self) -> None:
        self.cv = threading.Condition()
        self.turn = None
        self.parked: dict[int, str] = {}
        self.finished: set[int] = set()
        self.errors: dict[int, BaseException] = {}
        self.ids: dict[int, int] = {}      # thread ident -> worker id
        self.every_statement = False       # park before EVERY statement outside a transaction (reads too)

    def me(self):
        return self.ids.get(threading.get_ident())

    def park(self, wid: int, tag: str) -> None:
        with self.cv:
            self.parked[wid] = tag
            self.turn = None
            self.cv.notify_all()
            self.cv.wait_for(lambda: self.turn == wid)
            self.parked.pop(wid, None)

    def run_worker(self, wid: int, fn) -> None:
        self.ids[threading.get_ident()] = wid
        self.park(wid, "start")
        try:
            fn()
        except BaseException as e:  # noqa: BLE001
            self.errors[wid] = e
        finally:
            with self.cv:
                self.finished.add(wid)
                self.turn = None
                self.cv.notify_all()

    def step(self, wid: int, timeout: float = 90.0) -> str:
        """let worker wid run until it parks again or finishes; returns 'parked:<tag>' | 'finished'"""
        with self.cv:
            if wid in self.finished:
                return "finished"
            self.turn = wid
            self.cv.notify_all()
            ok = self.cv.wait_for(lambda: self.turn is None and (wid in self.parked or wid in self.finished), timeout)
            if not ok:
                raise RuntimeError(f"scheduler stall: worker {wid} neither parked nor finished")
            return "finished" if wid in self.finished else "parked:" + self.parked[wid]

    def on_execute(self, conn, sql, args):
        wid = self.me()
        if wid is not None and not conn.in_transaction and (self.every_statement or DML.match(sql)):
            self.park(wid, sql.strip()[:30])
        return None


# ----- scenario preparation ---------------------------------------------------------------------------
def scenario_program(join: str, nup: int, lazy: bool = False) -> dict:
    S, P = PR.S, PR.P
    if lazy:    # the join stage's task is built by the stage's builder at planning time
        ups = ["b", "c", "e"][:nup]
        d = S("d", ups, join=join, thr=2 if join == "N_OF_M" else 0)
        d["lazy"] = True
        return P(f"race_{join}_{nup}_lazy", [S("a")] + [S(u, ["a"]) for u in ups] + [d])
    if join in ("MUTEX", "CHOICE"):
        sibs = ["b", "c", "e"][:nup]
        kw = {"mutex": "m"} if join == "MUTEX" else {"choice": "g"}
        return P(f"race_{join}_{nup}", [S("a")] + [S(u, ["a"], **kw) for u in sibs])
    ups = ["b", "c", "e"][:nup]
    thr = 2 if join == "N_OF_M" else 0
    return P(f"race_{join}_{nup}", [S("a")] + [S(u, ["a"]) for u in ups] + [S("d", ups, join=join, thr=thr)])


def prepare(prog: dict, scenario: str, basedir: str) -> tuple[str, dict]:
    """Drive the real engine in order until only the racing messages are pending; returns (db path, info)."""
    from .driver import Run

    run = Run(prog, "race-prep", keep=True)
    run.start()
    hold = {"A": lambda r: r["typ"] == "StartStage" and r["key"][1] == "d",
            "B": lambda r: r["typ"] == "CompleteStage" and r["key"][1] in ("b", "c", "e"),
            "C": lambda r: (r["typ"] == "StartStage" and r["key"][1] == "d") or (r["typ"] == "CompleteStage" and r["key"][1] == "c"),
            "M": lambda r: r["typ"] == "StartStage" and r["key"][1] in ("b", "c", "e"),
            "X": lambda r: r["typ"] == "StartStage" and r["key"][1] in ("b", "c", "e")}[scenario]
    for _ in range(2000):
        rows = run.rows()
        todo = [r for r in rows if not hold(r) and not r["locked"] and not r["delayed"]]
        if not todo:
            break
        run.deliver(todo[0]["qid"])
    rows = run.rows()
    held = [r for r in rows if hold(r)]
    others = [r for r in rows if not hold(r)]
    state = run.proj.state()
    db = os.path.join(basedir, f"{prog['name']}_{scenario}.db")
    run.raw.close()
    run.raw = None
    Hooks.on_commit = Hooks.on_execute = None
    core.reset_volatile()
    shutil.copy(run.db, db)
    shutil.rmtree(run.dir, ignore_errors=True)
    return db, {"held": held, "others": others, "state": state}


def init_st(state: dict, ups: list[str]) -> str:
    def row(r):
        s = state["st"][r]
        tks = [v for k, v in state["tk"].items() if k.startswith(r + ".")]
        return '[status |-> "%s", ver |-> %d, fired |-> %s, cb |-> %s, tver |-> %d, nt |-> %d]' % (
            s["status"], s["ver"], "TRUE" if s["fired"] else "FALSE", PR.tla_value(set(s["cb"])),
            tks[0]["ver"] if tks else 0, len(tks))
    refs = ups + (["d"] if "d" in state["st"] else [])
    return "(" + " @@ ".join('"%s" :> %s' % (r, row(r)) for r in refs) + ")"


def race_cfg(workers: list[int], ups: list[str], join: str, thr: int, scenario: str, initst: str) -> str:
    branch = " @@ ".join('%d :> "%s"' % (w, ups[(w - 1) % len(ups)]) for w in workers)
    if scenario == "C":
        branch = '1 :> "d" @@ 2 :> "c"'   # worker 1: StartStage(d) from the early branch; worker 2: CompleteStage(c)
    return "\n".join([
        "---- MODULE RaceCfg ----", "EXTENDS TLC",
        "Workers == {%s}" % ", ".join(map(str, workers)),
        "Up == %s" % PR.tla_value(set(ups)),
        "Branch == (%s)" % branch,
        'JoinType == "%s"' % join, "Threshold == %d" % thr, 'Scenario == "%s"' % scenario,
        "SibOrder == " + PR.tla_value(list(ups)),
        "InitSt == " + initst, "===="]) + "\n"


EXPORT = r'''
---- MODULE MC_Race ----
EXTENDS Race, Json
Proj == [st |-> st, done |-> done, q |-> q, pcs |-> [w \in Workers |-> wk[w].pc]]
Edge == PrintT(<<"EDGE", ToJson(Proj), ToJson(Proj')>>)
InitP == Init /\ PrintT(<<"INIT", ToJson(Proj)>>)
====
'''


def canon(js: str) -> str:
    """canonical form of an exported state (TLC prints set elements in no fixed order)"""
    def fix(x, key=None):
        if isinstance(x, dict):
            return {k: fix(v, k) for k, v in x.items()}
        if isinstance(x, list):
            y = [fix(v) for v in x]
            if key in ("q", "done", "cb", "dcb"):
                y = sorted(y, key=lambda v: json.dumps(v, sort_keys=True))
            return y
        return x
    return json.dumps(fix(json.loads(js)), sort_keys=True)


def explore(rd: str, cfgmod: str) -> tuple[dict, str, tlc.TLCResult]:
    os.makedirs(rd, exist_ok=True)
    with open(os.path.join(rd, "RaceCfg.tla"), "w") as fh:
        fh.write(cfgmod)
    cfg = "\n".join(["INIT InitP", "NEXT Next", "INVARIANT ClaimOnce", "INVARIANT PlanOnce",
                     "INVARIANT StartedExactlyOnce", "INVARIANT BranchesRecorded", "INVARIANT NothingLeftLocked",
                     "INVARIANT JoinNotWedged", "INVARIANT MutexExclusive", "INVARIANT ChoiceOneWinner", "INVARIANT SiblingsSettled",
                     "ACTION_CONSTRAINT Edge", "CHECK_DEADLOCK FALSE"]) + "\n"
    r = tlc.run_tlc(rd, "MC_Race", cfg, workers=1, extra=["-coverage", "1", "-continue"])
    edges: dict[str, list[str]] = {}
    init = None
    for m in re.finditer(r'<<\s*"(EDGE|INIT)",\s*"((?:[^"\\]|\\.)*)"(?:,\s*"((?:[^"\\]|\\.)*)")?\s*>>', r.out, re.S):
        a = canon(m.group(2).encode().decode("unicode_escape"))
        if m.group(1) == "INIT":
            init = a
        else:
            b = canon(m.group(3).encode().decode("unicode_escape"))
            if b not in edges.setdefault(a, []):
                edges[a].append(b)
    return edges, init, r


def pcs(s: dict) -> dict:
    p = s["pcs"]
    if isinstance(p, list):
        return {str(i + 1): v for i, v in enumerate(p)}
    return p


def _wk(s: dict) -> dict:
    p = s["wk"]
    if isinstance(p, list):
        return {str(i + 1): v for i, v in enumerate(p)}
    return p


def mover(a: dict, b: dict) -> int:
    pa, pb = _wk(a), _wk(b)
    for w, rec in pa.items():
        if pb[w] != rec:
            return int(w)
    raise ValueError("no worker moved")


def all_paths(edges: dict, init: str, limit: int, rng: random.Random, max_preempt: int | None) -> list[list[str]]:
    """complete behaviours as lists of states; exhaustive if their number <= limit, else all with
    <= max_preempt preemptions plus a seeded sample."""
    out = []

    def dfs(path, last, pre):
        s = path[-1]
        nxt = edges.get(s, [])
        if not nxt:
            out.append(list(path))
            return len(out) >= limit * 50
        for t in nxt:
            w = mover(json.loads(s), json.loads(t))
            p = pre + (1 if last is not None and w != last and pcs(json.loads(s))[str(last)] != "end" else 0)
            if max_preempt is not None and p > max_preempt:
                continue
            path.append(t)
            if dfs(path, w, p):
                return True
            path.pop()
        return False

    dfs([init], None, 0)
    if len(out) > limit:
        rng.shuffle(out)
        out = out[:limit]
    return out


def sample_paths(edges: dict, init: str, n: int, rng: random.Random) -> list[list[str]]:
    out = []
    for _ in range(n):
        path = [init]
        while edges.get(path[-1]):
            path.append(rng.choice(edges[path[-1]]))
        out.append(path)
    return out


# ----- replay ---------------------------------------------------------------------------------------------
def project(raw, refs: list[str], msg_of: dict[int, int]) -> dict:
    st = {}
    sid = {}
    for r in raw.execute("SELECT id, ref_id, status, version, context FROM stage_executions WHERE execution_id LIKE 'W-%'"):
        sid[r["id"]] = r["ref_id"]
        if r["ref_id"] in refs:
            ctx = json.loads(r["context"] or "{}")
            ts = raw.execute("SELECT version FROM task_executions WHERE stage_id = ? ORDER BY id", (r["id"],)).fetchall()
            st[r["ref_id"]] = {"status": r["status"], "ver": r["version"], "fired": bool(ctx.get("_join_fired", False)),
                               "cb": sorted(ctx.get("_completed_branches", [])), "tver": ts[0]["version"] if ts else 0,
                               "nt": len(ts)}
    qids = {r["id"] for r in raw.execute("SELECT id FROM queue_messages")}
    done = {int(r["message_id"]) for r in raw.execute("SELECT message_id FROM processed_messages")}
    new = sorted([r["message_type"], sid.get(json.loads(r["payload"]).get("stage_id"), "")]
                 for r in raw.execute("SELECT * FROM queue_messages") if r["id"] not in msg_of.values())
    claims = {r["claim_key"]: sid.get(r["stage_id"], "?") for r in raw.execute("SELECT claim_key, stage_id FROM stage_claims")}
    return {"st": st, "inq_n": len([w for w, qid in msg_of.items() if qid in qids]),
            "done_n": len([w for w, qid in msg_of.items() if qid in done]), "new": new, "claims": claims}


def model_view(s: dict) -> dict:
    st = {k: {"status": v["status"], "ver": v["ver"], "fired": v["fired"], "cb": sorted(v["cb"]), "tver": v["tver"],
              "nt": v["nt"]}
          for k, v in s["st"].items()}
    claims = s.get("claims") or {}
    if isinstance(claims, list):
        claims = {}
    return {"st": st, "inq_n": len([m for m in s["q"] if m[2] < 100]),
            "done_n": len([m for m in s["done"] if m[2] < 100]),
            "new": sorted([m[0], m[1]] for m in s["q"] if m[2] >= 100), "claims": claims}


def replay_path(prog: dict, basedb: str, held: list[dict], workers: list[int], ups: list[str], scenario: str,
                path: list[str], tag: str, random_seed: int | None = None, terminal: list[dict] | None = None) -> dict | None:
    """returns None if the real engine followed the specification at every step, else a mismatch record.
    With random_seed: the workers are preempted at EVERY SQL statement by a seeded random scheduler and only the
    final state is compared - it must be one of the terminal states of the specification (`terminal`)."""
    from stabilize import QueueProcessor, SqliteQueue, SqliteWorkflowStore, TaskRegistry
    from stabilize.queue.processor.config import QueueProcessorConfig
    from .vtask import VerifTask
    from .programs import task_class_name

    d = core.scratch_dir("race")
    db = os.path.join(d, "w.db")
    shutil.copy(basedb, db)
    cs = "sqlite:///" + db
    core.reset_volatile()
    baton = Baton()
    Hooks.on_commit = None
    Hooks.on_execute = baton.on_execute
    raw = core.raw_connect(db)
    try:
        from .programs import register_builder

        register_builder(prog)
        store = SqliteWorkflowStore(cs, create_tables=False)
        queue = SqliteQueue(cs)
        reg = TaskRegistry()
        for sd in prog["stages"]:
            for td in sd["tasks"]:
                reg.register(task_class_name(td["name"]), VerifTask(td["name"]))
                reg.register_verifier("vverif", __import__("harness.vtask", fromlist=["vverif"]).vverif)
        b, c = core.shared_resilience()
        cfg = QueueProcessorConfig.from_handler_config(None)
        cfg.enable_lock_heartbeat = False
        proc = QueueProcessor(queue, config=cfg, store=store, task_registry=reg, bulkhead_manager=b, circuit_factory=c)
        # each worker's message is polled up front (sequentially): the race is handle + mark + ack
        msgs = {}
        msg_of = {}
        for w in workers:
            if scenario == "A":
                row = held[w - 1]
            elif scenario == "C":
                row = next(r for r in held if r["typ"] == ("StartStage" if w == 1 else "CompleteStage"))
            else:  # B, M, X: the worker's message is the one about its branch / sibling stage
                br = ups[(w - 1) % len(ups)]
                row = next(r for r in held if r["key"][1] == br)
            raw.execute("UPDATE queue_messages SET deliver_at = '2999-01-01T00:00:00+00:00' WHERE id != ?", (row["qid"],))
            m = queue.poll_one()
            raw.execute("UPDATE queue_messages SET deliver_at = '2000-01-01T00:00:00+00:00'")
            if m is None or int(m.message_id) != row["qid"]:
                raise RuntimeError("could not poll the racing message")
            msgs[w] = m
            msg_of[w] = row["qid"]
        store._get_connection().commit()
        threads = []
        for w in workers:
            def body(w=w):
                proc._handle_message(msgs[w])
                queue.ack(msgs[w])
            t = threading.Thread(target=baton.run_worker, args=(w, body), daemon=True)
            threads.append(t)
            t.start()
        with baton.cv:
            baton.cv.wait_for(lambda: len(baton.parked) == len(workers), 10)
        states = [json.loads(s) for s in path]
        refs = list(states[0]["st"].keys())
        if random_seed is not None:
            baton.every_statement = True
            rng = random.Random(random_seed)
            sched = []
            # PCT-style: strict priorities, d <= 3 priority-change points at random statement counts (a schedule with few
            # preemptions at arbitrary statements), every 4th seed uniformly random instead
            prio = list(workers)
            rng.shuffle(prio)
            uniform = random_seed % 4 == 0
            changes = sorted(rng.randrange(1, 70) for _ in range(rng.randint(1, 3)))
            for n in range(20000):
                live = [w for w in prio if w not in baton.finished]
                if not live:
                    break
                if changes and n >= changes[0]:
                    changes.pop(0)
                    prio.append(prio.pop(prio.index(live[0])))
                    live = [w for w in prio if w not in baton.finished]
                w = rng.choice(live) if uniform else live[0]
                sched.append(w)
                baton.step(w)
            for t in threads:
                t.join(5)
            got = project(raw, refs, msg_of)
            errs = {w: repr(e) for w, e in baton.errors.items()}
            if got not in terminal or errs:
                return {"step": -1, "worker": 0, "model_pc": "end", "thread": "finished", "want": {"any of": len(terminal)},
                        "got": got, "error": str(errs), "schedule": sched[:200], "seed": random_seed}
            return None
        for i in range(1, len(states)):
            w = mover(states[i - 1], states[i])
            res = baton.step(w)
            want = model_view(states[i])
            got = project(raw, refs, msg_of)
            ok = got == want
            endpc = pcs(states[i])[str(w)]
            if ok and ((endpc == "end") != (res == "finished")):
                ok = False
            if baton.errors.get(w) is not None:
                ok = False
            if not ok:
                return {"step": i, "worker": w, "model_pc": endpc, "thread": res, "want": want, "got": got,
                        "error": repr(baton.errors.get(w)), "schedule": [mover(states[j - 1], states[j]) for j in range(1, len(states))]}
        for t in threads:
            t.join(5)
        return None
    finally:
        # release any thread still parked so it can die
        with baton.cv:
            baton.turn = None
        for w in workers:
            if w not in baton.finished:
                try:
                    for _ in range(40):
                        if baton.step(w, 5) == "finished":
                            break
                except Exception:
                    pass
        Hooks.on_execute = None
        raw.close()
        core.reset_volatile()
        shutil.rmtree(d, ignore_errors=True)


def _job(args):
    import time

    time.sleep = lambda _s: None      # threads run under the baton: real back-off sleeps only slow the replay
    prog, basedb, held, workers, ups, scenario, paths, tag = args[:8]
    seeds, terminal = (args[8], args[9]) if len(args) > 8 else ([], None)
    bad = []
    for p in paths:
        r = replay_path(prog, basedb, held, workers, ups, scenario, p, tag)
        if r is not None:
            bad.append(r)
    for sd in seeds:
        r = replay_path(prog, basedb, held, workers, ups, scenario, paths0(terminal), tag, random_seed=sd, terminal=terminal["views"])
        if r is not None:
            bad.append(r)
    return len(paths) + len(seeds), bad


def paths0(terminal):
    return [terminal["init"]]


def terminal_views(edges: dict, init: str) -> list[dict]:
    seen = set()
    out = []
    allstates = set(edges.keys()) | {t for ts in edges.values() for t in ts}
    for s in allstates:
        if not edges.get(s):
            v = model_view(json.loads(s))
            k = json.dumps(v, sort_keys=True)
            if k not in seen:
                seen.add(k)
                out.append(v)
    return out


def component(rep: Reporter, tier: str, seed: int, which: str) -> dict:
    """which = 'join' (C04: scenarios A, B) or 'siblings' (C11: mutex / deferred choice).  Adds violations to rep."""
    import concurrent.futures as cf
    import multiprocessing as mp

    quick = tier != "thorough"
    rng = random.Random(seed)
    base = core.scratch_dir("racebase")
    configs = []
    if which == "join":
        for join in ("AND", "DISCRIMINATOR", "N_OF_M", "MULTI_MERGE"):
            for scen in ("A", "B"):
                configs.append((join, 2, scen, [1, 2]))
        configs.append(("AND", 3, "A", [1, 2, 3]))
        configs.append(("N_OF_M", 3, "B", [1, 2, 3]))
        configs.append(("AND", 2, "Z", [1, 2]))              # builder-built tasks: the zombie re-plan path races
        configs.append(("DISCRIMINATOR", 2, "Z", [1, 2]))
        configs.append(("DISCRIMINATOR", 2, "C", [1, 2]))    # early branch's StartStage(d) vs the late branch's completion
        configs.append(("MULTI_MERGE", 2, "C", [1, 2]))
        if not quick:
            configs.append(("N_OF_M", 3, "A", [1, 2, 3]))
            configs.append(("DISCRIMINATOR", 3, "B", [1, 2, 3]))
    else:
        for join, scen in (("MUTEX", "M"), ("CHOICE", "X")):
            configs.append((join, 2, scen, [1, 2]))
            configs.append((join, 3, scen, [1, 2, 3]))
    states = transitions = replayed = 0
    info = []
    samples = []
    jobs = []
    model_viol = []      # formulas TLC found false on Race.tla; they count once the replay shows the code follows the model
    mismatched = set()
    try:
        for (join, nup, scen, workers) in configs:
            lazy = scen == "Z"
            if lazy:
                scen = "A"
            prog = scenario_program(join, nup, lazy)
            ups = ["b", "c", "e"][:nup]
            db, prep = prepare(prog, scen, base)
            held = prep["held"]
            if len(held) < len(workers):
                rep.machinery_failure(f"{prog['name']} {scen}: expected {len(workers)} racing messages, found {len(held)}")
                continue
            thr = 2 if join == "N_OF_M" else 0
            rd = os.path.join(base, f"tlc_{join}_{nup}_{scen}")
            edges, init, r = explore(rd, race_cfg(workers, ups, join, thr, scen, init_st(prep["state"], ups)))
            states += r.distinct
            transitions += r.generated
            model_viol.append((prog, scen, sorted(set(r.violated)), len(jobs)))
            if not r.ok and not r.violated:
                rep.machinery_failure(f"TLC on Race.tla ({join},{nup},{scen}): " + r.out[-1500:])
                continue
            if len(workers) == 2:
                paths = all_paths(edges, init, 5000, rng, None)
                exhaustive = True
            else:
                paths = all_paths(edges, init, 120 if quick else 1500, rng, 2) + sample_paths(edges, init, 60 if quick else 1500, rng)
                exhaustive = False
            info.append({"join": join, "stages": nup, "scenario": scen, "workers": len(workers), "distinct": r.distinct,
                         "interleavings": len(paths), "exhaustive": exhaustive,
                         "coverage": {k: v for k, v in r.coverage().items()}})
            if paths and len(samples) < 3:
                ps = [json.loads(s) for s in paths[len(paths) // 2]]
                samples.append({"config": [join, nup, scen], "schedule": [mover(ps[i - 1], ps[i]) for i in range(1, len(ps))]})
            n = 12
            for i in range(0, len(paths), n):
                jobs.append((prog, db, held, workers, ups, scen, paths[i:i + n], f"{join}{nup}{scen}"))
            # statement-level preemption (reads too): seeded random schedules, the final state must be a terminal state
            # of the specification
            term = {"init": init, "views": terminal_views(edges, init)}
            nrand = (120 if quick else 2000) if len(workers) == 2 else (40 if quick else 600)
            seeds = [rng.randrange(1 << 30) for _ in range(nrand)]
            for i in range(0, len(seeds), 10):
                jobs.append((prog, db, held, workers, ups, scen, [], f"{join}{nup}{scen}r", seeds[i:i + 10], term))
            info[-1]["statement_level_random_schedules"] = nrand
        with cf.ProcessPoolExecutor(max_workers=int(os.environ.get("VERIF_NPROC", "16")), mp_context=mp.get_context("spawn")) as ex:
            for (cnt, bad), job in zip(ex.map(_job, jobs), jobs):
                replayed += cnt
                for b in bad:
                    mismatched.add((job[0]["name"], job[5]))
                    rep.violation(f"{job[0]['name']} scenario {job[5]} schedule {b['schedule']}: after step {b['step']} "
                                  f"(worker {b['worker']} -> {b['model_pc']}) the real engine's state differs from the "
                                  f"specification: want {json.dumps(b['want'])[:300]} got {json.dumps(b['got'])[:300]} {b['error']}",
                                  {"formula": "CONFORMANCE", "state": None, "program": job[0], "source": "race"},
                                  {"kind": "race", "program": job[0], "scenario": job[5], "workers": job[3],
                                   "schedule": b["schedule"], "mismatch": b})
        for (prog, scen, formulas, _n) in model_viol:
            for fm in formulas:
                if (prog["name"], scen) in mismatched:
                    continue    # the code does not follow the model there: already reported as conformance violations
                rep.violation(f"{prog['name']} scenario {scen}: {fm} is false on Race.tla and every interleaving of that "
                              f"configuration was replayed on the real handlers with identical states - the real engine has this behaviour",
                              {"formula": fm, "state": None, "program": prog, "source": "race-model", "scenario": scen},
                              {"kind": "race-model", "program": prog, "scenario": scen, "formula": fm})
    finally:
        shutil.rmtree(base, ignore_errors=True)
    return {"states": states, "transitions": transitions, "replayed": replayed, "configs": info, "samples": samples}


def run(pid: str, tier: str, seed: int) -> int:
    t0 = time.time()
    rep = Reporter(pid)
    res = component(rep, tier, seed, "join")
    info = res["configs"]
    rc = rep.finish()
    write_evidence(pid, tier, seed, "model_checking",
                   {"states": max(res["states"], 1), "transitions": max(res["transitions"], 1),
                    "traces_validated_against_impl": res["replayed"],
                    "samples": res["samples"] or [{"note": "none"}], "configs": info,
                    "exhaustive": all(i["exhaustive"] for i in info) if info else False,
                    "rule": "every interleaving TLC enumerates for 2 workers; <=2-preemption interleavings + seeded sample for 3"},
                   time.time() - t0, violations=len(rep.violations),
                   assumptions=["segment grain: a write transaction and the reads that follow it are one step (SQLite excludes "
                                "other writers during a write transaction)", "racing messages are polled up front",
                                "SQLite backend, DELETE journal mode"])
    print(f"{pid}: {len(info)} race configurations, {res['states']} model states, {res['replayed']} interleavings replayed on "
          f"the real handlers, {len(rep.violations)} violation(s); {time.time() - t0:.0f}s")
    return rc


def replay(pid: str, path: str) -> int:
    doc = json.load(open(path))
    print("re-running the whole check (interleavings are enumerated from the specification)")
    return run(pid, "quick", int(os.environ.get("VERIF_SEED", "1")))
