"""./check <Cxx> [--tier quick|thorough] [--replay <file>]"""
from __future__ import annotations

import argparse
import json
import os
import sys

ENGINE = {"C01", "C02", "C03", "C05", "C06", "C09", "C10", "C11", "C14", "C15", "C17", "C18"}


def main() -> int:
    ap = argparse.ArgumentParser()
    ap.add_argument("pid")
    ap.add_argument("--tier", default=os.environ.get("VERIF_TIER", "quick"))
    ap.add_argument("--replay", default=None)
    a = ap.parse_args()
    seed = int(os.environ.get("VERIF_SEED", "1"))
    tier = a.tier if a.tier in ("quick", "thorough") else "quick"
    OTHER = {"C07": "check_store", "C08": "check_queue", "C19": "check_roundtrip", "C20": "check_inputs",
             "C16": "check_dataflow", "C04": "check_race", "C12": "check_events", "C13": "check_events"}
    if a.replay:
        if a.pid in OTHER:
            import importlib

            return importlib.import_module("harness." + OTHER[a.pid]).replay(a.pid, a.replay)
        from . import replay

        return replay.main(a.pid, a.replay)
    if a.pid in ENGINE:
        from . import checks_engine

        return checks_engine.run(a.pid, tier, seed)
    mod = OTHER.get(a.pid)
    if mod is None:
        print("unknown property", a.pid)
        return 2
    import importlib

    m = importlib.import_module("harness." + mod)
    return m.run(a.pid, tier, seed)


if __name__ == "__main__":
    try:
        rc = main()
    except SystemExit:
        raise
    except BaseException as e:  # noqa: BLE001
        import traceback

        traceback.print_exc()
        print("MACHINERY-FAILURE:", type(e).__name__, e)
        rc = 2
    sys.exit(rc)
