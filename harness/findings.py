"""Signature predicates for known_findings.json.  A predicate receives the finding's signature and a
context {formula, state, program, source ('trace'|'model'), trace?, at?} and says whether THIS failure
is that finding.  They only recognise already-triaged defects; they never judge a property."""
from __future__ import annotations

import json


def _st(ctx):
    return ctx.get("state") or {}


def stale_redirect(sig, ctx) -> bool:
    """Wedge by a stale CompleteTask(REDIRECT): a task sits in REDIRECT while its stage is RUNNING
    (its own RunTask was ignored) in a program whose task jumps back."""
    if ctx["formula"] not in sig["formulas"]:
        return False
    s = _st(ctx)
    st, tk = s.get("st") or {}, s.get("tk") or {}
    prog = ctx["program"]
    for sd in prog["stages"]:
        for td in sd["tasks"]:
            if td["k"] in ("jump", "jump2") and tk.get(td["name"], {}).get("status") == "REDIRECT" \
                    and st.get(sd["ref"], {}).get("status") == "RUNNING":
                return True
    return False


def claim_window_finished_workflow(sig, ctx) -> bool:
    """Crash between the claim commit and the plan commit of a stage that was started although the
    workflow had already reached a final status: the stage stays RUNNING with untouched tasks."""
    if ctx["formula"] not in sig["formulas"]:
        return False
    s = _st(ctx)
    if s.get("wf", {}).get("status") not in ("TERMINAL", "CANCELED", "SUCCEEDED"):
        return False
    prog = ctx["program"]
    running = [k for k, v in (s.get("st") or {}).items() if v.get("status") == "RUNNING"]
    if not running:
        return False
    for r in running:
        sd = next(x for x in prog["stages"] if x["ref"] == r)
        if any((s["tk"].get(t["name"]) or {}).get("status") != "NOT_STARTED" for t in sd["tasks"]):
            return False
    if ctx.get("source") == "model":
        return (s.get("cnt") or {}).get("crashes", 0) >= 1
    tr = ctx.get("trace")
    return bool(tr) and any(e["e"] == "crash" for e in tr["events"])


def claim_window_before_stage(sig, ctx) -> bool:
    """Crash while a stage is RUNNING with predefined, untouched tasks and its BEFORE children are not finished yet
    (from its claim commit until the last before-child completes): recovery sees RUNNING + start_time + NOT_STARTED
    tasks and pushes StartTask - the before-stage is skipped or runs concurrently with the parent's task; the run
    ends wedged or with another outcome."""
    if ctx["formula"] not in sig["formulas"]:
        return False
    prog = ctx["program"]
    parents = {s["parent"] for s in prog["stages"] if s["parent"] and s["owner"] == "BEFORE"}
    if not parents:
        return False
    tr = ctx.get("trace")
    if not tr:
        return (( _st(ctx).get("cnt") or {}).get("crashes", 0) >= 1)
    for e in tr["events"]:
        if e["e"] != "crash":
            continue
        s = e["s"]
        for p in parents:
            row = s["st"].get(p)
            if not row or row["status"] != "RUNNING" or not row["started"]:
                continue
            sd = next(x for x in prog["stages"] if x["ref"] == p)
            tasks_untouched = all(s["tk"].get(t["name"], {}).get("status") == "NOT_STARTED" for t in sd["tasks"])
            kids = [k["ref"] for k in prog["stages"] if k["parent"] == p and k["owner"] == "BEFORE"]
            kids_pending = any(k not in s["st"] or s["st"][k]["status"] in ("NOT_STARTED", "RUNNING") for k in kids)
            if tasks_untouched and kids_pending:
                return True
    return False


def claim_plan_window_data(sig, ctx) -> bool:
    """Crash between a stage's claim commit and its plan commit (stage has predefined tasks): recovery pushes StartTask,
    the planning step never runs, so the stage's tasks do not see the outputs of their ancestors."""
    if ctx["formula"] not in sig["formulas"]:
        return False
    tr = ctx.get("trace")
    if not tr:
        return False
    at = ctx.get("at", 0)
    prog = ctx["program"]
    if ctx["formula"] in ("C01_StrictOutcome", "C01_SameOutcome", "C10_SweepHarmless", "C01_ExecBound"):
        # the outcome form of the same window: the crash fell between the claim and the plan of a stage whose builder
        # adds before-children - they are never created, the stage ends differently from the uninterrupted run
        for e in tr["events"]:
            if e["e"] != "crash":
                continue
            s = e["s"]
            for sd in prog["stages"]:
                row = s["st"].get(sd["ref"])
                kids = [k["ref"] for k in prog["stages"] if k["parent"] == sd["ref"]]
                if row and row["status"] == "RUNNING" and row["started"] and kids and not all(k in s["st"] for k in kids) and \
                        all(s["tk"].get(t["name"], {}).get("status") == "NOT_STARTED" for t in sd["tasks"]):
                    return True       # (killed before the last of the builder's children was inserted)
        return False
    ev = tr["events"][at - 1] if 0 < at <= len(tr["events"]) else None
    if not ev or ev.get("e") != "exec":
        return False
    stage = next((s["ref"] for s in prog["stages"] for t in s["tasks"] if t["name"] == ev["task"]), None)
    sd = next(s for s in prog["stages"] if s["ref"] == stage)
    for e in tr["events"][:at]:
        if e["e"] != "crash":
            continue
        s = e["s"]
        row = s["st"].get(stage)
        if row and row["status"] == "RUNNING" and row["started"] and \
                all(s["tk"].get(t["name"], {}).get("status") == "NOT_STARTED" for t in sd["tasks"]) and \
                not any(m["typ"] == "StartTask" and m["s"] == stage for m in s["q"]):
            return True
    return False


def unbounded_transient(sig, ctx) -> bool:
    """The transient-retry budget is never reached: only for a task scripted to raise TransientError
    at least as often as the documented limit allows (n >= 9), and only for the bound / the outcome."""
    if ctx["formula"] not in sig["formulas"]:
        return False
    prog = ctx["program"]
    over = [t["name"] for s in prog["stages"] for t in s["tasks"]
            if t["k"] in ("transient", "transientNoCtx") and t["n"] >= 9]
    if not over:
        return False
    if ctx["formula"] == "ORACLE":
        return True
    s = ctx.get("state") or {}
    led = s.get("ledger")
    return True if led is None else any(len(led.get(t, [])) > 10 for t in over)


def recovery_blocked_by_stale_message(sig, ctx) -> bool:
    """A recovery sweep finds a RUNNING, started stage with untouched tasks (claim committed, plan lost in a crash) but
    pushes NO StartTask because `has_pending_message_for_task` sees a message for the first task - a leftover of an
    EARLIER crash: already processed (it will be de-duplicated) but never acked, its lock not yet lapsed.  The
    redelivered StartStage is ignored (stage RUNNING and has tasks), nothing starts the task: wedged RUNNING."""
    if ctx["formula"] not in sig["formulas"]:
        return False
    tr = ctx.get("trace")
    if not tr:
        return False
    prog = ctx["program"]
    crashes = 0
    for e in tr["events"]:
        if e["e"] == "crash":
            crashes += 1
        if e["e"] != "sweep" or crashes < 2:
            continue
        s = e["s"]
        done = {json.dumps(d) for d in s["done"]}
        for sd in prog["stages"]:
            row = s["st"].get(sd["ref"])
            if not row or row["status"] != "RUNNING" or not row["started"] or not sd["tasks"]:
                continue
            if not all(s["tk"].get(t["name"], {}).get("status") == "NOT_STARTED" for t in sd["tasks"]):
                continue
            first = sd["tasks"][0]["name"]
            pend = [m for m in s["q"] if m["t"] == first]
            if pend and all(json.dumps(m["id"]) in done for m in pend):
                return True
    return False


def concurrent_sweep_stale_requeue(sig, ctx) -> bool:
    """A recovery sweep that runs CONCURRENTLY with the handlers decides from the rows it read at its start; handlers
    complete the task's iteration in between, a jump re-arms the stage and the task is RUNNING again when the sweep
    pushes its (stale) RunTask: the task body runs an extra time in the new iteration."""
    if ctx["formula"] not in sig["formulas"]:
        return False
    prog = ctx["program"]
    if not any(t["k"] in ("jump", "jump2", "jumpafter") for s in prog["stages"] for t in s["tasks"]):
        return False
    tr = ctx.get("trace")
    if not tr:
        return False
    inside, handled = False, 0
    for e in tr["events"]:
        if e["e"] == "sweepsnap":
            inside, handled = True, 0
        elif e["e"] == "sweeppush":
            if inside and handled >= 1:
                new = [m for m in e["s"]["q"] if m["typ"] == "RunTask"]
                if new:
                    return True
            inside = False
        elif inside and e["e"] == "hret":
            handled += 1
    return False


def add_instance_not_atomic(sig, ctx) -> bool:
    """AddMultiInstance was killed between its commits: the stage counted an instance whose row or whose StartStage does
    not exist (the message is already marked processed by the first commit and is never handled again)."""
    if ctx["formula"] not in sig["formulas"]:
        return False
    prog = ctx["program"]
    if not any(s.get("midyn") for s in prog["stages"]):
        return False
    tr = ctx.get("trace")
    s = _st(ctx)
    st = s.get("st") or {}
    crashed = (not tr) or any(e["e"] == "crash" for e in tr["events"])
    for sd in prog["stages"]:
        if sd.get("midyn") and st.get(sd["ref"], {}).get("mi", 0) >= 1 and crashed:
            return True
    return False


def region_strands_workflow(sig, ctx) -> bool:
    """A CancelRegion was handled, every stage of the region that was not complete is CANCELED, nothing is queued, no
    stage is RUNNING / SUSPENDED / PAUSED and the workflow is still RUNNING (nobody queued CompleteWorkflow)."""
    if ctx["formula"] not in sig["formulas"]:
        return False
    prog = ctx["program"]
    region = {s["ref"] for s in prog["stages"] if s.get("region")}
    if not region:
        return False
    s = _st(ctx)
    st = s.get("st") or {}
    if (s.get("wf") or {}).get("status") != "RUNNING" or s.get("q"):
        return False
    if any(v.get("status") in ("RUNNING", "SUSPENDED", "PAUSED") for v in st.values()):
        return False
    return any(st.get(r, {}).get("status") == "CANCELED" for r in region)


def sweep_restarts_skipped_branch(sig, ctx) -> bool:
    """OR-split: a recovery sweep ran while the SkipStage of a branch that was NOT activated was still pending (in flight
    when the worker was killed, its lock not yet lapsed): recovery sees a NOT_STARTED stage whose upstreams are done and
    queues StartStage for it - it has no guard for NOT_STARTED stages and knows nothing of split conditions; the branch
    then runs."""
    if ctx["formula"] not in sig["formulas"]:
        return False
    tr = ctx.get("trace")
    prog = ctx["program"]
    if not tr or not any(sd.get("split") for sd in prog["stages"]):
        return False
    for e in tr["events"]:
        if e["e"] != "sweep":
            continue
        s = e["s"]
        skips = {m["s"] for m in s["q"] if m["typ"] == "SkipStage"}
        starts = {m["s"] for m in s["q"] if m["typ"] == "StartStage"}
        if any((s["st"].get(x) or {}).get("status") == "NOT_STARTED" for x in skips & starts):
            return True
    return False


def after_children_partly_planned(sig, ctx) -> bool:
    """CompleteStage plans the after-stages its builder wants one add_stage (= one commit) at a time; a kill after the
    first and before the last leaves some of them: the redelivered CompleteStage finds after-stages present and plans
    nothing more - the missing ones never run."""
    if ctx["formula"] not in sig["formulas"]:
        return False
    tr = ctx.get("trace")
    prog = ctx["program"]
    if not tr:
        return False
    for e in tr["events"]:
        if e["e"] != "crash":
            continue
        s = e["s"]
        for sd in prog["stages"]:
            kids = [k["ref"] for k in prog["stages"] if k["parent"] == sd["ref"] and k["owner"] == "AFTER"]
            have = [k for k in kids if k in s["st"]]
            if len(kids) >= 2 and have and len(have) < len(kids):
                return True
    return False


def cancel_flag_then_crash(sig, ctx) -> bool:
    """The worker was killed after CancelWorkflow committed the cancel flag and before its fan-out transaction; the run
    went on under the flag and reached CANCELED through the RunTask guard before the CancelWorkflow message was
    redelivered - which then finds the workflow complete and does nothing: stages that never started stay NOT_STARTED."""
    if ctx["formula"] not in sig["formulas"]:
        return False
    s = _st(ctx)
    wf = s.get("wf") or {}
    if wf.get("status") not in ("CANCELED", "TERMINAL", "SUCCEEDED", "STOPPED") or not wf.get("canceled") or s.get("q"):
        return False      # (the workflow may also have ended with a failure of its own under the flag)
    st = s.get("st") or {}
    if not any(v.get("status") == "NOT_STARTED" for v in st.values()):
        return False
    if any(v.get("status") in ("RUNNING", "SUSPENDED", "PAUSED") for v in st.values()):
        return False
    if ctx.get("source") == "model":
        return (s.get("cnt") or {}).get("crashes", 0) >= 1
    tr = ctx.get("trace")
    if not tr:
        return False
    for e in tr["events"]:      # killed with the flag set, the CancelWorkflow message still queued, nothing fanned out yet
        if e["e"] == "crash":
            c = e["s"]
            left = {k for k, v in st.items() if v.get("status") == "NOT_STARTED"}      # (a CancelStage of another stage may be
            if c["wf"].get("canceled") and any(m["typ"] == "CancelWorkflow" for m in c["q"]) \
                    and not any(m["typ"] == "CancelStage" and m["s"] in left for m in c["q"]):   # there: a failed stage cancels itself)
                return True
    return False


def late_branch_kill(sig, ctx) -> bool:
    """A fired first-of / quorum join stage marked TERMINAL by the wait-retry exhaustion of the
    StartStage its late branch sent."""
    if ctx["formula"] not in sig["formulas"]:
        return False
    s = _st(ctx)
    prog = ctx["program"]
    for sd in prog["stages"]:
        if sd["join"] in ("DISCRIMINATOR", "N_OF_M"):
            r = (s.get("st") or {}).get(sd["ref"]) or {}
            if r.get("fired") and r.get("status") == "TERMINAL":
                return True
    return False


def jump_after_cancel(sig, ctx) -> bool:
    """A JumpToStage handled after the cancel was accepted re-arms stages the cancel had already marked CANCELED:
    they end NOT_STARTED (re-armed, version > 0) in a CANCELED workflow."""
    if ctx["formula"] not in sig["formulas"]:
        return False
    prog = ctx["program"]
    if not any(t["k"] in ("jump", "jump2") for s in prog["stages"] for t in s["tasks"]):
        return False
    s = _st(ctx)
    bad = [k for k, v in (s.get("st") or {}).items() if v.get("status") not in ("CANCELED", "SUCCEEDED", "SKIPPED", "TERMINAL",
                                                                                 "FAILED_CONTINUE", "STOPPED")]
    return bool(bad) and all(s["st"][k]["status"] == "NOT_STARTED" and s["st"][k]["ver"] > 0 for k in bad) \
        and s.get("wf", {}).get("status") == "CANCELED"


def race_formula(sig, ctx) -> bool:
    return ctx.get("source") == "race-model" and ctx["formula"] in sig["formulas"] and ctx.get("scenario") in sig["scenarios"]


def always(sig, ctx) -> bool:
    return ctx["formula"] in sig.get("formulas", [ctx["formula"]])


PREDICATES = {
    "stale_redirect": stale_redirect,
    "claim_window_finished_workflow": claim_window_finished_workflow,
    "unbounded_transient": unbounded_transient,
    "claim_window_before_stage": claim_window_before_stage,
    "claim_plan_window_data": claim_plan_window_data,
    "late_branch_kill": late_branch_kill,
    "race_formula": race_formula,
    "jump_after_cancel": jump_after_cancel,
    "recovery_blocked_by_stale_message": recovery_blocked_by_stale_message,
    "concurrent_sweep_stale_requeue": concurrent_sweep_stale_requeue,
    "region_strands_workflow": region_strands_workflow,
    "add_instance_not_atomic": add_instance_not_atomic,
    "sweep_restarts_skipped_branch": sweep_restarts_skipped_branch,
    "after_children_partly_planned": after_children_partly_planned,
    "cancel_flag_then_crash": cancel_flag_then_crash,
    "always": always,
}
