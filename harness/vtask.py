"""The scripted task.  Its outcome is a function of DURABLE progress only (stage context), so a
re-execution after a crash is deterministic and the specification can predict it.  Every execution
is appended to a harness-side ledger that survives simulated crashes (image of the ghost `ledger`).
"""
from __future__ import annotations

import threading
from typing import Any

from stabilize import Task, TaskResult
from stabilize.errors import TransientError

LEDGER_LOCK = threading.Lock()


class Ledger:
    def __init__(self) -> None:
        self.entries: list[dict[str, Any]] = []
        self.on_exec = None  # callback(entry) installed by the driver

    def count(self, task: str) -> int:
        return sum(1 for e in self.entries if e["task"] == task)


LEDGER = Ledger()


def user_view(ctx: dict) -> dict:
    """User-visible (non bookkeeping) part of a context, for data-flow checks."""
    return {k: v for k, v in ctx.items() if not k.startswith("_") and k not in (
        "continuePipelineOnFailure", "failPipeline", "stageEnabled", "exception", "error")
        and not k.startswith("prog.")}


class VerifTask(Task):
    def __init__(self, tname: str) -> None:
        self.tname = tname

    def execute(self, stage) -> TaskResult:  # noqa: C901
        ctx = stage.context
        script = ctx.get("_script", {}).get(self.tname) or {"k": "ok", "n": 0, "target": "", "out": {}}
        k, n = script["k"], script["n"]
        prog = int(ctx.get("prog." + self.tname, 0))
        jumps = int(ctx.get("_jump_count", 0))
        sig = str(ctx.get("_signal_name") or "")
        entry = {"task": self.tname, "prog": prog, "jumps": jumps, "sig": sig,
                 "view": user_view(ctx)}
        with LEDGER_LOCK:
            prior = LEDGER.count(self.tname)
            LEDGER.entries.append(entry)
        if LEDGER.on_exec is not None:
            LEDGER.on_exec(entry)
        out = dict(script.get("out") or {})
        if k == "sleep":              # a task that takes n seconds of WALL-CLOCK time (used only before a pollR task)
            import time

            time.sleep(n)
            return TaskResult.success(outputs=out)
        if k == "pollR":              # poll, as a RetryableTask with a finite total timeout (class VerifRetryable)
            if prog < n:
                return TaskResult.running(context={"prog." + self.tname: prog + 1})
            return TaskResult.success(outputs=out)
        if k in ("ok", "verify"):     # verify: the stage's verifier (vverif below) answers RETRY for the first n executions
            return TaskResult.success(outputs=out)
        if k == "terminal":
            return TaskResult.terminal("scripted failure")
        if k == "poll":
            if prog < n:
                return TaskResult.running(context={"prog." + self.tname: prog + 1})
            return TaskResult.success(outputs=out)
        if k == "transient":
            if prog < n:
                raise TransientError("scripted transient", context_update={"prog." + self.tname: prog + 1})
            return TaskResult.success(outputs=out)
        if k == "transientNoCtx":
            if prior < n:
                raise TransientError("scripted transient (no ctx)")
            return TaskResult.success(outputs=out)
        if k in ("jump", "jump2"):     # jump2: a different target per iteration ("t,r")
            if jumps < n:
                targets = script["target"].split(",")
                return TaskResult.jump_to(targets[min(jumps, len(targets) - 1)])
            return TaskResult.success(outputs=out)
        if k == "jumpafter":   # behaves like an ordinary task on its first run, jumps from its second run on
            if prior >= 1 and jumps < n:
                return TaskResult.jump_to(script["target"])
            return TaskResult.success(outputs=out)
        if k == "suspend":     # counts each distinct signal name it is resumed with; needs n of them (1 by default)
            seen = list(ctx.get("seen." + self.tname, []))
            if sig and sig not in seen:
                seen.append(sig)
            upd = {"seen." + self.tname: seen}
            if len(seen) >= max(1, n):
                return TaskResult.success(outputs=out, context=upd)
            return TaskResult.suspend(context=upd)
        raise RuntimeError("unknown script " + k)


def vverif(stage):
    """Callable verifier registered as "vverif": RETRY while the stage's `verify` task has been executed at most n times
    (a function of the ledger, like transientNoCtx), then OK.  TransientVerificationError takes the same path as a
    TransientError without context update."""
    from stabilize.verification import VerifyResult

    for name, sc in (stage.context.get("_script") or {}).items():
        if sc.get("k") == "verify":
            with LEDGER_LOCK:
                done = LEDGER.count(name)
            if done <= sc.get("n", 0):
                return VerifyResult.retry("scripted: not ready yet")
    return VerifyResult.ok()


def make_task(td: dict):
    """the registered implementation of a program task: a RetryableTask for kind pollR, a plain Task otherwise"""
    if td.get("k") == "pollR":
        from datetime import timedelta

        from stabilize.tasks.interface import RetryableTask

        class VerifRetryable(VerifTask, RetryableTask):
            def get_timeout(self):
                return timedelta(seconds=20)      # total lifetime of THIS task: generous for two quick polls

            def get_backoff_period(self, stage, duration):
                return timedelta(seconds=900)     # (virtual time: the harness warps it)

        return VerifRetryable(td["name"])
    return VerifTask(td["name"])
