"""Code -> spec trace validation: batches of recorded executions of ONE program are checked by TLC
against Trace_Engine (which re-uses Engine's actions).  Verdicts are TLC's."""
from __future__ import annotations

import os
import re
import shutil

from . import tlc
from .programs import to_tla

TRACE_CONSTS = {"MaxCrashes": 99, "MaxWithhold": 999, "MaxSweeps": 999, "MaxCancels": 99, "MaxSignals": 99,
                "MaxEarly": 99, "MaxPauses": 99, "MaxRestarts": 99, "MaxRegions": 99, "MaxFaults": 99, "MaxAdds": 99, "EnvBetween": "TRUE", "AnyOrder": "TRUE", "SplitSweep": "TRUE"}


def parse_prefix(out: str) -> list[int] | None:
    m = re.search(r'<<\s*"PREFIX"\s*,\s*<<([^>]*)>>\s*>>', out)
    if not m:
        return None
    return [int(x) for x in re.findall(r"\d+", m.group(1))]


def parse_failed(out: str) -> list[tuple[int, int, str]] | None:
    i = out.find('"FAILED"')
    if i < 0:
        return None
    seg = out[i:]
    j = seg.find("Model checking completed")
    if j > 0:
        seg = seg[:j]
    return [(int(a), int(b), c) for a, b, c in re.findall(r'<<\s*(\d+),\s*(\d+),\s*"(\w+)"\s*>>', seg)]


class TraceVerdict:
    def __init__(self) -> None:
        self.accepted = 0
        self.rejected: list[dict] = []      # conformance: {trace, at, len, event, prev, meta}
        self.failed: list[dict] = []        # property formulas false: {trace, at, formula, meta}
        self.events = 0
        self.states = 0
        self.wall = 0.0
        self.machinery: str | None = None   # TLC itself failed
        self.tlc_out = ""
        self.ntraces = 0


def validate(prog: dict, traces: list[dict], check_props=(), consts: dict | None = None,
             root: str = "Trace_Engine", keep_dir: bool = False, extra_program: dict | None = None,
             timeout: int = 3000) -> TraceVerdict:
    v = TraceVerdict()
    v.ntraces = len(traces)
    if not traces:
        return v
    rd = tlc.new_rundir("tr-" + prog["name"])
    try:
        tf = os.path.join(rd, "traces.json")
        tlc.write_traces(tf, [{"events": t["events"]} for t in traces])
        c = dict(TRACE_CONSTS)
        c.update(consts or {})
        cfg = tlc.cfg_text(c, init="TraceInit", next_="TraceNext", constraints=["Progress"],
                           action_constraints=["CheckActions"], postcondition="Accepted")
        extra = dict(extra_program or {})
        extra["CheckProps"] = "{" + ", ".join('"%s"' % p for p in check_props) + "}"
        r = tlc.run_tlc(rd, root, cfg, workers=1, env={"TRACE_FILE": tf}, program_tla=to_tla(prog, extra),
                        timeout=timeout)
        v.wall = r.wall
        v.states = r.distinct
        v.tlc_out = r.out
        v.events = sum(len(t["events"]) for t in traces)
        pref = parse_prefix(r.out)
        failed = parse_failed(r.out)
        if pref is None or len(pref) != len(traces) or failed is None or r.errors:
            v.machinery = "TLC did not complete the batch:\n" + "\n".join(r.errors) + "\n" + r.out[-3000:]
            return v
        for i, (p, t) in enumerate(zip(pref, traces)):
            n = len(t["events"])
            if p == n + 1:
                v.accepted += 1
            else:
                ev = t["events"][p - 1] if p - 1 < n else None
                prev = t["events"][p - 2] if p >= 2 else None
                v.rejected.append({"trace": i, "at": p, "len": n, "event": ev, "prev": prev, "meta": t.get("meta")})
        for (ti, pos, name) in failed:
            t = traces[ti - 1]
            v.failed.append({"trace": ti - 1, "at": pos, "formula": name, "meta": t.get("meta")})
        return v
    finally:
        if not keep_dir:
            shutil.rmtree(rd, ignore_errors=True)


def state_at(trace: dict, pos: int) -> dict | None:
    """Projected state after consuming events[:pos-1] (pos as recorded for state formulas)."""
    for e in reversed(trace["events"][:max(0, pos - 1)]):
        if "s" in e:
            return e["s"]
    return None
