"""Code -> spec trace validation: batches of recorded executions of ONE program are checked by TLC
against Trace_Engine (which re-uses Engine's actions).  Verdicts are TLC's."""
from __future__ import annotations

import os
import re
import shutil

from . import tlc
from .programs import to_tla

TRACE_CONSTS = {"MaxCrashes": 99, "MaxWithhold": 999, "MaxSweeps": 999, "MaxCancels": 99, "MaxSignals": 99,
                "MaxEarly": 99, "EnvBetween": "TRUE", "AnyOrder": "TRUE"}


def parse_prefix(out: str) -> list[int] | None:
    m = re.search(r'<<\s*"PREFIX"\s*,\s*<<([^>]*)>>\s*>>', out)
    if not m:
        return None
    return [int(x) for x in re.findall(r"\d+", m.group(1))]


class TraceVerdict:
    def __init__(self) -> None:
        self.accepted = 0
        self.rejected: list[dict] = []      # {trace, at, event, prev}
        self.violated: list[str] = []       # invariant / property names TLC reported
        self.events = 0
        self.states = 0
        self.wall = 0.0
        self.machinery: str | None = None   # TLC itself failed
        self.tlc_out = ""


def validate(prog: dict, traces: list[dict], invariants=(), properties=(), consts: dict | None = None,
             root: str = "Trace_Engine", keep_dir: bool = False, extra_program: dict | None = None,
             timeout: int = 1800) -> TraceVerdict:
    v = TraceVerdict()
    if not traces:
        return v
    rd = tlc.new_rundir("tr-" + prog["name"])
    try:
        tf = os.path.join(rd, "traces.json")
        tlc.write_traces(tf, traces)
        c = dict(TRACE_CONSTS)
        c.update(consts or {})
        cfg = tlc.cfg_text(c, init="TraceInit", next_="TraceNext", invariants=invariants, properties=properties,
                           constraints=["Progress"], postcondition="Accepted")
        r = tlc.run_tlc(rd, root, cfg, workers=1, env={"TRACE_FILE": tf}, program_tla=to_tla(prog, extra_program),
                        timeout=timeout)
        v.wall = r.wall
        v.states = r.distinct
        v.tlc_out = r.out
        v.events = sum(len(t["events"]) for t in traces)
        v.violated = list(r.violated)
        pref = parse_prefix(r.out)
        if pref is None or len(pref) != len(traces):
            if not v.violated:
                v.machinery = "TLC produced no acceptance register:\n" + r.out[-3000:]
            return v
        for i, (p, t) in enumerate(zip(pref, traces)):
            n = len(t["events"])
            if p == n + 1:
                v.accepted += 1
            else:
                # p = index (1-based) of the first event that no specification action explains
                ev = t["events"][p - 1] if p - 1 < n else None
                prev = t["events"][p - 2] if p >= 2 else None
                v.rejected.append({"trace": i, "at": p, "len": n, "event": ev, "prev": prev, "meta": t.get("meta")})
        if r.errors and not v.rejected and not v.violated:
            v.machinery = "\n".join(r.errors) + "\n" + r.out[-2000:]
        return v
    finally:
        if not keep_dir:
            shutil.rmtree(rd, ignore_errors=True)
