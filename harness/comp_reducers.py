"""Component of C16 (last sentence): fan-in reducers.

Specification: spec/Reducers.tla (transcription of stabilize/reducers.py and of _plan_stage's use of
it), roots spec/MC_Reducers.tla (exhaustive enumeration) and spec/MC_ReducersCases.tla (evaluation of
hypothesis-concretised cases and of planner scenarios).  Everything that decides is TLC:

 1. MC_Reducers enumerates every (reducer name, branch list) case over a small value universe, checks
    the order laws (invariant `Laws`, action property `SwapLaw` on every adjacent transposition) and
    exports the predicted result of every case.
 2. Every exported case is replayed on the real `apply_output_reducers` and compared.
 3. hypothesis concretises further cases inside the spec's value encoding (arbitrary ints, unicode
    strings, nested lists, dicts, odd reducer names); TLC predicts them (MC_ReducersCases), same replay.
 4. Planner scenarios (a -> b1,b2,b3 -> j with output_reducers) are run on the REAL engine (store, queue,
    handlers) under every order of branch completion; TLC predicts the join stage's context for the
    order in which get_upstream_stages hands over the branches; the context the join task saw is compared.

`run_component(tier, seed)` returns the dict described in the coordinator's request.
"""
from __future__ import annotations

import itertools
import json
import os
import random
import re
import shutil
import time
from typing import Any

from . import core  # noqa: F401  (must precede any stabilize import)
from . import findings, tlc

FORMULA = "C16_Reducers"
UNKNOWN = "median"
ABSENT = {"t": "absent", "v": 0}
_ABS = ("absent",)   # sentinel inside hypothesis strategies


# ----------------------------------------------------------------------------------------------
# tagged encoding <-> Python objects
# ----------------------------------------------------------------------------------------------
def render(tv: dict) -> Any:
    t, v = tv["t"], tv["v"]
    if t == "int":
        return int(v)
    if t == "none":
        return None
    if t == "str":
        return "".join(chr(c) for c in v)
    if t == "list":
        return [render(x) for x in v]
    if t == "dict":
        return {k: render(x) for k, x in (v.items() if isinstance(v, dict) else [])}
    raise ValueError("not a value: %r" % (tv,))


def tag(o: Any) -> dict:
    if o is None:
        return {"t": "none", "v": 0}
    if isinstance(o, bool):
        return {"t": "bool", "v": int(o)}
    if isinstance(o, int):
        return {"t": "int", "v": o}
    if isinstance(o, str):
        return {"t": "str", "v": [ord(c) for c in o]}
    if isinstance(o, list):
        return {"t": "list", "v": [tag(x) for x in o]}
    if isinstance(o, dict):
        return {"t": "dict", "v": {str(k): tag(x) for k, x in o.items()}}
    return {"t": "other", "v": repr(o)}


def norm(tv: Any) -> Any:
    """Canonical form of a tagged value coming from TLC (empty function prints as [])."""
    if isinstance(tv, dict) and "t" in tv:
        t, v = tv["t"], tv["v"]
        if t == "dict":
            return {"t": "dict", "v": {k: norm(x) for k, x in (v.items() if isinstance(v, dict) else [])}}
        if t == "list":
            return {"t": "list", "v": [norm(x) for x in v]}
        if t == "str":
            return {"t": "str", "v": list(v)}
        return {"t": t, "v": v}
    return tv


def same(a: Any, b: Any) -> bool:
    return json.dumps(norm(a), sort_keys=True) == json.dumps(norm(b), sort_keys=True)


# ----------------------------------------------------------------------------------------------
# the implementation under test
# ----------------------------------------------------------------------------------------------
def real_apply(name: str, slots: list[dict]) -> dict:
    """One case on the real apply_output_reducers.  'absent' = the branch's outputs lack the key."""
    from stabilize.reducers import apply_output_reducers

    outs = [({} if s["t"] == "absent" else {"k": render(s)}) for s in slots]
    before = json.dumps(outs, sort_keys=True)
    try:
        res = apply_output_reducers({"k": name}, outs)
    except Exception as e:  # noqa: BLE001  the exception class is part of the predicted result
        return {"t": "err", "v": type(e).__name__}
    if json.dumps(outs, sort_keys=True) != before:
        return {"t": "mutated-input", "v": 0}
    if set(res) - {"k"}:
        return {"t": "foreign-keys", "v": sorted(res)}
    if "k" not in res:
        return {"t": "nokey", "v": 0}
    return tag(res["k"])


# ----------------------------------------------------------------------------------------------
# TLC runs
# ----------------------------------------------------------------------------------------------
_CASE = re.compile(r'<<"(CASE|PLAN)", ("(?:[^"\\]|\\.)*")>>')
_VIOL = re.compile(r'<<"VIOL", "(\w+)", ("(?:[^"\\]|\\.)*")>>')


def _workers() -> int:
    return max(2, min(16, os.cpu_count() or 4))


def _run(root: str, cfg: str, tag_: str, env: dict | None = None, files: dict | None = None, timeout: int = 1500,
         coverage: bool = True):
    rd = tlc.new_rundir(tag_)
    try:
        for fn, text in (files or {}).items():
            with open(os.path.join(rd, fn), "w") as fh:
                fh.write(text)
        e = {"JAVA_TOOL_OPTIONS": "-Djava.io.tmpdir=" + rd}
        for k, v in (env or {}).items():
            e[k] = v.replace("$RD", rd)
        res = tlc.run_tlc(rd, root, cfg, workers=_workers(), env=e, extra=(["-coverage", "1"] if coverage else []),
                          timeout=timeout)
    finally:
        shutil.rmtree(rd, ignore_errors=True)
    return res


def _exports(out: str) -> tuple[list[tuple[str, dict]], list[tuple[str, dict]]]:
    ex = [(k, json.loads(json.loads(s))) for k, s in _CASE.findall(out)]
    vi = [(k, json.loads(json.loads(s))) for k, s in _VIOL.findall(out)]
    return ex, vi


def _tlc_failed(res) -> str | None:
    if res.rc != 0 or res.errors or "Model checking completed" not in res.out:
        tail = "\n".join([ln for ln in res.out.splitlines() if "CASE" not in ln and "PLAN" not in ln][-25:])
        return "TLC rc=%s errors=%s\n%s" % (res.rc, res.errors[:3], tail)
    return None


def enumerate_cases(max_len: int, rich: bool) -> dict:
    cfg = ("CONSTANTS\n  MaxLen = %d\n  Rich = %s\nINIT Init\nNEXT Next\nINVARIANT TypeOK\nINVARIANT Laws\n"
           "INVARIANT Export\nPROPERTY SwapLaw\nCHECK_DEADLOCK FALSE\n" % (max_len, "TRUE" if rich else "FALSE"))
    res = _run("MC_Reducers", cfg, "red-enum", coverage=False)
    ex, vi = _exports(res.out)
    return {"res": res, "cases": [c for _, c in ex], "viol": vi, "fail": _tlc_failed(res)}


def evaluate(cases: list[dict], plans: list[dict]) -> dict:
    cfg = ("INIT Init\nNEXT Next\nINVARIANT CaseLaws\nINVARIANT PlanLaws\nINVARIANT Export\n"
           "PROPERTY CaseSwap\nPROPERTY PlanSwap\nCHECK_DEADLOCK FALSE\n")
    doc = json.dumps({"cases": cases, "plans": plans})
    res = _run("MC_ReducersCases", cfg, "red-eval", env={"CASES_JSON": "$RD/cases.json"},
               files={"cases.json": doc}, coverage=False)   # TLC's -coverage hangs on this root (TLC 1.8)
    ex, vi = _exports(res.out)
    return {"res": res, "cases": [c for k, c in ex if k == "CASE"], "plans": [c for k, c in ex if k == "PLAN"],
            "viol": vi, "fail": _tlc_failed(res)}


# ----------------------------------------------------------------------------------------------
# hypothesis: concretise further cases INSIDE the spec's value encoding (the spec predicts them)
# ----------------------------------------------------------------------------------------------
def hypothesis_cases(seed: int, n: int) -> list[dict]:
    from hypothesis import HealthCheck, Phase, given, settings
    from hypothesis import seed as hseed
    from hypothesis import strategies as st

    ints = st.integers(-10**6, 10**6)
    strs = st.text(max_size=3)
    scal = st.one_of(ints, st.none(), strs)
    lists = st.lists(st.one_of(scal, st.lists(ints, max_size=2)), max_size=3)
    dicts = st.dictionaries(st.sampled_from(["k", "j", "x", "y1"]), st.one_of(scal, st.lists(ints, max_size=2)),
                            max_size=3)
    anyv = st.one_of(scal, lists, dicts)

    def slots_of(vs):
        return st.lists(st.one_of(vs, st.just(_ABS)), min_size=0, max_size=4)

    # homogeneous lists keep max/min/sum away from the type-error corner most of the time
    slots = st.one_of(slots_of(st.one_of(ints, st.none())), slots_of(strs), slots_of(st.lists(ints, max_size=3)),
                      slots_of(dicts), slots_of(anyv))
    names = st.sampled_from(["collect", "append", "extend", "sum", "max", "min", "merge", "first", "last",
                             "median", "", "Sum", "MAX", "collect ", "reduce"])
    got: list[dict] = []

    @hseed(seed)
    @settings(max_examples=n, database=None, deadline=None, derandomize=False,
              phases=[Phase.generate], suppress_health_check=list(HealthCheck))
    @given(names, slots)
    def collect(name, sl):
        got.append({"n": name, "s": [ABSENT if x is _ABS else tag(x) for x in sl]})

    collect()
    seen, out = set(), []
    for c in got:
        key = json.dumps(c, sort_keys=True)
        if key not in seen:
            seen.add(key)
            out.append(c)
    return out


# ----------------------------------------------------------------------------------------------
# planner scenarios on the real engine
# ----------------------------------------------------------------------------------------------
BR = ["b1", "b2", "b3"]


def make_scenarios(enum_cases: list[dict], rnd: random.Random, n: int) -> list[dict]:
    """Scenario = reducer keys r0..rN (each an enumerated 3-branch case), plus ordinary keys."""
    three = [c for c in enum_cases if len(c["s"]) == 3]
    by = {}
    for c in three:
        by.setdefault((c["n"], c["r"]["t"]), []).append(c)
    classes = sorted(by)
    ok_classes = [k for k in classes if k[1] != "err"]
    err_classes = [k for k in classes if k[1] == "err"]
    universe = [s for c in three[:200] for s in c["s"] if s["t"] != "absent"]
    scen = []
    for i in range(n):
        err = (i % 6 == 5)
        keys = []
        nk = 1 if err else rnd.randint(3, 5)
        for j in range(nk):
            cl = rnd.choice(err_classes) if err else (ok_classes[(i * 5 + j) % len(ok_classes)])
            c = rnd.choice(by[cl])
            keys.append(("r%d" % j, c["n"], c["s"]))
        a: dict[str, Any] = {"n1": tag("a-n1"), "nl": tag([1, 2]), "p": tag("a-p")}
        own: dict[str, Any] = {"n1": tag("own-n1"), "nl": tag([2, 3]), "own_only": tag(7)}
        b = [dict() for _ in BR]
        for (k, _nm, sl) in keys:
            for x in range(3):
                if sl[x]["t"] != "absent":
                    b[x][k] = sl[x]
            if rnd.random() < 0.6:
                a[k] = rnd.choice(universe)       # the ancestor's value must NOT reach the reducer
            if rnd.random() < 0.5:
                own[k] = rnd.choice(universe)     # the stage's own value of a reducer key is skipped
        if not err:
            b[rnd.randrange(3)]["p"] = tag("b-p")     # path-ordered ordinary key: the branch beats `a`
            if rnd.random() < 0.5:                     # ordinary key written by two branches: order of the
                x, y = rnd.sample(range(3), 2)         # ancestor merge is unspecified (any `ao` allowed)
                b[x]["q"], b[y]["q"] = tag("q-%d" % x), tag("q-%d" % y)
        scen.append({"a": a, "b": b, "reds": [[k, nm] for (k, nm, _s) in keys], "own": own})
    return scen


def _view_tag(view: dict) -> dict:
    return {"t": "dict", "v": {k: tag(v) for k, v in view.items()}}


def run_scenario(idx: int, sc: dict, order: tuple[int, ...]) -> dict:
    """Real engine, branches completed one after the other in `order`.  Returns what the join saw."""
    from .driver import Run
    from .programs import P, S, T
    from .vtask import LEDGER, user_view

    outs = lambda d: {k: render(v) for k, v in d.items()}  # noqa: E731
    jctx = {k: render(v) for k, v in sc["own"].items()}
    jctx["_output_reducers"] = {k: nm for k, nm in sc["reds"]}
    prog = P("fanin%d" % idx, [
        S("a", tasks=[T("a.1", out=outs(sc["a"]))]),
        *[S(BR[i], ["a"], tasks=[T(BR[i] + ".1", out=outs(sc["b"][i]))]) for i in range(3)],
        S("j", BR, ctx=jctx),
    ])
    prio = {"": 0, "a": 1, "j": 9}
    for rank, bi in enumerate(order):
        prio[BR[bi]] = 2 + rank
    run = Run(prog, "fanin")
    res: dict[str, Any] = {"order": [BR[i] for i in order]}
    try:
        run.start()
        completed = []
        for _ in range(400):
            vis = run.visible()
            if not vis:
                rows = run.rows()
                if not rows:
                    break
                delayed = [r for r in rows if r["delayed"] and not r["locked"]]
                if not delayed:
                    break
                run.warp(min(delayed, key=lambda r: r["deliver_at"])["qid"])
                continue
            row = min(vis, key=lambda r: (prio.get(r["key"][1], 5), r["qid"]))
            run.deliver(row["qid"])
            for r in run.raw.execute("SELECT ref_id FROM stage_executions WHERE status = 'SUCCEEDED' AND execution_id LIKE 'W-%'"):
                if r["ref_id"] in BR and r["ref_id"] not in completed:
                    completed.append(r["ref_id"])
        res["completed"] = completed
        res["upstream_order"] = [u.ref_id for u in run.store.get_upstream_stages(run.wf_id, "j")]
        jl = [e for e in LEDGER.entries if e["task"] == "j.1"]
        res["join_execs"] = len(jl)
        res["seen"] = _view_tag(jl[0]["view"]) if jl else None
        row = run.raw.execute("SELECT context, status FROM stage_executions WHERE ref_id = 'j' AND execution_id LIKE 'W-%'").fetchone()
        dbctx = json.loads(row["context"])
        res["join_status"] = row["status"]
        res["db_ctx"] = _view_tag(user_view(dbctx))
        res["db_error"] = ((dbctx.get("exception") or {}).get("details") or {}).get("error")
        if not jl:
            # the planner itself, called directly on the stored stage, must raise what the spec predicts
            from stabilize.queue.messages import StartStage

            h = run.proc._handlers[StartStage]
            wf = run.store.retrieve(run.wf_id)
            st = next(s for s in wf.stages if s.ref_id == "j")
            try:
                type(h)._plan_stage(h, st)
                res["direct"] = {"t": "returned", "v": 0}
            except Exception as e:  # noqa: BLE001
                res["direct"] = {"t": "err", "v": type(e).__name__}
    finally:
        run.close()
    return res


# ----------------------------------------------------------------------------------------------
# known-finding predicates (none needed so far; the hook is here so that the coordinator can route)
# ----------------------------------------------------------------------------------------------
def _never(sig, ctx) -> bool:
    return False


findings.PREDICATES.setdefault("reducers_none", _never)


# ----------------------------------------------------------------------------------------------
# the component
# ----------------------------------------------------------------------------------------------
def _perm_confirm(name: str, slots: list[dict]) -> list:
    """All distinct real results over all branch orders (used to confirm a TLC-reported law failure)."""
    seen = []
    for p in itertools.permutations(range(len(slots))):
        r = real_apply(name, [slots[i] for i in p])
        if not any(same(r, x) for x in seen):
            seen.append(r)
    return seen


def run_component(tier: str, seed: int, corrupt: bool = False) -> dict:
    """corrupt=True flips one predicted result and one predicted planner value (binding demonstration)."""
    t0 = time.time()
    rnd = random.Random(seed * 7919 + 16)
    out: dict[str, Any] = {"ok": True, "machinery": None, "violations": [], "states": 0, "transitions": 0,
                           "cases_replayed": 0, "samples": [], "details": {}}
    det = out["details"]

    def viol(what: str, ctx: dict, replay: dict) -> None:
        ctx = dict(ctx)
        ctx.setdefault("formula", FORMULA)
        out["violations"].append({"what": what, "ctx": ctx, "replay": dict(replay, component="reducers")})

    # -- 1. exhaustive enumeration + laws ---------------------------------------------------------
    configs = [(3, False)] if tier != "thorough" else [(4, False), (3, True)]
    enum_cases: list[dict] = []
    det["enumerations"] = []
    for (ml, rich) in configs:
        en = enumerate_cases(ml, rich)
        res = en["res"]
        if en["fail"]:
            out["machinery"] = "MC_Reducers: " + en["fail"]
            out["ok"] = False
            return out
        if len(en["cases"]) != res.distinct:
            out["machinery"] = "MC_Reducers: exported %d cases but %d distinct states" % (len(en["cases"]), res.distinct)
            out["ok"] = False
            return out
        det["enumerations"].append({"MaxLen": ml, "Rich": rich, "cases": res.distinct, "generated": res.generated,
                                    "transitions": res.generated - res.distinct, "tlc_wall_s": round(res.wall, 1),
                                    "law_failures": len(en["viol"])})
        out["states"] += res.distinct
        out["transitions"] += res.generated - res.distinct
        for (law, c) in en["viol"]:
            real = _perm_confirm(c["n"], c["s"])
            viol("reducer '%s': %s false for branch list %s (real results over all orders: %s)"
                 % (c["n"], law, json.dumps(c["s"]), json.dumps(real)[:300]),
                 {"kind": "law", "law": law, "name": c["n"], "slots": c["s"]},
                 {"kind": "law", "name": c["n"], "slots": c["s"], "law": law})
        # -- 2. replay every enumerated case --------------------------------------------------------
        per: dict[str, int] = {}
        for ci, c in enumerate(en["cases"]):
            exp = c["r"]
            if corrupt and ci == 17:
                exp = {"t": "int", "v": 41}
            got = real_apply(c["n"], c["s"])
            out["cases_replayed"] += 1
            per[c["n"] + ":" + exp["t"]] = per.get(c["n"] + ":" + exp["t"], 0) + 1
            if not same(exp, got):
                viol("reducer '%s' on %s: spec predicts %s, apply_output_reducers gives %s"
                     % (c["n"], json.dumps(c["s"]), json.dumps(norm(exp)), json.dumps(got)),
                     {"kind": "case", "name": c["n"], "slots": c["s"], "expected": norm(exp), "got": got},
                     {"kind": "case", "name": c["n"], "slots": c["s"], "expected": norm(exp)})
        det["enumerations"][-1]["replayed_by_class"] = per
        if not enum_cases:
            enum_cases = en["cases"]
    picks = rnd.sample(enum_cases, 6)
    out["samples"] += [{"reducer": c["n"], "branches": [("<absent>" if s["t"] == "absent" else render(s))
                                                        for s in c["s"]],
                        "spec_result": (norm(c["r"]) if c["r"]["t"] in ("err", "nokey") else render(norm(c["r"])))}
                       for c in picks]

    # -- 3./4. hypothesis cases + planner scenarios, predicted by TLC in one run -------------------
    hyp = hypothesis_cases(seed, 150 if tier != "thorough" else 1500)
    scen = make_scenarios(enum_cases, rnd, 18 if tier != "thorough" else 90)
    ev = evaluate(hyp, scen)
    if ev["fail"]:
        out["machinery"] = "MC_ReducersCases: " + ev["fail"]
        out["ok"] = False
        return out
    res = ev["res"]
    out["states"] += res.distinct
    out["transitions"] += res.generated - res.distinct
    det["evaluation"] = {"hypothesis_cases": len(hyp), "scenarios": len(scen), "states": res.distinct,
                         "transitions": res.generated - res.distinct, "tlc_wall_s": round(res.wall, 1),
                         "law_failures": len(ev["viol"])}
    for (law, c) in ev["viol"]:
        if c["kind"] == "case":
            hc = hyp[c["i"] - 1]
            sl = [hc["s"][j - 1] for j in c["o"]]
            viol("reducer '%s': %s false for branch list %s (real results over all orders: %s)"
                 % (hc["n"], law, json.dumps(sl), json.dumps(_perm_confirm(hc["n"], sl))[:300]),
                 {"kind": "law", "law": law, "name": hc["n"], "slots": sl},
                 {"kind": "law", "name": hc["n"], "slots": sl, "law": law})
        else:
            viol("planner scenario %d: %s false for upstream order %s" % (c["i"], law, c["o"]),
                 {"kind": "planlaw", "law": law, "scenario": scen[c["i"] - 1], "order": c["o"]},
                 {"kind": "planlaw", "scenario": scen[c["i"] - 1], "order": c["o"], "law": law})
    ident_cases = 0
    for c in ev["cases"]:
        hc = hyp[c["i"] - 1]
        sl = [hc["s"][j - 1] for j in c["o"]]
        got = real_apply(hc["n"], sl)
        out["cases_replayed"] += 1
        ident_cases += 1
        if not same(c["r"], got):
            viol("reducer '%s' on %s: spec predicts %s, apply_output_reducers gives %s"
                 % (hc["n"], json.dumps(sl), json.dumps(norm(c["r"])), json.dumps(got)),
                 {"kind": "case", "name": hc["n"], "slots": sl, "expected": norm(c["r"]), "got": got},
                 {"kind": "case", "name": hc["n"], "slots": sl, "expected": norm(c["r"])})
    det["evaluation"]["hypothesis_orders_replayed"] = ident_cases

    # planner: prediction table  scenario -> upstream order -> [ctx for each ancestor-merge order]
    pred: dict[tuple, list] = {}
    for p in ev["plans"]:
        pred[(p["i"], tuple(p["o"]))] = [norm(x["ctx"]) for x in p["c"]]
    runs = 0
    plan_mismatch = 0
    orders = list(itertools.permutations(range(3)))
    seen_upstream_orders = set()
    for si, sc in enumerate(scen, start=1):
        redkeys = [k for k, _ in sc["reds"]]
        results = []
        for order in orders:
            r = run_scenario(si, sc, order)
            runs += 1
            results.append(r)
            if r.get("completed") != [BR[i] for i in order]:
                out["machinery"] = "planner replay: completion order %s not realised (%s)" % (order, r.get("completed"))
                out["ok"] = False
                return out
            uo = tuple(BR.index(x) + 1 for x in r["upstream_order"])
            seen_upstream_orders.add(uo)
            allowed = pred.get((si, uo))
            if allowed is None:
                out["machinery"] = "planner replay: no prediction for scenario %d order %s" % (si, uo)
                out["ok"] = False
                return out
            if corrupt and si == 1 and order == orders[0]:
                allowed = [{"t": "dict", "v": dict(a["v"], own_only={"t": "int", "v": 8})} if a["t"] == "dict" else a
                           for a in allowed]
            doc = {"kind": "plan", "scenario": sc, "order": list(order)}
            if allowed[0]["t"] == "err":
                ok = r["join_execs"] == 0 and r.get("direct") == allowed[0]
                if not ok:
                    plan_mismatch += 1
                    viol("planner scenario %d order %s: spec predicts %s from _plan_stage; join executed %d times, direct call: %s"
                         % (si, r["order"], allowed[0], r["join_execs"], r.get("direct")),
                         {"kind": "plan", "scenario": sc, "order": list(order), "expected": allowed[0]}, doc)
                continue
            seen = r["seen"]
            if seen is None or not any(same(seen, a) for a in allowed) or not same(seen, r["db_ctx"]):
                plan_mismatch += 1
                # name the first differing key for the report
                diff = []
                if seen is not None:
                    a0 = allowed[0]["v"]
                    for k in sorted(set(a0) | set(seen["v"])):
                        if not any(same(seen["v"].get(k), a["v"].get(k)) for a in allowed):
                            diff.append({"key": k, "reducer": dict(sc["reds"]).get(k), "seen": seen["v"].get(k),
                                         "spec": a0.get(k)})
                viol("planner scenario %d, branches finished %s (upstream order %s): join context differs from PlanContext: %s"
                     % (si, r["order"], r["upstream_order"], json.dumps(diff)[:600]),
                     {"kind": "plan", "scenario": sc, "order": list(order), "diff": diff, "redkeys": redkeys}, doc)
        # completion order must not matter at all for what the engine hands to the reducers
        base = results[0]
        for r in results[1:]:
            if r["upstream_order"] != base["upstream_order"]:
                det.setdefault("upstream_order_varies", []).append({"scenario": si, "orders": [x["upstream_order"] for x in results]})
                break
    out["cases_replayed"] += runs
    det["planner"] = {"scenarios": len(scen), "engine_runs": runs, "completion_orders_each": len(orders),
                      "err_scenarios": sum(1 for s, sc in enumerate(scen, 1) if pred[(s, (1, 2, 3))][0]["t"] == "err"),
                      "mismatches": plan_mismatch,
                      "upstream_orders_seen": sorted(seen_upstream_orders)}
    if scen:
        sc = scen[0]
        out["samples"].append({"planner_scenario": {"reducers": dict(sc["reds"]),
                                                    "a": {k: render(v) for k, v in sc["a"].items()},
                                                    "branches": [{k: render(v) for k, v in b.items()} for b in sc["b"]],
                                                    "own": {k: render(v) for k, v in sc["own"].items()}},
                               "spec_context": (pred[(1, (1, 2, 3))][0] if pred[(1, (1, 2, 3))][0]["t"] == "err"
                                                else render(pred[(1, (1, 2, 3))][0]))})
    det["wall_s"] = round(time.time() - t0, 1)
    out["ok"] = not out["violations"] and out["machinery"] is None
    return out


def replay(doc: dict) -> dict:
    """Re-run one recorded violation (the coordinator's --replay dispatches here on component=reducers)."""
    k = doc.get("kind")
    if k == "case":
        got = real_apply(doc["name"], doc["slots"])
        return {"ok": same(got, doc["expected"]), "got": got, "expected": doc["expected"]}
    if k == "law":
        real = _perm_confirm(doc["name"], doc["slots"])
        return {"ok": len(real) == 1, "results_over_orders": real}
    if k in ("plan", "planlaw"):
        ev = evaluate([], [doc["scenario"]])
        if ev["fail"]:
            return {"ok": False, "machinery": ev["fail"]}
        pred = {tuple(p["o"]): [norm(x["ctx"]) for x in p["c"]] for p in ev["plans"]}
        r = run_scenario(1, doc["scenario"], tuple(doc["order"]))
        uo = tuple(BR.index(x) + 1 for x in r["upstream_order"])
        allowed = pred[uo]
        if allowed[0]["t"] == "err":
            ok = r["join_execs"] == 0 and r.get("direct") == allowed[0]
        else:
            ok = r["seen"] is not None and any(same(r["seen"], a) for a in allowed)
        return {"ok": bool(ok) and not ev["viol"], "seen": r.get("seen"), "allowed": allowed[:2], "law_failures": ev["viol"]}
    return {"ok": False, "machinery": "unknown replay kind %r" % (k,)}


if __name__ == "__main__":
    import sys

    tier = sys.argv[1] if len(sys.argv) > 1 else "quick"
    r = run_component(tier, int(os.environ.get("VERIF_SEED", "1")), corrupt="--corrupt" in sys.argv)
    r2 = dict(r)
    r2["violations"] = [v["what"][:300] for v in r["violations"][:10]]
    print(json.dumps(r2, indent=1, default=str)[:6000])
    print("violations:", len(r["violations"]), "ok:", r["ok"])
