"""Declarative reference outcome (DESIGN 6.3).

`ideal(prog)` is computed STRUCTURALLY from the DAG and the task scripts - it never looks at the
engine or at the engine model - so a real order-dependence bug cannot excuse itself.  `racy(prog)`
is the set of stages whose final status legitimately depends on whether their own completion or the
cancel caused by a failing incomparable stage arrives first.
"""
from __future__ import annotations

CONT = {"SUCCEEDED", "FAILED_CONTINUE", "SKIPPED", "REDIRECT"}
HALT = {"TERMINAL", "CANCELED", "STOPPED"}
RETRY_BUDGET = 10   # documented: up to 10 attempts


def failure_status(sd: dict) -> str:
    if sd["cof"]:
        return "FAILED_CONTINUE"
    return "TERMINAL" if sd["failp"] else "STOPPED"


def _stage(prog, ref):
    for s in prog["stages"]:
        if s["ref"] == ref:
            return s
    raise KeyError(ref)


def ancestors(prog, ref) -> set[str]:
    out: set[str] = set()
    todo = list(_stage(prog, ref)["req"])
    while todo:
        x = todo.pop()
        if x not in out:
            out.add(x)
            todo.extend(_stage(prog, x)["req"])
    return out


def descendants(prog, ref) -> set[str]:
    return {s["ref"] for s in prog["stages"] if ref in ancestors(prog, s["ref"])}


def max_jumps(prog) -> int:
    mj = prog.get("maxJumps", -1)
    return 10 if mj < 0 else mj


def task_result(prog, sd, td) -> str:
    """Final status the task's script leads to when it is allowed to run to completion."""
    k, n = td["k"], td["n"]
    if k == "terminal":
        return failure_status(sd)
    if k in ("transient", "transientNoCtx", "verify") and n + 1 > RETRY_BUDGET - 1:
        return failure_status(sd)      # retries exhausted
    if k in ("jump", "jump2", "jumpafter") and n > max_jumps(prog):
        return "TERMINAL"              # jump budget exhausted (JumpToStage fails the source stage)
    return "SUCCEEDED"


def stage_from_tasks(prog, sd) -> str:
    kids = [k for k in prog["stages"] if k["parent"] == sd["ref"]]
    for k in kids:   # a synthetic child that halts makes its parent TERMINAL
        if stage_from_tasks(prog, k) in ("TERMINAL", "STOPPED", "CANCELED"):
            return "TERMINAL"
    res = [task_result(prog, sd, t) for t in sd["tasks"]]
    for k in ("TERMINAL", "STOPPED"):
        if k in res:
            return k
    if "FAILED_CONTINUE" in res:
        return "FAILED_CONTINUE"
    return "SUCCEEDED"


def _closure(prog, start: str) -> set[str]:
    """stages all of whose (non-empty) prerequisites lie in the scope grown from `start`"""
    scope = {start}
    changed = True
    while changed:
        changed = False
        for s in prog["stages"]:
            if s["ref"] not in scope and s["req"] and all(r in scope for r in s["req"]):
                scope.add(s["ref"])
                changed = True
    return scope - {start}


def forward_jumps(prog) -> tuple[set[str], set[str]]:
    """(stages bypassed by a forward jump, jump targets that start without their prerequisites)"""
    skipped: set[str] = set()
    targets: set[str] = set()
    for sd in prog["stages"]:
        for td in sd["tasks"]:
            if td["k"] == "jump" and td["n"] >= 1 and max_jumps(prog) >= 1:
                tgt = td["target"]
                if tgt != sd["ref"] and sd["ref"] not in descendants(prog, tgt):
                    skipped |= _closure(prog, sd["ref"]) - ({tgt} | descendants(prog, tgt))
                    targets.add(tgt)
    return skipped, targets


def split_skipped(prog) -> set[str]:
    """downstream stages an OR-split does not activate (they get SkipStage; SKIPPED is a continuable status)"""
    out: set[str] = set()
    for sd in prog["stages"]:
        sp = sd.get("split") or {}
        if not sp:
            continue
        down = [d["ref"] for d in prog["stages"] if sd["ref"] in d["req"]]
        yes = [d for d in down if sp.get(d, True)]
        if not yes and down:
            yes = [down[0]]
        out |= set(down) - set(yes)
    return out


RECORDS_OR_BRANCHES = False


def activated_for(prog, join_ref):
    """the _activated_branches an OR-join ends up with (None: no OR-split feeds it -> AND semantics)"""
    # As the code is, the OR-split's handler never sees the OR-join (it works on the partial execution of
    # retrieve_stage: the stage, its prerequisites, its children), so nothing is recorded and the join keeps its
    # all-of rule.  (Engine.tla: OrJoinsOf / VisibleTo.)
    if not RECORDS_OR_BRANCHES:
        return None
    jd = _stage(prog, join_ref)
    got = None
    for sd in prog["stages"]:
        sp = sd.get("split") or {}
        if not sp:
            continue
        down = [d["ref"] for d in prog["stages"] if sd["ref"] in d["req"]]
        yes = [d for d in down if sp.get(d, True)]
        if not yes and down:
            yes = [down[0]]
        if set(yes) & set(jd["req"]):
            got = (got or set()) | set(yes)
    return got


def ideal(prog) -> dict:
    st: dict[str, str] = {}
    order = [s["ref"] for s in prog["stages"] if not s["parent"] and not s.get("instk")]
    fwd_skipped, fwd_targets = forward_jumps(prog)
    or_skipped = split_skipped(prog)
    # stages are listed in a topological order by construction; iterate until stable anyway
    for _ in range(len(order) + 1):
        for ref in order:
            sd = _stage(prog, ref)
            ups = [st.get(u) for u in sd["req"]]
            if any(u is None for u in ups):
                continue
            cont = [u in CONT for u in ups]
            j = sd["join"]
            if j == "OR":      # paired OR-join: only the branches its OR-split(s) activated count
                actv = activated_for(prog, ref)
                if actv is not None:
                    rel = [st.get(u) for u in sd["req"] if u in actv]
                    cont = [u in CONT for u in rel]
                    ups = rel
            if not ups:
                ok = True
            elif j in ("DISCRIMINATOR", "MULTI_MERGE"):
                ok = any(cont)
            elif j == "N_OF_M" and sd["thr"] > 0:
                ok = sum(cont) >= sd["thr"]
            else:
                ok = all(cont)
            if ref in fwd_skipped or ref in or_skipped:
                st[ref] = "SKIPPED"
            elif ref in fwd_targets:
                st[ref] = stage_from_tasks(prog, sd)
            elif not ok:
                st[ref] = "NOT_STARTED"

            elif sd["enabled"] is False or sd["enabled"] == "expired":
                st[ref] = "SKIPPED"
            else:
                st[ref] = stage_from_tasks(prog, sd)
    # synthetic children: before-children run when the parent starts, after-children when its core finished
    for sd in prog["stages"]:
        if not sd["parent"]:
            continue
        par = _stage(prog, sd["parent"])
        pst = st.get(sd["parent"], "NOT_STARTED")
        if pst in ("NOT_STARTED", "SKIPPED"):
            st[sd["ref"]] = "ABSENT"
        elif sd["req"] and any(st.get(r) not in CONT for r in sd["req"]):
            # chained children: a sibling it waits for did not finish in a continuable status (siblings are listed in order)
            st[sd["ref"]] = "ABSENT" if any(st.get(r) == "ABSENT" for r in sd["req"]) else "NOT_STARTED"
        elif sd["owner"] == "BEFORE":
            st[sd["ref"]] = stage_from_tasks(prog, sd)
        else:
            core = [stage_from_tasks(prog, k) for k in prog["stages"] if k["parent"] == par["ref"] and k["owner"] == "BEFORE"]
            core += [task_result(prog, par, t) for t in par["tasks"]]
            st[sd["ref"]] = stage_from_tasks(prog, sd) if all(c in ("SUCCEEDED", "FAILED_CONTINUE", "SKIPPED") for c in core) else "ABSENT"
    for sd in prog["stages"]:      # instances that only AddMultiInstance creates (WCP-15): not there without it
        if sd.get("instk"):
            st[sd["ref"]] = "ABSENT"
    vals = {v for k, v in st.items() if not _stage(prog, k)["parent"] and v != "ABSENT"}
    if prog.get("wfExpired"):      # never starts: cancelled as a whole
        return {"wf": "CANCELED", "st": {k: ("CANCELED" if v != "ABSENT" else v) for k, v in st.items()}}
    if "TERMINAL" in vals:
        wf = "TERMINAL"
    elif "CANCELED" in vals:
        wf = "CANCELED"
    else:
        wf = "SUCCEEDED"
    return {"wf": wf, "st": st}


def self_halting(prog) -> set[str]:
    idl = ideal(prog)["st"]
    return {s["ref"] for s in prog["stages"] if not s["parent"]
            and idl.get(s["ref"]) in ("TERMINAL",) and stage_from_tasks(prog, s) == "TERMINAL"
            and idl[s["ref"]] != "NOT_STARTED"}


def must_precede(prog, ref, _memo=None) -> set[str]:
    """Stages guaranteed to have completed before `ref` can start.  For an all-of join these are all its ancestors;
    a first-of / multi-merge / k-of-n join fires after SOME of its prerequisites, so only what precedes every one of
    them is guaranteed (for k-of-n this under-approximates: more stages count as racy, never fewer)."""
    memo = {} if _memo is None else _memo
    if ref in memo:
        return memo[ref]
    sd = _stage(prog, ref)
    req = list(sd["req"])
    per = [{r} | must_precede(prog, r, memo) for r in req]
    early = sd["join"] in ("DISCRIMINATOR", "MULTI_MERGE") or (sd["join"] == "N_OF_M" and 0 < sd["thr"] < len(req))
    if not per:
        out: set[str] = set()
    elif early and len(req) > 1:
        out = set.intersection(*per)
    else:
        out = set.union(*per)
    memo[ref] = out
    return out


def racy(prog) -> set[str]:
    """Stages whose final status legitimately depends on the schedule: everything that may still be running (or not yet
    started) when a halting stage h ends the workflow - i.e. all stages except those guaranteed to be complete before h
    starts and those that cannot start without h."""
    out: set[str] = set()
    halting = self_halting(prog)
    memo: dict = {}
    for h in halting:
        before = must_precede(prog, h, memo)
        for s in prog["stages"]:
            r = s["ref"]
            if s["parent"] or r == h or r in before or h in must_precede(prog, r, memo):
                continue
            out.add(r)
            out |= descendants(prog, r) - {h} - before
    # a stage gated by a milestone runs or is skipped depending on when its StartStage is handled
    out |= {s["ref"] for s in prog["stages"] if s.get("milestone")}
    # synthetic children of a racy stage are racy too
    out |= {s["ref"] for s in prog["stages"] if s["parent"] in out}
    return out


def exec_max(prog, ref_ledger: list[dict]) -> dict[str, int]:
    """Upper bound of executions per task in a fault-free run: what the FIFO reference run did,
    and for tasks of racy stages what their script needs when the stage runs to completion."""
    counts: dict[str, int] = {}
    for e in ref_ledger:
        counts[e["task"]] = counts.get(e["task"], 0) + 1
    rz = racy(prog)
    out = {}
    for sd in prog["stages"]:
        for td in sd["tasks"]:
            n = counts.get(td["name"], 0)
            if sd["ref"] in rz:
                need = td["n"] + 1 if td["k"] in ("poll", "pollR", "transient", "transientNoCtx", "verify") else 1
                n = max(n, need)
            out[td["name"]] = n
    return out


def reference(prog, fifo_final: dict) -> dict:
    """Oracle record emitted into Program.tla (Ref, Ideal, Racy, ExecMax)."""
    st = fifo_final["state"]["st"]
    refst = {s["ref"]: "ABSENT" for s in prog["stages"]}
    refst.update({k: v["status"] for k, v in st.items()})
    return {
        "Ref": {"wf": fifo_final["state"]["wf"]["status"], "st": refst},
        "Ideal": ideal(prog),
        "Racy": set(racy(prog)),
        "ExecMax": exec_max(prog, fifo_final["ledger"]),
        "RefViews": ref_views(prog, fifo_final["ledger"]),
    }


def ref_views(prog, ledger) -> dict:
    """per task the set of (hashes of the) upstream data it saw in the fault-free in-order run"""
    from .driver import view_hash

    out = {t["name"]: set() for s in prog["stages"] for t in s["tasks"]}
    for e in ledger:
        out[e["task"]].add(view_hash(e["view"]))
    # what an early-firing join (first-of / quorum / multi-merge) and its descendants see legitimately depends on
    # which branches happened to finish first, and racy stages may see a subset: no fixed reference there
    early = {s["ref"] for s in prog["stages"] if s["join"] in ("DISCRIMINATOR", "MULTI_MERGE")
             or (s["join"] == "N_OF_M" and 0 < s["thr"] < len(s["req"]))}
    free = set(early) | racy(prog)
    for r in list(early):
        free |= descendants(prog, r)
    for s in prog["stages"]:
        if s["ref"] in free or s["parent"] in free:
            for t in s["tasks"]:
                out[t["name"]] = {"*"}
    return out
