"""C08 - Queue: at-least-once delivery, one holder at a time, no message ever lost.

Technique (DESIGN 3.2 / 7 "C08"): spec/Queue.tla models the SQLite queue at SQL-statement grain
(two-step poll, DLQ move / replay as DELETE..RETURNING ; INSERT ; COMMIT in one transaction, client
crash between any two statements, lock / delay expiry, stale-holder operations).

  (a) TLC model-checks Queue.tla: the intended regime (all defect switches off), the queue AS CODED
      (switches on; failures must be explained by a recorded defect flag), the proposed fixes.
  (b) spec -> code: TLC exports the complete state graph of small "as coded" configurations
      (MC_Queue!ExportState / ExportEdge); every edge is covered by walks from the initial state and
      every walk is replayed on the REAL SqliteQueue: one real thread (own connection) per model
      client, run under a baton, parked before every SQL statement and before every COMMIT through
      the sqlite3 connection proxy, killed there for CrashClient.  After EVERY step the real tables
      (committed image through a foreign connection, the open transaction's image through its
      owner's connection), the INSERT/DELETE trigger ledger, the client's park position and its
      return value are compared with the state TLC predicted.
  (c) code -> spec: a seeded random multi-client driver runs on the real queue without consulting
      the model; TLC validates the recorded histories against Queue.tla (Trace_Queue) and evaluates
      the property formulas in every state.  Counter-examples TLC finds for the recorded defects are
      confirmed the same way: replayed on the real queue, the recorded execution is judged by TLC.

Python drives, records, projects and compares predicted with observed states; every property
verdict is TLC's.
"""
from __future__ import annotations

import os
import time as _time

os.environ.setdefault("TZ", "UTC")          # SQLite's datetime('now','utc') shifts by the local offset
_time.tzset()
os.environ.setdefault("STABILIZE_SQLITE_BUSY_TIMEOUT_MS", "300")

import json  # noqa: E402
import queue as _pyqueue  # noqa: E402
import random  # noqa: E402
import re  # noqa: E402
import shutil  # noqa: E402
import sqlite3  # noqa: E402
import threading  # noqa: E402
from datetime import UTC, datetime, timedelta  # noqa: E402

from . import core  # noqa: E402  (must precede any import of stabilize)
from . import findings, tlc  # noqa: E402
from .evidence import Reporter, write_evidence  # noqa: E402

PID = "C08"
QMAX = 2                      # SqliteQueue(max_attempts=2): the attempt limit is reached in two claims
SCHEMA_MAX = 10               # DEFAULT of queue_messages.max_attempts (queue/sqlite/schema.py)
HOUR = timedelta(hours=1)

# ======================================================================================================
# 1. The real queue under a statement-level baton
# ======================================================================================================
LEDGER_DDL = """
CREATE TABLE IF NOT EXISTS verif_led (seq INTEGER PRIMARY KEY AUTOINCREMENT, tbl TEXT, op TEXT, rid INTEGER, payload TEXT);
CREATE TRIGGER IF NOT EXISTS verif_led_qi AFTER INSERT ON queue_messages BEGIN
  INSERT INTO verif_led(tbl, op, rid, payload) VALUES ('q', 'I', NEW.id, NEW.payload); END;
CREATE TRIGGER IF NOT EXISTS verif_led_qd AFTER DELETE ON queue_messages BEGIN
  INSERT INTO verif_led(tbl, op, rid, payload) VALUES ('q', 'D', OLD.id, OLD.payload); END;
CREATE TRIGGER IF NOT EXISTS verif_led_di AFTER INSERT ON queue_messages_dlq BEGIN
  INSERT INTO verif_led(tbl, op, rid, payload) VALUES ('d', 'I', NEW.id, NEW.payload); END;
CREATE TRIGGER IF NOT EXISTS verif_led_dd AFTER DELETE ON queue_messages_dlq BEGIN
  INSERT INTO verif_led(tbl, op, rid, payload) VALUES ('d', 'D', OLD.id, OLD.payload); END;
"""

_tls = threading.local()
_WS = re.compile(r"\s+")


def classify(sql: str) -> str | None:
    """SQL statement of the queue -> statement class (None: not a statement of interest)."""
    s = _WS.sub(" ", sql.strip()).lower()
    if s.startswith("select"):
        if "from queue_messages_dlq" in s:
            return "sel_dlq"
        if "from queue_messages" in s:
            if "attempts >= max_attempts" in s:
                return "sel_sweep"
            if "limit 1" in s and "version" in s:
                return "sel_cand"
            return "sel_q"
        return None
    if s.startswith("update queue_messages"):
        if "attempts = attempts + 1" in s:
            return "claim"
        if "deliver_at" in s:
            return "resched"
        if "locked_until" in s:
            return "extend"
        return "upd_q"
    if s.startswith("delete from queue_messages_dlq"):
        return "del_dlq"
    if s.startswith("delete from queue_messages"):
        return "del_q_ret" if "returning" in s else "del_q"
    if s.startswith("insert into queue_messages_dlq"):
        return "ins_dlq"
    if s.startswith("insert into queue_messages"):
        return "ins_q"
    if s.startswith(("pragma", "create", "insert into verif", "begin", "commit", "rollback")):
        return None
    return "other:" + s[:60]


def _on_execute(conn, sql, args):
    cl = getattr(_tls, "client", None)
    if cl is None or cl.hooks_off:
        return None
    kind = classify(sql)
    if kind is None:
        return None
    cl.nstmt += 1
    params = args[0] if args and isinstance(args[0], dict) else {}
    if cl.nstmt == 1:
        cl.first = kind         # the first statement of an operation runs with the step that starts it
        return None
    cl.park(kind, params)
    return None


_orig_commit = core.VConn.commit


def _commit(self):
    cl = getattr(_tls, "client", None)
    if cl is not None and not cl.hooks_off and self.in_transaction:
        cl.park("commit", {})
    return _orig_commit(self)


def install_hooks() -> None:
    core.Hooks.on_execute = _on_execute
    core.Hooks.on_commit = None
    core.Hooks.on_rollback = None
    core.VConn.commit = _commit       # adds the pre-COMMIT park point (harness process only)


class Diverged(Exception):
    """The real client is not where the label sequence needs it to be."""


class Client(threading.Thread):
    def __init__(self, sim: "QSim", name: str) -> None:
        super().__init__(daemon=True, name="c08-" + name)
        self.sim = sim
        self.cname = name
        self.cmd: _pyqueue.SimpleQueue = _pyqueue.SimpleQueue()
        self.evt: _pyqueue.SimpleQueue = _pyqueue.SimpleQueue()
        self.hooks_off = True
        self.nstmt = 0
        self.first = None
        self.q = None
        self.parked: tuple | None = None     # (kind, params) while parked inside an operation
        self.op: str | None = None           # operation in progress
        self.held = None                     # Message object the client polled and has not released
        self.conn = None

    # ---- runs in the client thread ------------------------------------------------------------
    def _new_queue(self):
        from stabilize.queue.sqlite import SqliteQueue

        self.q = SqliteQueue("sqlite:///" + self.sim.path, max_attempts=self.sim.qmax, lock_duration=HOUR)
        self.conn = self.q._get_connection()

    def _die(self):
        """Process kill: the connection goes away, its open transaction is rolled back by SQLite."""
        self.hooks_off = True
        try:
            sqlite3.Connection.rollback(self.conn)
        finally:
            self.q.close()
        self._new_queue()

    def run(self):
        _tls.client = self
        self._new_queue()
        self.evt.put(("ready",))
        while True:
            cmd = self.cmd.get()
            if cmd[0] == "stop":
                self.hooks_off = True
                try:
                    sqlite3.Connection.rollback(self.conn)
                    self.q.close()
                finally:
                    self.evt.put(("stopped",))
                return
            if cmd[0] == "die":
                self._die()
                self.evt.put(("crashed",))
                continue
            fn = cmd[1]
            self.nstmt = 0
            self.first = None
            self.hooks_off = False
            try:
                val = fn(self)
                self.hooks_off = True
                self.evt.put(("ret", val))
            except core.VerifCrash:
                self._die()
                self.evt.put(("crashed",))
            except Exception as e:  # noqa: BLE001
                self.hooks_off = True
                self.evt.put(("exc", type(e).__name__ + ": " + str(e)))

    def park(self, kind, params):
        self.evt.put(("park", kind, dict(params)))
        cmd = self.cmd.get()
        if cmd[0] == "crash":
            raise core.VerifCrash()

    # ---- called by the driver (main thread) ---------------------------------------------------
    def _wait(self):
        try:
            ev = self.evt.get(timeout=20)
        except _pyqueue.Empty:
            raise Diverged(f"client {self.cname} did not reach a park point (deadlock?)") from None
        if ev[0] == "park":
            self.parked = (ev[1], ev[2])
        else:
            self.parked = None
            self.op = None
        return ev

    def start_op(self, op: str, fn):
        if self.parked is not None or self.op is not None:
            raise Diverged(f"client {self.cname} is inside {self.op}, cannot start {op}")
        self.op = op
        self.cmd.put(("op", fn))
        return self._wait()

    def advance(self):
        if self.parked is None:
            raise Diverged(f"client {self.cname} is not parked")
        self.cmd.put(("go",))
        return self._wait()

    def crash(self):
        self.held = None
        if self.parked is not None:
            self.cmd.put(("crash",))
        else:
            self.cmd.put(("die",))
        return self._wait()


PARK_PC = {"claim": "poll_upd", "commit": "commit", "del_q_ret": "mv_del", "ins_dlq": "mv_ins", "ins_q": "rp_ins"}
ADVANCE = {"PollUpdate": "poll_upd", "Commit": "commit", "MoveDelete": "mv_del", "MoveInsert": "mv_ins",
           "ReplayInsert": "rp_ins"}


def jret(x) -> str:
    return json.dumps(x, separators=(",", ":"))


class QSim:
    """A scratch database with the real SqliteQueue and one real thread per model client."""

    def __init__(self, path: str, clients: list[str], qmax: int = QMAX, poison=()) -> None:
        from stabilize.queue.sqlite import SqliteQueue

        self.path = path
        self.qmax = qmax
        self.poison = set(poison)      # messages whose stored payload is corrupted right after their push committed
        for suf in ("", "-journal", "-wal", "-shm"):
            try:
                os.remove(path + suf)
            except FileNotFoundError:
                pass
        q0 = SqliteQueue("sqlite:///" + path, max_attempts=qmax, lock_duration=HOUR)
        q0._create_table()
        q0.close()
        self.raw = core.raw_connect(path)
        self.raw.executescript(LEDGER_DDL)
        self.clients: dict[str, Client] = {}
        for n in clients:
            c = Client(self, n)
            self.clients[n] = c
            c.start()
            c._wait()
        self.last_ts = datetime.now(UTC)

    def close(self) -> None:
        for c in self.clients.values():
            if c.parked is not None:
                c.cmd.put(("crash",))
                c._wait()
            c.cmd.put(("stop",))
            c.evt.get(timeout=20)
        self.raw.close()
        for suf in ("", "-journal", "-wal", "-shm"):
            try:
                os.remove(self.path + suf)
            except FileNotFoundError:
                pass

    # ---- time -----------------------------------------------------------------------------------
    def now_iso(self) -> str:
        t = datetime.now(UTC)
        if t <= self.last_ts:
            t = self.last_ts + timedelta(microseconds=1)
        self.last_ts = t
        return t.isoformat()

    # ---- projection (abstraction function) --------------------------------------------------------
    @staticmethod
    def _parse(ts: str) -> datetime:
        if "T" in ts:
            return datetime.fromisoformat(ts)
        return datetime.strptime(ts, "%Y-%m-%d %H:%M:%S").replace(tzinfo=UTC)

    @staticmethod
    def _mname(payload: str) -> str:
        """logical message of a payload (also of a corrupted one: valid JSON followed by garbage)"""
        try:
            return json.JSONDecoder().raw_decode(payload)[0].get("execution_id", "?")
        except Exception:  # noqa: BLE001
            return "?"

    def image(self, ex) -> dict:
        """ex: callable(sql) -> rows; the image of the database as that connection sees it."""
        now = datetime.now(UTC)
        rows, order = [], []
        for r in ex("SELECT id, payload, attempts, max_attempts, locked_until, deliver_at, version "
                    "FROM queue_messages ORDER BY id"):
            lock = bool(r[4]) and self._parse(r[4]) > now
            delayed = self._parse(r[5]) > now + timedelta(seconds=120)
            rows.append({"id": r[0], "msg": self._mname(r[1]), "att": r[2], "maxAtt": r[3],
                         "lock": lock, "delayed": delayed, "ver": r[6], "front": "T" not in r[5]})
            if not delayed:
                order.append((r[5], r[0]))
        order.sort()
        dlq = [{"id": r[0], "msg": self._mname(r[1]), "att": r[2], "orig": r[3]}
               for r in ex("SELECT id, payload, attempts, original_id FROM queue_messages_dlq ORDER BY id")]
        seq = {r[0]: r[1] for r in ex("SELECT name, seq FROM sqlite_sequence")}
        pushed = sorted({self._mname(r[0])
                         for r in ex("SELECT DISTINCT payload FROM verif_led WHERE tbl = 'q' AND op = 'I'")})
        here = {x["msg"] for x in rows} | {x["msg"] for x in dlq}
        return {"rows": rows, "dlq": dlq, "nid": seq.get("queue_messages", 0) + 1,
                "ndlq": seq.get("queue_messages_dlq", 0) + 1, "order": [i for _, i in order],
                "pushed": pushed, "gone": sorted(m for m in pushed if m not in here)}

    def observe(self) -> dict:
        db = self.image(lambda sql: self.raw.execute(sql).fetchall())
        owner, img = "Nobody", {"none": True}
        cls = {}
        for n, c in self.clients.items():
            if c.conn.in_transaction:
                if owner != "Nobody":
                    raise Diverged("two connections inside a write transaction")
                owner = n
                img = self.image(lambda sql, k=c.conn: sqlite3.Connection.execute(k, sql).fetchall())
            pc = "idle" if c.parked is None else PARK_PC.get(c.parked[0], "?" + c.parked[0])
            cls[n] = {"pc": pc, "held": int(c.held.message_id) if c.held is not None else 0}
        return {"db": db, "txn": {"owner": owner, "img": img}, "cl": cls}

    # ---- one model step on the real queue ----------------------------------------------------------
    def _msg(self, m: str):
        from stabilize.queue.messages import StartWorkflow

        return StartWorkflow(execution_type="verif", execution_id=m)

    def step(self, lab: dict) -> dict:
        """Perform the action `lab` = {a, c, arg, ret}; returns {'ev': client event, 'ret': observed
        ret in the label's vocabulary (or '*' where the value is internal to the client)}."""
        a, cn, arg = lab["a"], lab["c"], lab["arg"]
        if a == "Expire":
            self.raw.execute("UPDATE queue_messages SET locked_until = '2000-01-01T00:00:00+00:00' WHERE id = ?", (arg,))
            return {"ev": ("time",), "ret": "[]"}
        if a == "Deliver":
            self.raw.execute("UPDATE queue_messages SET deliver_at = ? WHERE id = ?", (self.now_iso(), arg))
            return {"ev": ("time",), "ret": "[]"}
        if a == "LeaseLapse":
            return {"ev": ("ghost",), "ret": "[]"}
        c = self.clients[cn]
        if a == "CrashClient":
            pc = "idle" if c.parked is None else PARK_PC.get(c.parked[0], "?")
            ev = c.crash()
            return {"ev": ev, "ret": jret([pc])}
        if a in ADVANCE:
            want = ADVANCE[a]
            have = None if c.parked is None else PARK_PC.get(c.parked[0], "?" + c.parked[0])
            if have != want:
                raise Diverged(f"{a}({cn}): client is at {have}, not at {want}")
            prev = c.parked
            op = c.op
            ev = c.advance()
            if a == "Commit" and op == "push" and ev[0] == "ret" and getattr(c, "push_msg", None) in self.poison:
                # a poison message: its stored type is one this build does not know (deserialize_message raises)
                for rid, pl in self.raw.execute("SELECT id, payload FROM queue_messages").fetchall():
                    if self._mname(pl) == c.push_msg:
                        self.raw.execute("UPDATE queue_messages SET message_type = 'TypeOfANewerBuild' WHERE id = ?", (rid,))
            if a == "Commit" and op == "poll" and ev[0] == "exc" and "nknown message type" in ev[1]:
                return {"ev": ("ret", "poison"), "ret": jret(["poll", "poison"])}
            return {"ev": ev, "ret": self._ret_advance(a, c, op, prev, ev)}
        if a == "PushInsert":
            m = lab["ret"][0]
            if lab.get("ext"):      # push(message, delay, connection=<caller's>): the caller commits - same two steps
                def fn(k):
                    k.q.push(self._msg(m), HOUR if arg else None, connection=k.conn)
                    k.conn.commit()
            else:
                def fn(k):
                    k.q.push(self._msg(m), HOUR if arg else None)
            c.push_msg = m
            ev = c.start_op("push", fn)
            return {"ev": ev, "ret": jret([m])}
        if a == "PollSelect":
            ev = c.start_op("poll", lambda k: k.q.poll_one())
            if ev[0] == "park" and ev[1] == "claim":
                return {"ev": ev, "ret": jret(["cand", ev[2].get("id"), ev[2].get("version")])}
            if ev[0] == "ret" and ev[1] is None:
                return {"ev": ev, "ret": jret(["none"])}
            return {"ev": ev, "ret": jret(["?", str(ev)[:80]])}
        if a in ("AckDelete", "ReschedUpdate", "ExtendUpdate"):
            msg = c.held
            if msg is None:
                raise Diverged(f"{a}({cn}): client holds nothing")
            if a == "AckDelete":
                ev = c.start_op("ack", lambda k: k.q.ack(msg))
            elif a == "ReschedUpdate":
                ev = c.start_op("resched", lambda k: k.q.reschedule(msg, HOUR))
            else:
                ev = c.start_op("extend", lambda k: k.q.extend_lock(msg))
            return {"ev": ev, "ret": "*"}
        if a == "SweepSelect":
            ev = c.start_op("sweep", lambda k: k.q.check_and_move_expired())
            if ev[0] == "ret":
                return {"ev": ev, "ret": jret([]) if ev[1] == 0 else jret(["?", ev[1]])}
            return {"ev": ev, "ret": "*"}
        if a == "ReplayDelete":
            ev = c.start_op("replay", lambda k: k.q.replay_dlq(arg))
            if ev[0] == "ret":
                return {"ev": ev, "ret": jret([False, "ret", ev[1]])}
            return {"ev": ev, "ret": jret([True])}
        raise Diverged("unknown action " + a)

    def _ret_advance(self, a, c, op, prev, ev) -> str:
        if a == "PollUpdate":
            return "*"
        if a == "MoveDelete":
            if ev[0] == "park" and ev[1] == "ins_dlq":
                return jret([True])
            if ev[0] == "park":
                return jret([False])
            if ev[0] == "ret":
                return jret([False, "ret", ev[1]])
        if a == "MoveInsert":
            return "*"
        if a == "ReplayInsert":
            return "*"
        if a == "Commit":
            if op == "poll":
                if ev[0] == "ret" and ev[1] is None:
                    return jret(["poll", "lost"])
                if ev[0] == "ret":
                    m = ev[1]
                    c.held = m
                    return jret(["poll", int(m.message_id), m.attempts, getattr(m, "execution_id", "?")])
            if op in ("ack", "resched") and ev[0] == "ret" and ev[1] is None:
                c.held = None
                return jret([op])
            if op == "extend" and ev[0] == "ret":
                return jret(["extend", ev[1]])
            if op == "push" and ev[0] == "ret" and ev[1] is None:
                return jret(["push"])
            if op == "replay" and ev[0] == "ret":
                return jret(["replay", ev[1]])
            if op == "sweep":
                if ev[0] == "ret":
                    return jret(["sweep", "ret", ev[1]])
                if ev[0] == "park" and ev[1] == "del_q_ret":
                    return jret(["sweep"])
        return jret(["?", str(ev)[:120]])


# ======================================================================================================
# 2. TLC: configurations, state-graph export, trace validation
# ======================================================================================================
AS_CODED = {"AllowStaleOps": "TRUE", "FencedOps": "FALSE", "SweepLocked": "TRUE", "ReplayDefaultLimit": "FALSE",   # FALSE since fix 640e2a4
            "DanglingTxn": "TRUE"}
INTENDED = {"AllowStaleOps": "FALSE", "FencedOps": "FALSE", "SweepLocked": "FALSE", "ReplayDefaultLimit": "FALSE",
            "DanglingTxn": "TRUE"}
REPAIRED = {"AllowStaleOps": "TRUE", "FencedOps": "TRUE", "SweepLocked": "FALSE", "ReplayDefaultLimit": "FALSE",
            "DanglingTxn": "FALSE"}      # = docs/proposed_fixes/C08.diff

SAFETY = ["TypeOK", "Conservation", "OneHolder", "NoStrandedRow", "ClaimBelowLimit"]
SAFETY_K = ["TypeOK", "Conservation", "OneHolderK", "NoStrandedRowK", "ClaimBelowLimit"]
ACTIONP = ["ReplayUnchangedP", "MoveKeepsP"]
ACTIONP_K = ["ReplayUnchangedKP", "MoveKeepsP"]


def mvset(prefix: str, n: int, strings: bool = False) -> str:
    xs = [f"{prefix}{i}" for i in range(1, n + 1)]
    return "{" + ", ".join(('"%s"' % x) if strings else x for x in xs) + "}"


def make_cfg(nclients: int, nmsgs: int, switches: dict, *, replays=1, crashes=1, notfound=1, fifo=False,
             delayed=False, schema_max=SCHEMA_MAX, qmax=QMAX, strings=False, symmetry=False, invariants=(),
             properties=(), constraints=(), action_constraints=(), init="Init", next_="Next", spec=None,
             postcondition=None, max_depth=None, view=True, poison=0) -> str:
    c = {"Clients": mvset("c", nclients, strings), "Nobody": '"Nobody"' if strings else "Nobody",
         "Msgs": mvset("m", nmsgs, strings), "QMax": qmax, "SchemaMax": schema_max, "MaxReplays": replays,
         "MaxCrashes": crashes, "MaxNotFound": notfound, "Fifo": "TRUE" if fifo else "FALSE",
         "DelayedPush": "TRUE" if delayed else "FALSE",
         "Poison": mvset("m", poison, strings) if poison else "{}"}       # the first `poison` messages have a corrupted payload
    c.update(switches)
    if max_depth is not None:
        c["MaxDepth"] = max_depth
    lines = ["CONSTANTS"] + [f"  {k} = {v}" for k, v in c.items()]
    if spec:
        lines.append(f"SPECIFICATION {spec}")
    else:
        lines += [f"INIT {init}", f"NEXT {next_}"]
    if view and not spec:
        lines.append("VIEW View_")
    if symmetry:
        lines.append("SYMMETRY Sym")
    lines += [f"INVARIANT {i}" for i in invariants]
    lines += [f"PROPERTY {p}" for p in properties]
    lines += [f"CONSTRAINT {p}" for p in constraints]
    lines += [f"ACTION_CONSTRAINT {p}" for p in action_constraints]
    if postcondition:
        lines.append(f"POSTCONDITION {postcondition}")
    lines.append("CHECK_DEADLOCK FALSE")
    return "\n".join(lines) + "\n"


ACTIONS = ["PushInsert", "PollSelect", "PollUpdate", "AckDelete", "ReschedUpdate", "ExtendUpdate", "SweepSelect",
           "MoveDelete", "MoveInsert", "ReplayDelete", "ReplayInsert", "Commit", "CrashClient", "Expire", "Deliver",
           "LeaseLapse"]


def action_coverage(out: str) -> dict[str, int]:
    """-coverage 1 output -> action -> distinct states it produced.  TLC names a disjunct of
    ClientStep / TimeStep by its position when it sits under a state-dependent quantifier; the action
    is then read off that line of Queue.tla."""
    with open(os.path.join(tlc.SPEC_DIR, "Queue.tla")) as fh:
        lines = fh.read().splitlines()
    res: dict[str, int] = {}
    for m in re.finditer(r"<(\w+) line (\d+), col \d+ to line \d+, col \d+ of module Queue(?: \((\d+) \d+ \d+ \d+\))?>: (\d+):(\d+)", out):
        name = m.group(1)
        if m.group(3):
            mm = re.search(r"(\w+)\([^)]*\)\s*(?:\\\*.*)?$", lines[int(m.group(3)) - 1])
            if mm:
                name = mm.group(1)
        res[name] = res.get(name, 0) + int(m.group(4))
    return res


def labels_from_error_trace(out: str) -> list[dict]:
    """TLC error trace -> the `lbl` of every state after the initial one."""
    labs = []
    for m in re.finditer(r"lbl = \[([^\]]*?ret \|-> <<[^>]*>>[^\]]*)\]", out, re.S):
        body = m.group(1)
        a = re.search(r'a \|-> "(\w+)"', body).group(1)
        c = re.search(r"c \|-> \"?(\w+)\"?", body).group(1)
        arg = int(re.search(r"arg \|-> (\d+)", body).group(1))
        rs = re.search(r"ret \|-> <<(.*?)>>", body, re.S).group(1).strip()
        ret = []
        for tok in [t.strip() for t in rs.split(",")] if rs else []:
            if tok in ("TRUE", "FALSE"):
                ret.append(tok == "TRUE")
            elif tok.isdigit():
                ret.append(int(tok))
            else:
                ret.append(tok.strip('"'))
        if a != "Init":
            labs.append({"a": a, "c": c, "arg": arg, "ret": ret})
    return labs


class Graph:
    """State graph exported by MC_Queue (S / E lines)."""

    def __init__(self) -> None:
        self.states: dict[str, str] = {}                   # key -> state as the JSON text TLC printed (parsed lazily)
        self.out: dict[str, list[tuple[str, str]]] = {}    # key -> [(label json, key')]
        self.root: str | None = None
        self.nedges = 0

    @classmethod
    def parse(cls, out: str) -> "Graph":
        g = cls()
        seen = set()
        for ln in out.splitlines():
            if not ln.startswith('"'):
                continue
            try:
                s = json.loads(ln)
            except ValueError:
                continue
            if s.startswith("S "):
                _, key, js = s.split(" ", 2)
                if g.root is None:
                    g.root = key
                g.states[key] = js
            elif s.startswith("E "):
                _, k1, k2, js = s.split(" ", 3)
                if (k1, k2, js) in seen:
                    continue
                seen.add((k1, k2, js))
                g.out.setdefault(k1, []).append((js, k2))
        g.nedges = len(seen)
        return g

    def check(self) -> str | None:
        if self.root is None:
            return "no states exported"
        for k, es in self.out.items():
            if k not in self.states:
                return "edge from unknown state " + k
            labs = {}
            for js, k2 in es:
                if k2 not in self.states:
                    return "edge to unknown state " + k2       # pruned by the depth bound
                if labs.setdefault(js, k2) != k2:
                    return "label does not determine the successor: " + js
        return None

    def _hop(self, k: str, unc: dict, hops: int):
        """Shortest path (<= hops edges, bounded search) from k to a state with an uncovered out-edge."""
        par = {k: None}
        frontier = [k]
        for _ in range(hops):
            nxt = []
            for u in frontier:
                for js, v in self.out.get(u, []):
                    if v in par:
                        continue
                    par[v] = (u, js)
                    if unc.get(v):
                        path = []
                        while par[v] is not None:
                            pu, pjs = par[v]
                            path.append((pu, pjs, v))
                            v = pu
                        path.reverse()
                        return path
                    nxt.append(v)
            frontier = nxt
            if len(par) > 400:
                break
        return None

    def cover(self, rng: random.Random, max_len: int = 60, hops: int = 4) -> list[list[tuple[str, str, str]]]:
        """Walks from the root covering every edge: shortest path to the source of an uncovered edge,
        then greedily along uncovered edges (with short hops over covered ones when stuck)."""
        parent: dict[str, tuple[str, str] | None] = {self.root: None}
        order = [self.root]
        for k in order:
            for js, k2 in self.out.get(k, []):
                if k2 not in parent:
                    parent[k2] = (k, js)
                    order.append(k2)
        depth = {self.root: 0}
        for k in order[1:]:
            depth[k] = depth[parent[k][0]] + 1
        unc = {k: list(es) for k, es in self.out.items() if k in parent}
        for es in unc.values():
            rng.shuffle(es)
        pending = [k for k in order if unc.get(k)]
        pending.sort(key=lambda k: -depth[k])      # deepest sources first: their prefixes cover a lot
        walks = []
        for src in pending:
            while unc.get(src):
                path = []
                k = src
                while parent[k] is not None:
                    pk, js = parent[k]
                    path.append((pk, js, k))
                    k = pk
                path.reverse()
                for (pk, js, k2) in path:            # prefix edges count as covered too
                    try:
                        unc[pk].remove((js, k2))
                    except (ValueError, KeyError):
                        pass
                k = src
                limit = max_len + depth[src]
                while len(path) < limit:
                    if unc.get(k):
                        js, k2 = unc[k].pop()
                        path.append((k, js, k2))
                        k = k2
                        continue
                    hop = self._hop(k, unc, hops)
                    if hop is None:
                        break
                    path.extend(hop)
                    k = hop[-1][2]
                walks.append(path)
        return walks


def export_graph(name: str, cfg: str, timeout: int = 900) -> tuple[Graph | None, tlc.TLCResult]:
    rd = tlc.new_rundir("c08-" + name)
    try:
        r = tlc.run_tlc(rd, "MC_Queue", cfg, workers=1, timeout=timeout)
        if r.errors or r.rc != 0:
            return None, r
        g = Graph.parse(r.out)
        return g, r
    finally:
        shutil.rmtree(rd, ignore_errors=True)


# ---- predicted vs observed ---------------------------------------------------------------------------
DB_FIELDS = ("rows", "dlq", "nid", "ndlq", "order", "pushed", "gone")


def _norm_img(d: dict) -> dict:
    if "none" in d:
        return {"none": True}
    out = {k: d[k] for k in DB_FIELDS}
    out["rows"] = sorted(d["rows"], key=lambda r: r["id"])
    out["dlq"] = sorted(d["dlq"], key=lambda r: r["id"])
    out["pushed"] = sorted(d["pushed"])
    out["gone"] = sorted(d["gone"])
    return out


def predicted_obs(st: dict) -> dict:
    """TLC state (MC_Queue!St as JSON) -> the shape QSim.observe() produces."""
    return {"db": _norm_img(st["db"]),
            "txn": {"owner": st["txn"]["owner"], "img": _norm_img(st["txn"]["img"])},
            "cl": {x["c"]: {"pc": x["r"]["pc"], "held": x["r"]["held"]["id"]} for x in st["cl"]}}


def diff_obs(pred: dict, obs: dict) -> list[str]:
    out = []
    o = {"db": _norm_img(obs["db"]), "txn": {"owner": obs["txn"]["owner"], "img": _norm_img(obs["txn"]["img"])},
         "cl": obs["cl"]}
    for k in DB_FIELDS:
        if pred["db"][k] != o["db"][k]:
            out.append(f"db.{k}: predicted {pred['db'][k]} observed {o['db'][k]}")
    if pred["txn"]["owner"] != o["txn"]["owner"]:
        out.append(f"txn.owner: predicted {pred['txn']['owner']} observed {o['txn']['owner']}")
    elif pred["txn"]["img"] != o["txn"]["img"]:
        for k in DB_FIELDS:
            if pred["txn"]["img"].get(k) != o["txn"]["img"].get(k):
                out.append(f"txn.img.{k}: predicted {pred['txn']['img'].get(k)} observed {o['txn']['img'].get(k)}")
    for c in pred["cl"]:
        if pred["cl"][c] != o["cl"].get(c):
            out.append(f"client {c}: predicted {pred['cl'][c]} observed {o['cl'].get(c)}")
    return out


def run_labels(path: str, clients: list[str], labels: list[dict], expected: list[dict] | None = None,
               qmax: int = QMAX, poison=()) -> dict:
    """Drive the real queue along `labels`.  Returns {'events': trace for TLC, 'mismatch': first
    difference from `expected` (predicted states) or None, 'diverged': str|None}."""
    sim = QSim(path, clients, qmax, poison)
    events, mismatch, diverged = [], None, None
    try:
        for i, lab in enumerate(labels):
            try:
                r = sim.step(lab)
                obs = sim.observe()
            except Diverged as e:
                diverged = f"step {i + 1} {lab['a']}({lab['c']},{lab['arg']}): {e}"
                break
            ev = {"a": lab["a"], "c": lab["c"], "arg": lab["arg"], "ret": r["ret"], "s": obs}
            events.append(ev)
            if r["ev"][0] == "exc":
                diverged = f"step {i + 1} {lab['a']}({lab['c']}): real operation raised {r['ev'][1]}"
                break
            if expected is not None:
                d = diff_obs(expected[i], obs)
                want = jret(lab["ret"])
                if r["ret"] != "*" and r["ret"] != want:
                    d.append(f"return/position: predicted {want} observed {r['ret']}")
                if d:
                    mismatch = {"step": i + 1, "label": lab, "diff": d}
                    break
    finally:
        sim.close()
    return {"events": events, "mismatch": mismatch, "diverged": diverged}


def validate_traces(traces: list[dict], nclients: int, nmsgs: int, switches: dict, timeout: int = 1200,
                    qmax: int = QMAX) -> dict:
    """TLC judges recorded histories of the real queue against Queue.tla (Trace_Queue)."""
    res = {"accepted": 0, "rejected": [], "failed": [], "machinery": None, "states": 0, "events": 0, "wall": 0.0}
    if not traces:
        return res
    rd = tlc.new_rundir("c08-trace")
    try:
        tf = os.path.join(rd, "traces.json")
        with open(tf, "w") as fh:
            json.dump([{"events": t["events"]} for t in traces], fh)
        cfg = make_cfg(nclients, nmsgs, switches, replays=10 ** 6, crashes=10 ** 6, notfound=10 ** 6, fifo=True,
                       delayed=True, strings=True, init="TraceInit", next_="TraceNext", view=False, qmax=qmax,
                       constraints=["TraceProgress"], action_constraints=["CheckActions"], postcondition="Accepted",
                       max_depth=10 ** 6)
        r = tlc.run_tlc(rd, "Trace_Queue", cfg, workers=1, env={"TRACE_FILE": tf}, timeout=timeout)
        res["wall"] = r.wall
        res["states"] = r.distinct
        res["events"] = sum(len(t["events"]) for t in traces)
        m = re.search(r'<<\s*"PREFIX"\s*,\s*<<([^>]*)>>\s*>>', r.out)
        i = r.out.find('"FAILED"')
        if m is None or i < 0 or r.errors:
            res["machinery"] = "TLC did not complete the trace batch:\n" + "\n".join(r.errors) + "\n" + r.out[-2500:]
            return res
        pref = [int(x) for x in re.findall(r"\d+", m.group(1))]
        seg = r.out[i:]
        j = seg.find("Model checking completed")
        seg = seg[:j] if j > 0 else seg
        failed = [(int(a), int(b), c, sorted(re.findall(r'"(\w+)"', d)))
                  for a, b, c, d in re.findall(r'<<\s*(\d+),\s*(\d+),\s*"(\w+)",\s*\{([^}]*)\}\s*>>', seg)]
        if len(pref) != len(traces):
            res["machinery"] = "PREFIX register has the wrong length"
            return res
        for k, (p, t) in enumerate(zip(pref, traces)):
            if p == len(t["events"]) + 1:
                res["accepted"] += 1
            else:
                res["rejected"].append({"trace": k, "at": p, "event": t["events"][p - 1] if p - 1 < len(t["events"]) else None})
        for (ti, pos, name, flags) in failed:
            res["failed"].append({"trace": ti - 1, "at": pos, "formula": name, "flags": flags})
        return res
    finally:
        shutil.rmtree(rd, ignore_errors=True)


# ======================================================================================================
# 3. Seeded random multi-client driver on the real queue (does not consult the model)
# ======================================================================================================
def random_history(path: str, clients: list[str], msgs: list[str], seed: int, nsteps: int, qmax: int = QMAX) -> dict:
    rng = random.Random(seed)
    sim = QSim(path, clients, qmax)
    events = []
    started: dict[str, str] = {}        # message -> client whose push is not committed yet
    budget = {"crash": 2, "replay": 3, "notfound": 2}
    note = None
    try:
        for _ in range(nsteps):
            obs = sim.observe()
            owner = obs["txn"]["owner"]
            rows, dlq = obs["db"]["rows"], obs["db"]["dlq"]
            cands = []
            for n, c in sim.clients.items():
                free = owner in ("Nobody", n)
                if c.parked is not None:
                    pc = PARK_PC.get(c.parked[0])
                    act = next((a for a, p in ADVANCE.items() if p == pc), None)
                    if act and free:
                        cands += [(6, {"a": act, "c": n, "arg": 0, "ret": []})]
                    if budget["crash"] > 0:
                        cands.append((1, {"a": "CrashClient", "c": n, "arg": 0, "ret": []}))
                    continue
                if free:
                    for m in msgs:
                        if m not in obs["db"]["pushed"] and m not in started:
                            cands.append((3, {"a": "PushInsert", "c": n, "arg": rng.choice([0, 0, 1]), "ret": [m],
                                              "ext": rng.random() < 0.4}))
                if c.held is None:
                    cands.append((3, {"a": "PollSelect", "c": n, "arg": 0, "ret": []}))
                    cands.append((1, {"a": "SweepSelect", "c": n, "arg": 0, "ret": []}))
                    if free and budget["replay"] > 0:
                        for d in range(1, obs["db"]["ndlq"]):
                            live = any(x["id"] == d for x in dlq)
                            if live or budget["notfound"] > 0:
                                cands.append((2 if live else 1, {"a": "ReplayDelete", "c": n, "arg": d, "ret": []}))
                elif free:
                    cands += [(2, {"a": "AckDelete", "c": n, "arg": 0, "ret": []}),
                              (3, {"a": "ReschedUpdate", "c": n, "arg": 0, "ret": []}),
                              (1, {"a": "ExtendUpdate", "c": n, "arg": 0, "ret": []})]
                if (c.held is not None or owner == n) and budget["crash"] > 0:
                    cands.append((1, {"a": "CrashClient", "c": n, "arg": 0, "ret": []}))
            if owner == "Nobody":
                for r in rows:
                    if r["lock"]:
                        cands.append((2, {"a": "Expire", "c": "Nobody", "arg": r["id"], "ret": []}))
                    if r["delayed"]:
                        cands.append((3, {"a": "Deliver", "c": "Nobody", "arg": r["id"], "ret": []}))
            if not cands:
                break
            lab = rng.choices([c for _, c in cands], weights=[w for w, _ in cands])[0]
            c = sim.clients.get(lab["c"])
            if lab["a"] in ("AckDelete", "ReschedUpdate", "ExtendUpdate"):
                lab["arg"] = int(c.held.message_id)
            if lab["a"] in ADVANCE:
                lab["arg"] = _advance_arg(lab["a"], c, obs)
            if lab["a"] == "PushInsert":
                started[lab["ret"][0]] = lab["c"]
            if lab["a"] == "CrashClient":
                budget["crash"] -= 1
                for m in [m for m, n in started.items() if n == lab["c"]]:
                    del started[m]
            if lab["a"] == "ReplayDelete":
                budget["replay"] -= 1
                if not any(x["id"] == lab["arg"] for x in dlq):
                    budget["notfound"] -= 1
            try:
                r = sim.step(lab)
                after = sim.observe()
            except Diverged as e:
                note = f"{lab}: {e}"
                break
            if lab["a"] == "Commit":
                for m in [m for m, n in started.items() if n == lab["c"]]:
                    del started[m]
            if lab["a"] == "PollSelect":
                rr = json.loads(r["ret"])
                lab["arg"] = rr[1] if rr[:1] == ["cand"] else 0
            events.append({"a": lab["a"], "c": lab["c"], "arg": lab["arg"], "ret": r["ret"], "s": after})
            if r["ev"][0] == "exc":
                note = f"{lab}: real operation raised {r['ev'][1]}"
                break
    finally:
        sim.close()
    return {"events": events, "note": note, "seed": seed}


def _advance_arg(a: str, c: Client, obs: dict) -> int:
    """The `arg` of the specification's label for a continuing step, where the harness can see it
    (-1 = not observed; the step is then identified by action, client and the state it lands in)."""
    p = c.parked[1] if c.parked else {}
    if a in ("PollUpdate", "MoveDelete"):
        return int(p.get("id", -1))
    return -1


# ======================================================================================================
# 4. Known-finding predicates (registered at import; entries proposed in docs/findings_C08.json)
# ======================================================================================================
def _won(lab):   # Commit of a poll that claimed row i
    return lab["a"] == "Commit" and lab["ret"][:1] == ["poll"] and len(lab["ret"]) == 4


def has_stale_reschedule(hist: list[dict]) -> bool:
    """A claims row i; i's lock lapses; B claims i; A (still holding its handle) reschedules i."""
    for t1, l1 in enumerate(hist):
        if not _won(l1):
            continue
        a, i = l1["c"], l1["ret"][1]
        lapsed = reclaimed = False
        for l2 in hist[t1 + 1:]:
            if l2["c"] == a and (l2["a"] == "CrashClient" or (l2["a"] == "Commit" and l2["ret"][:1] in (["ack"], ["resched"]))):
                break
            if l2["a"] == "Expire" and l2["arg"] == i:
                lapsed = True
            if lapsed and _won(l2) and l2["ret"][1] == i and l2["c"] != a:
                reclaimed = True
            if reclaimed and l2["a"] == "ReschedUpdate" and l2["c"] == a and l2["arg"] == i:
                return True
    return False


def has_sweep_in_flight(hist: list[dict]) -> bool:
    """B claims row i (its last attempt); before B releases it and before the lock lapses the DLQ
    sweep deletes row i."""
    for t1, l1 in enumerate(hist):
        if not _won(l1):
            continue
        b, i = l1["c"], l1["ret"][1]
        for l2 in hist[t1 + 1:]:
            if l2["c"] == b and l2["a"] == "Commit" and l2["ret"][:1] in (["ack"], ["resched"]):
                break
            if l2["a"] == "Expire" and l2["arg"] == i:
                break
            if l2["a"] == "MoveDelete" and l2["arg"] == i and l2["ret"][:1] == [True]:
                return True
    return False


def has_replay(hist: list[dict]) -> bool:
    return any(lab["a"] == "ReplayInsert" for lab in hist)


_PATTERN = {"staleResched": has_stale_reschedule, "sweptInFlight": has_sweep_in_flight, "replayLimit": has_replay}


def c08_defect(sig: dict, ctx: dict) -> bool:
    """The failing formula is one the finding names, the specification attributed the failure to this
    finding's defect flag, and the recorded history really contains the defect's operation pattern."""
    if ctx.get("formula") not in sig["formulas"]:
        return False
    d = sig["defect"]
    if d not in (ctx.get("flags") or []):
        return False
    return _PATTERN[d](ctx.get("history") or [])


findings.PREDICATES["c08_defect"] = c08_defect


# ======================================================================================================
# 5. Worker processes (all work on the real queue happens in a fork pool; the parent only runs TLC)
# ======================================================================================================
_W: dict = {}


def _w_init(base: str, env: dict | None = None) -> None:
    os.environ.update(env or {})
    install_hooks()
    _W["db"] = os.path.join(base, f"q{os.getpid()}.db")


def w_replay_walks(args) -> dict:
    """walks: [[(label json, predicted state json), ...], ...] -> per walk the number of steps that
    conformed, and the failures."""
    clients, walks = args[0], args[1]
    poison = args[2] if len(args) > 2 else ()
    res = {"walks": 0, "steps": 0, "ok_steps": [], "bad": []}
    for w in walks:
        labels = [json.loads(js) for js, _ in w]
        exp = [predicted_obs(json.loads(st)) for _, st in w]
        r = run_labels(_W["db"], clients, labels, exp, poison=poison)
        if r["mismatch"] or r["diverged"]:
            r2 = run_labels(_W["db"], clients, labels, exp, poison=poison)      # must be reproducible to count
            if not (r2["mismatch"] or r2["diverged"]):
                r = r2
        res["walks"] += 1
        res["steps"] += len(r["events"])
        if r["mismatch"] or r["diverged"]:
            res["bad"].append({"labels": labels, "mismatch": r["mismatch"], "diverged": r["diverged"]})
            res["ok_steps"].append((r["mismatch"]["step"] - 1) if r["mismatch"] else len(r["events"]))
        else:
            res["ok_steps"].append(len(labels))
    return res


def w_run_labels(args) -> dict:
    clients, labels, qmax = args
    return run_labels(_W["db"], clients, labels, None, qmax)


def w_random(args) -> dict:
    seed, clients, msgs, nsteps = args
    return random_history(_W["db"], clients, msgs, seed, nsteps)


# ======================================================================================================
# 6. The check
# ======================================================================================================
DEFECTS = {
    # defect flag -> switch that models it (value as coded / repaired), and the small configuration whose
    # shortest counter-example (BFS, one worker) is the signature history of the finding
    "staleResched": {"switch": "FencedOps", "coded": "FALSE", "fixed": "TRUE", "qmax": 3, "formulas": ["OneHolder"],
                     "cex": dict(nclients=3, nmsgs=1, replays=0, crashes=0, notfound=0, qmax=3, invariants=["OneHolder"]),
                     "cex_switches": {"SweepLocked": "FALSE"}},
    "sweptInFlight": {"switch": "SweepLocked", "coded": "TRUE", "fixed": "FALSE", "qmax": QMAX, "formulas": ["OneHolder"],
                      "cex": dict(nclients=2, nmsgs=1, replays=1, crashes=0, notfound=0, invariants=["OneHolder"]),
                      "cex_switches": {"AllowStaleOps": "FALSE"}},
    # ("replayLimit" - replay_dlq re-inserting with the column default max_attempts - was repaired in /repo by
    #  640e2a4: AS_CODED now has ReplayDefaultLimit = FALSE, so a return of that behaviour is a conformance
    #  rejection / ReplayUnchanged failure like any other; the switch stays in Queue.tla for the live-ascoded-replay
    #  model configuration that documents the stranded-row lasso.)
    # not a defect of C08 but a coded behaviour the binding depends on (observation O1)
    "danglingTxn": {"switch": "DanglingTxn", "coded": "TRUE", "fixed": "FALSE", "qmax": QMAX, "observation": True,
                    "formulas": [],
                    "cex": dict(nclients=1, nmsgs=1, replays=1, crashes=0, notfound=1, invariants=["NoDanglingTxn"]),
                    "cex_switches": {"AllowStaleOps": "FALSE", "SweepLocked": "FALSE", "ReplayDefaultLimit": "FALSE"}},
}


def _tlc_job(name, root, cfg, workers, extra=None, timeout=1400):
    rd = tlc.new_rundir("c08-" + name)
    try:
        return name, tlc.run_tlc(rd, root, cfg, workers=workers, extra=extra or [], timeout=timeout)
    finally:
        shutil.rmtree(rd, ignore_errors=True)


def _export_job(name, cfg, base, timeout=1500):
    rd = tlc.new_rundir("c08-" + name)
    try:
        r = tlc.run_tlc(rd, "MC_Queue", cfg, workers=1, timeout=timeout)
        gfile = os.path.join(base, f"graph-{name}.txt")
        with open(gfile, "w") as fh:
            fh.write("\n".join(ln for ln in r.out.splitlines() if ln.startswith('"')))
        r.out = "\n".join(ln for ln in r.out.splitlines() if not ln.startswith('"'))
        return name, r, gfile
    finally:
        shutil.rmtree(rd, ignore_errors=True)


def plan(tier: str) -> dict:
    q = tier != "thorough"
    mc = [
        # name, switches, kwargs, invariants, properties, workers
        ("intended-3c2m", INTENDED, dict(nclients=3, nmsgs=2, replays=1, crashes=1, notfound=1, delayed=not q,
                                         schema_max=QMAX, symmetry=True), SAFETY, ACTIONP, 5),
        ("repaired-" + ("2c2m" if q else "3c2m"), REPAIRED,
         dict(nclients=2 if q else 3, nmsgs=2, replays=1, crashes=1, notfound=1, schema_max=QMAX, symmetry=True),
         SAFETY, ACTIONP, 3 if q else 5),
    ]
    mc += [("intended-2c2m-poison", INTENDED, dict(nclients=2, nmsgs=2, replays=1, crashes=1, notfound=1, schema_max=QMAX,
                                                   poison=1, symmetry=False), SAFETY, ACTIONP, 4)]
    if q:
        mc += [("ascoded-3c1m-q3", AS_CODED, dict(nclients=3, nmsgs=1, replays=1, crashes=1, notfound=1, qmax=3,
                                                  symmetry=True), SAFETY_K, ACTIONP_K, 4),
               ("ascoded-2c2m", AS_CODED, dict(nclients=2, nmsgs=2, replays=1, crashes=0, notfound=1, symmetry=True),
                SAFETY_K, ACTIONP_K, 4)]
    else:
        # (3 clients x 2 messages WITH a crash is 23.1 M states / 9 min on 16 idle cores: run by hand once, passed)
        mc += [("ascoded-3c2m", AS_CODED, dict(nclients=3, nmsgs=2, replays=1, crashes=0, notfound=1, symmetry=True),
                SAFETY_K, ACTIONP_K, 8),
               ("ascoded-2c2m-c2", AS_CODED, dict(nclients=2, nmsgs=2, replays=1, crashes=2, notfound=1, symmetry=True),
                SAFETY_K, ACTIONP_K, 5),
               ("ascoded-3c1m-q3", AS_CODED, dict(nclients=3, nmsgs=1, replays=2, crashes=1, notfound=1, qmax=3,
                                                  delayed=True, symmetry=True), SAFETY_K, ACTIONP_K, 4),
               ("intended-2c2m-fifo-r2", INTENDED, dict(nclients=2, nmsgs=2, replays=2, crashes=2, notfound=1, fifo=True,
                                                        delayed=True, schema_max=QMAX, symmetry=False),
                SAFETY, ACTIONP, 4)]
    live = [
        ("live-intended", INTENDED, dict(nclients=2, nmsgs=1, replays=1, crashes=1, notfound=1, schema_max=QMAX), False),
        ("live-ascoded-replay", dict(INTENDED, ReplayDefaultLimit="TRUE"),
         dict(nclients=2, nmsgs=1, replays=1, crashes=0, notfound=0), True),
    ]
    if q:
        graphs = [
            # name, nclients, nmsgs, kwargs, share of the replay budget (None = proportional to #edges);
            # a graph that is covered before its share is used up passes the rest on to the next ones
            ("g3c1m", 3, 1, dict(replays=0, crashes=0, notfound=0), 0.3),
            ("g2c1m-replay", 2, 1, dict(replays=1, crashes=0, notfound=1), 0.3),
            ("g2c1m-crash", 2, 1, dict(replays=1, crashes=1, notfound=0, delayed=True), 0.2),
            ("g2c2m", 2, 2, dict(replays=0, crashes=0, notfound=0), 0.2),
            # a message of a type this build does not know: claimed, poll_one raises, swept at its limit, replayed unchanged
            ("g2c1m-poison", 2, 1, dict(replays=1, crashes=0, notfound=0, poison=1), 0.15),
        ]
    else:
        graphs = [
            ("g3c1m", 3, 1, dict(replays=0, crashes=0, notfound=0), None),
            ("g2c1m-replay", 2, 1, dict(replays=1, crashes=0, notfound=1), None),
            ("g2c1m-crash", 2, 1, dict(replays=1, crashes=1, notfound=1, delayed=True), None),
            ("g3c1m-replay", 3, 1, dict(replays=1, crashes=0, notfound=0), None),
            ("g2c2m", 2, 2, dict(replays=0, crashes=0, notfound=0, delayed=True), None),
            ("g2c1m-c2r2", 2, 1, dict(replays=2, crashes=2, notfound=1, delayed=True), None),
            ("g2c1m-poison", 2, 1, dict(replays=2, crashes=1, notfound=1, poison=1), None),
            ("g2c2m-poison", 2, 2, dict(replays=1, crashes=0, notfound=0, poison=1), None),
        ]
    if os.environ.get("VERIF_C08_BINDING_ONLY"):     # development aid (mutation runs): skip pure model checking
        mc, live = [], []
    return {"mc": mc, "live": live, "graphs": graphs,
            "replay_budget_s": 22 if q else 480, "random_traces": 128 if q else 1600, "random_steps": 80 if q else 120}


def run(pid: str, tier: str, seed: int) -> int:
    import multiprocessing as mp
    from concurrent.futures import ThreadPoolExecutor

    t0 = _time.time()
    rep = Reporter(pid)
    if os.environ.get("VERIF_C08_PROPOSED"):       # preview: behave as if docs/findings_C08.json were merged
        with open(os.path.join(os.path.dirname(tlc.SPEC_DIR), "docs", "findings_C08.json")) as fh:
            rep.findings += [f for f in json.load(fh) if f["status"] == "known"]
    pl = plan(tier)
    base = core.scratch_dir("c08")
    nproc = max(2, min(16, os.cpu_count() or 4))
    pool = mp.get_context("fork").Pool(nproc, initializer=_w_init, initargs=(base,))
    pool_wal = None
    if tier == "thorough":      # the same walks once more with journal_mode = WAL (both pools are forked before any thread exists)
        pool_wal = mp.get_context("fork").Pool(nproc, initializer=_w_init,
                                               initargs=(base, {"STABILIZE_SQLITE_JOURNAL_MODE": "WAL"}))
    cov: dict = {"tier": tier, "bounds": {"QMax": QMAX, "SchemaMax": SCHEMA_MAX, "clients": "2-3", "messages": "1-2"},
                 "model_checking": [], "liveness": [], "graphs": [], "defects": {}, "samples": []}
    nviol = 0
    try:
        # ---- phase 1: all TLC jobs concurrently ------------------------------------------------------
        jobs = []
        ex = ThreadPoolExecutor(max_workers=16)
        for name, sw, kw, invs, props, wk in pl["mc"]:
            cfg = make_cfg(switches=sw, invariants=invs, properties=props, **kw)
            jobs.append(("mc", name, sw, kw, ex.submit(_tlc_job, name, "Queue", cfg, wk, ["-coverage", "1"])))
        for name, sw, kw, expect_violation in pl["live"]:
            cfg = make_cfg(switches=sw, spec="LiveSpec", properties=["MovedAtLimit"], **kw)
            jobs.append(("live", name, sw, expect_violation, ex.submit(_tlc_job, name, "Queue", cfg, 2)))
        for d, info in DEFECTS.items():
            sw = dict(AS_CODED)
            sw.update(info["cex_switches"])
            cfg = make_cfg(switches=sw, **info["cex"])
            jobs.append(("cex", d, sw, info, ex.submit(_tlc_job, "cex-" + d, "Queue", cfg, 1)))
        for name, nc, nm, kw, share in pl["graphs"]:
            jobs.append(("graph", name, (nc, nm, kw, share), None, None))
        results = {}

        # ---- phase 1b: calibration - is each recorded defect (still) in the code? ---------------------
        # TLC's shortest counter-example of each defect is replayed on the real queue; TLC then judges
        # the recorded execution.  Confirmed: the failure is reported (and matched against the known
        # findings).  Not followed as coded but followed as repaired: the switch is flipped for the
        # binding, so a fix of /repo makes the finding disappear instead of raising false alarms.
        switches = dict(AS_CODED)
        cexs = []
        for kind, d, sw, info, fut in [j for j in jobs if j[0] == "cex"]:
            _, r = fut.result()
            labs = labels_from_error_trace(r.out) if r.violated else []
            cov["defects"][d] = {"model_counterexample_steps": len(labs), "tlc_states": r.distinct}
            if not labs:
                rep.machinery_failure(f"no model counter-example for recorded defect {d}:\n" + r.out[-1500:])
                continue
            clients = [f"c{i}" for i in range(1, info["cex"]["nclients"] + 1)]
            tr = pool.apply(w_run_labels, ((clients, labs, info["qmax"]),))
            cexs.append((d, info, labs, clients, tr))

        def judge(item, sw):
            d, info, labs, clients, tr = item
            return validate_traces([tr], info["cex"]["nclients"], info["cex"]["nmsgs"], sw, qmax=info["qmax"])

        with ThreadPoolExecutor(max_workers=4) as ex3:
            coded = list(ex3.map(lambda it: judge(it, AS_CODED), cexs))
        for (d, info, labs, clients, tr), v in zip(cexs, coded):
            entry = cov["defects"][d]
            if v["machinery"]:
                rep.machinery_failure(v["machinery"])
                continue
            hits = [f for f in v["failed"] if d in f["flags"] and f["formula"] in info["formulas"]]
            if info.get("observation") and v["accepted"] == 1 and not tr["diverged"]:
                entry["confirmed_on_code"] = True
                entry["history"] = [f"{x['a']}({x['c']},{x['arg']})" for x in labs]
                continue
            if v["accepted"] == 1 and hits and not tr["diverged"]:
                entry["confirmed_on_code"] = True
                entry["history"] = [f"{x['a']}({x['c']},{x['arg']})" for x in labs]
                for formula, flags in sorted({(f["formula"], tuple(f["flags"])) for f in hits}):
                    rep.violation(
                        f"{formula} fails on the real SqliteQueue along TLC's counter-example for defect '{d}': "
                        + " ".join(entry["history"]),
                        {"formula": formula, "flags": list(flags), "history": labs, "source": "model-cex-on-code"},
                        {"kind": "labels", "clients": clients, "nmsgs": info["cex"]["nmsgs"], "labels": labs,
                         "switches": dict(AS_CODED), "formula": formula, "qmax": info["qmax"]})
                continue
            # Not (fully) as coded.  Judge again relative to the switches calibrated so far: the history is
            # explained by the repaired model if that model matches a longer prefix (the steps behind the
            # distinguishing one were chosen for the as-coded model and mean nothing for the other).
            def prefix(vv):
                return len(tr["events"]) + 1 if vv["accepted"] == 1 else vv["rejected"][0]["at"]

            vb = v if switches == AS_CODED else judge((d, info, labs, clients, tr), switches)
            hits_b = [f for f in vb["failed"] if d in f["flags"] and f["formula"] in info["formulas"]]
            if vb["accepted"] == 1 and not tr["diverged"] and (info.get("observation") or hits_b):
                entry["confirmed_on_code"] = True
                entry["history"] = [f"{x['a']}({x['c']},{x['arg']})" for x in labs]
                if not info.get("observation"):
                    for formula, flags in sorted({(f["formula"], tuple(f["flags"])) for f in hits_b}):
                        rep.violation(f"{formula} fails on the real SqliteQueue along TLC's counter-example for defect '{d}'",
                                      {"formula": formula, "flags": list(flags), "history": labs, "source": "model-cex-on-code"},
                                      {"kind": "labels", "clients": clients, "nmsgs": info["cex"]["nmsgs"], "labels": labs,
                                       "switches": dict(switches), "formula": formula, "qmax": info["qmax"]})
                continue
            sw2 = dict(switches)
            sw2[info["switch"]] = info["fixed"]
            v2 = judge((d, info, labs, clients, tr), sw2)
            if not vb["machinery"] and not v2["machinery"] and prefix(v2) > prefix(vb):
                entry["confirmed_on_code"] = False
                entry["note"] = (f"the code follows the REPAIRED model for this defect (as coded matches {prefix(vb) - 1} steps, "
                                 f"repaired {prefix(v2) - 1}); switch flipped for the binding")
                switches[info["switch"]] = info["fixed"]
                print(f"NOTE: recorded defect {d} is not reproduced; the code follows the repaired specification")
            else:
                rj = (vb["rejected"] or [{}])[0]
                e = rj.get("event") or {}
                rep.violation(f"the real SqliteQueue follows Queue.tla neither as coded nor as repaired along TLC's shortest "
                              f"history for '{d}': {tr['diverged'] or ''} step {rj.get('at')} {e.get('a')}({e.get('c')},"
                              f"{e.get('arg')}) -> {e.get('ret')}",
                              {"formula": "Conformance", "flags": [], "history": labs, "source": "model-cex-on-code"},
                              {"kind": "labels", "clients": clients, "nmsgs": info["cex"]["nmsgs"], "labels": labs,
                               "switches": dict(switches), "formula": "Conformance", "qmax": info["qmax"]})
        cov["switches_used_for_binding"] = dict(switches)

        # ---- graph exports (need the calibrated switches) ---------------------------------------------
        gjobs = []
        for name, nc, nm, kw, share in pl["graphs"]:
            cfg = make_cfg(nc, nm, switches, fifo=True, invariants=["TypeOK", "ExportState"],
                           action_constraints=["ExportEdge"], constraints=["DepthBound"], max_depth=200, **kw)
            gjobs.append((name, nc, nm, kw, share, ex.submit(_export_job, name, cfg, base)))

        states = transitions = 0
        # ---- phase 2: replay the exported graphs on the real queue --------------------------------------
        ex_results = [(n, nc, nm, kw, share, f.result()) for n, nc, nm, kw, share, f in gjobs]
        budget = pl["replay_budget_s"]
        t_rep = _time.time()
        total_walks = total_steps = 0
        open_graphs = []
        for name, nc, nm, kw, share, (_, r, gfile) in ex_results:
            if r.errors or r.rc != 0:
                rep.machinery_failure(f"graph export {name} failed: " + "\n".join(r.errors[:3]) + r.out[-600:])
                continue
            with open(gfile) as fh:
                g = Graph.parse(fh.read())
            err = g.check()
            if err or len(g.states) != r.distinct:
                rep.machinery_failure(f"graph export {name}: {err or 'state lines %d != %d distinct states' % (len(g.states), r.distinct)}")
                continue
            states += r.distinct
            transitions += r.generated
            walks = g.cover(random.Random(seed))
            random.Random(seed + 1).shuffle(walks)
            open_graphs.append({"name": name, "nc": nc, "nm": nm, "kw": kw, "share": share or g.nedges, "g": g, "gfile": gfile,
                                "walks": walks, "states": r.distinct, "edges": g.nedges})
        if pool_wal is not None:
            for gi in [x for x in open_graphs if x["name"] in ("g3c1m", "g2c1m-replay")]:
                w2 = list(gi["walks"])
                random.Random(seed + 2).shuffle(w2)
                open_graphs.append(dict(gi, name=gi["name"] + "@WAL", walks=w2, wal=True, share=gi["share"] / 2))
        for gi in open_graphs:
            g = gi["g"]
            the_pool = pool_wal if gi.get("wal") else pool
            clients = [f"c{i}" for i in range(1, gi["nc"] + 1)]
            left = budget - (_time.time() - t_rep)
            rest = sum(x["share"] for x in open_graphs[open_graphs.index(gi):])
            deadline = _time.time() + max(3.0, left * gi["share"] / rest)
            walks = gi["walks"]
            chunks = [walks[i:i + 16] for i in range(0, len(walks), 16)]
            covered = set()
            nw = ns = 0
            bad = []
            pending = []
            it = iter(chunks)
            exhausted = False
            while True:
                while not exhausted and len(pending) < nproc + 4 and _time.time() < deadline:
                    ch = next(it, None)
                    if ch is None:
                        exhausted = True
                        break
                    payload = [[(js, g.states[k2]) for _, js, k2 in w] for w in ch]
                    pois = [f"m{i}" for i in range(1, gi["kw"].get("poison", 0) + 1)]
                    pending.append((ch, the_pool.apply_async(w_replay_walks, ((clients, payload, pois),))))
                if not pending:
                    break
                ch, fut = pending.pop(0)
                res = fut.get(timeout=900)
                nw += res["walks"]
                ns += res["steps"]
                for w, n_ok in zip(ch, res["ok_steps"]):
                    covered.update(w[:n_ok])
                bad += res["bad"]
                if _time.time() >= deadline:
                    exhausted = True
            total_walks += nw
            total_steps += ns
            acts = {}
            for (_, js, _) in covered:
                a = json.loads(js)["a"]
                acts[a] = acts.get(a, 0) + 1
            cov["graphs"].append({"graph": gi["name"], "clients": gi["nc"], "messages": gi["nm"], "bounds": gi["kw"],
                                  "states": gi["states"], "edges": gi["edges"], "edges_replayed_on_code": len(covered),
                                  "edge_coverage": round(len(covered) / max(1, gi["edges"]), 4),
                                  "walks_replayed": nw, "walks_total": len(walks), "steps_compared": ns,
                                  "mismatches": len(bad), "edges_replayed_by_action": acts})
            if nw and len(cov["samples"]) < 4:
                w = walks[0]
                cov["samples"].append({"graph": gi["name"], "walk": [
                    "%s(%s,%s)->%s" % (json.loads(js)["a"], json.loads(js)["c"], json.loads(js)["arg"],
                                       json.dumps(json.loads(js)["ret"])) for _, js, _ in w][:40]})
            seen_sig = set()
            for b in bad:
                lab = (b["mismatch"] or {}).get("label") or {}
                sig = (lab.get("a"), tuple((b["mismatch"] or {}).get("diff", [b["diverged"]]))[:1])
                if sig in seen_sig:
                    continue
                seen_sig.add(sig)
                what = (f"real SqliteQueue departs from Queue.tla in graph {gi['name']} at step "
                        f"{(b['mismatch'] or {}).get('step')} {lab.get('a')}({lab.get('c')},{lab.get('arg')}): "
                        + "; ".join((b["mismatch"] or {}).get("diff", [str(b["diverged"])]))[:300])
                rep.violation(what, {"formula": "Conformance", "flags": [], "history": b["labels"], "source": "replay"},
                              {"kind": "labels", "clients": clients, "nmsgs": gi["nm"], "labels": b["labels"],
                               "switches": dict(switches), "formula": "Conformance"})
        cov["replay_wall_s"] = round(_time.time() - t_rep, 1)

        # ---- phase 3: random driver on the real queue, histories judged by TLC ----------------------------
        t_rand = _time.time()
        n = pl["random_traces"]
        clients3, msgs2 = ["c1", "c2", "c3"], ["m1", "m2"]
        traces = pool.map(w_random, [(seed * 100003 + i, clients3, msgs2, pl["random_steps"]) for i in range(n)], chunksize=4)
        for t in traces:
            if t["note"]:
                rep.machinery_failure("random driver: " + t["note"])
        nb = 4 if tier != "thorough" else 12
        batches = [traces[i::nb] for i in range(nb)]
        with ThreadPoolExecutor(max_workers=nb) as ex2:
            verdicts = list(ex2.map(lambda b: validate_traces(b, 3, 2, switches), batches))
        acc = ev = 0
        rstates = 0
        per_formula: dict = {}
        classes: dict = {}
        seen_tf: set = set()
        for b, v in zip(batches, verdicts):
            if v["machinery"]:
                rep.machinery_failure(v["machinery"])
                continue
            acc += v["accepted"]
            ev += v["events"]
            rstates += v["states"]
            for rj in v["rejected"]:
                t = b[rj["trace"]]
                labs = [{"a": e["a"], "c": e["c"], "arg": e["arg"], "ret": _ret_list(e["ret"])} for e in t["events"][:rj["at"]]]
                e = rj["event"] or {}
                rep.violation(f"history of the real queue (random driver seed {t['seed']}) is not a behaviour of Queue.tla: "
                              f"step {rj['at']} {e.get('a')}({e.get('c')},{e.get('arg')}) -> {e.get('ret')}",
                              {"formula": "Conformance", "flags": [], "history": labs, "source": "trace"},
                              {"kind": "random", "seed": t["seed"], "clients": clients3, "msgs": msgs2,
                               "steps": pl["random_steps"], "switches": dict(switches), "formula": "Conformance"})
            for f in v["failed"]:
                key = (f["formula"], tuple(f["flags"]))
                per_formula[f["formula"]] = per_formula.get(f["formula"], 0) + (0 if (key, id(b), f["trace"]) in seen_tf else 1)
                seen_tf.add((key, id(b), f["trace"]))
                if key not in classes:
                    classes[key] = (b[f["trace"]], f)
        for (formula, flags), (t, f) in sorted(classes.items()):
            labs = [{"a": e["a"], "c": e["c"], "arg": e["arg"], "ret": _ret_list(e["ret"])} for e in t["events"][:f["at"]]]
            rep.violation(f"{formula} fails on a history of the real queue (random driver seed {t['seed']}, state {f['at']}; "
                          f"the specification attributes it to {list(flags) or 'nothing recorded'})",
                          {"formula": formula, "flags": list(flags), "history": labs, "source": "trace"},
                          {"kind": "random", "seed": t["seed"], "clients": clients3, "msgs": msgs2,
                           "steps": pl["random_steps"], "switches": dict(switches), "formula": formula})
        cov["random_driver"] = {"traces": n, "accepted_by_tlc": acc, "events": ev, "tlc_states": rstates,
                                "formula_failures_by_name": per_formula, "wall_s": round(_time.time() - t_rand, 1)}
        if traces and len(cov["samples"]) < 6:
            cov["samples"].append({"random_trace_seed": traces[0]["seed"],
                                   "events": [f"{e['a']}({e['c']},{e['arg']})->{e['ret']}" for e in traces[0]["events"][:30]]})
        # ---- collect the model-checking verdicts (the jobs ran beside phases 2 and 3) -------------
        for kind, name, sw, x, fut in jobs:
            if kind == "mc":
                _, r = fut.result()
                states += r.distinct
                transitions += r.generated
                ac = action_coverage(r.out)
                cov["model_checking"].append({"config": name, "switches": sw, "bounds": {k: v for k, v in x.items()},
                                              "distinct_states": r.distinct, "transitions": r.generated,
                                              "depth": r.depth, "wall_s": round(r.wall, 1), "exhaustive": r.rc == 0,
                                              "action_coverage": ac, "violated": r.violated})
                if r.violated:
                    nviol += _model_violation(rep, pool, name, r, x, switches)
                elif r.errors or r.rc != 0:
                    rep.machinery_failure(f"TLC did not finish {name} (rc={r.rc}, {r.distinct} states, {r.wall:.0f} s): "
                                          + "\n".join(r.errors[:3]) + r.out[-400:])
                else:
                    dead = [a for a in ACTIONS if ac.get(a, 0) == 0 and not (a == "LeaseLapse" and sw is INTENDED)]
                    if name in ("ascoded-3c1m-q3", "ascoded-2c2m-c2", "intended-3c2m") and dead:   # vacuity
                        rep.machinery_failure(f"vacuity: actions never taken in {name}: {dead}")
            elif kind == "live":
                _, r = fut.result()
                states += r.distinct
                transitions += r.generated
                bad = bool(r.violated) or bool(re.search(r"Temporal propert\w+ .*violated", r.out))
                cov["liveness"].append({"config": name, "switches": sw, "distinct_states": r.distinct,
                                        "property": "MovedAtLimit", "violated": bad, "expected_violated": x,
                                        "wall_s": round(r.wall, 1)})
                if (r.errors or r.rc != 0) and not bad:
                    rep.machinery_failure(f"TLC failed on {name}: " + "\n".join(r.errors[:3]) + r.out[-500:])
                elif bad and not x:
                    rep.violation("MovedAtLimit (a message at its limit ends in the DLQ) fails in the intended regime",
                                  {"formula": "MovedAtLimit", "flags": [], "history": [], "source": "model"},
                                  {"kind": "model", "config": name, "tail": r.out[-3000:]})
                elif x and not bad and switches.get("ReplayDefaultLimit") == "TRUE":
                    rep.machinery_failure(f"{name}: the stranded-row lasso was expected with ReplayDefaultLimit")

        ex.shutdown()
        states += rstates
        transitions += ev
        cov.update({"states": states, "transitions": transitions,
                    "traces_validated_against_impl": total_walks + acc + sum(1 for d in cov["defects"].values() if "confirmed_on_code" in d),
                    "walks_replayed": total_walks, "replay_steps_compared": total_steps,
                    "exhaustive": all(m["exhaustive"] for m in cov["model_checking"]),
                    "known_finding_hits": dict(rep.known_hits)})
    finally:
        for p_ in (pool, pool_wal):
            if p_ is not None:
                p_.terminate()
                p_.join()
        shutil.rmtree(base, ignore_errors=True)
    from . import evidence as _ev
    import glob
    for old_file in glob.glob(os.path.join(_ev.REPLAY, f"{pid}-viol*.json")):     # replay files of earlier runs
        try:
            os.remove(old_file)
        except OSError:
            pass
    rc = rep.finish()
    write_evidence(pid, tier, seed, "model_checking", cov, _time.time() - t0, violations=len(rep.violations),
                   assumptions=["time is abstract: locks / delays elapse by harness UPDATEs, never by sleeping",
                                "one SQLite file, DELETE journal mode, TZ=UTC, clients are threads with own connections",
                                "a client that meets another client's open write transaction waits (busy_timeout) - D3",
                                "property verdicts are TLC's; Python compares predicted with observed states"])
    return rc


def _ret_list(s: str):
    try:
        return json.loads(s)
    except ValueError:
        return [s]


def _model_violation(rep: Reporter, pool, name: str, r, kw: dict, switches: dict) -> int:
    """A property run that was expected to pass has a counter-example: replay it on the code first."""
    labs = labels_from_error_trace(r.out)
    clients = [f"c{i}" for i in range(1, kw["nclients"] + 1)]
    formula = (r.violated or ["?"])[0]
    if not labs:
        rep.machinery_failure(f"{name}: {formula} violated but no error trace could be parsed")
        return 0
    tr = pool.apply(w_run_labels, ((clients, labs),))
    v = validate_traces([tr], kw["nclients"], kw["nmsgs"], switches)
    if v["machinery"] or v["accepted"] != 1 or tr["diverged"]:
        rep.machinery_failure(f"{name}: model counter-example for {formula} is not followed by the code "
                              f"({tr['diverged']} {v['rejected'][:1]} {str(v['machinery'])[-300:]}) - the model is wrong")
        return 0
    flags = sorted({fl for f in v["failed"] for fl in f["flags"]})
    base = formula.replace("KP", "").replace("P", "") if formula.endswith("P") else formula.rstrip("K")
    rep.violation(f"{formula} violated in model configuration {name}; the real queue follows the counter-example: "
                  + " ".join(f"{x['a']}({x['c']},{x['arg']})" for x in labs),
                  {"formula": base, "flags": flags, "history": labs, "source": "model"},
                  {"kind": "labels", "clients": clients, "nmsgs": kw["nmsgs"], "labels": labs, "switches": dict(switches),
                   "formula": base})
    return 1


def replay(pid: str, path: str) -> int:
    """Re-run one recorded case on the current tree; TLC judges the recorded history."""
    with open(path) as fh:
        doc = json.load(fh)
    install_hooks()
    base = core.scratch_dir("c08r")
    try:
        db = os.path.join(base, "q.db")
        if doc["kind"] == "labels":
            tr = run_labels(db, doc["clients"], doc["labels"], None, doc.get("qmax", QMAX))
            nc, nm = len(doc["clients"]), doc["nmsgs"]
        elif doc["kind"] == "random":
            tr = random_history(db, doc["clients"], doc["msgs"], doc["seed"], doc["steps"])
            tr["diverged"] = tr["note"]
            nc, nm = len(doc["clients"]), len(doc["msgs"])
        else:
            print("model-level case (no implementation replay):", doc.get("config"))
            print(doc.get("tail", "")[-1500:])
            return 1
        v = validate_traces([tr], nc, nm, doc["switches"], qmax=doc.get("qmax", QMAX))
        if v["machinery"]:
            print("MACHINERY-FAILURE:", v["machinery"][-2000:])
            return 2
        failed = sorted({(f["formula"], tuple(f["flags"])) for f in v["failed"]})
        print(f"replayed {len(tr['events'])} steps; accepted by Queue.tla: {v['accepted'] == 1}; "
              f"diverged: {tr.get('diverged')}; rejected: {v['rejected'][:1]}; formulas false: {failed}")
        want = doc.get("formula")
        bad = (want == "Conformance" and (v["accepted"] != 1 or tr.get("diverged"))) or any(f == want for f, _ in failed)
        if bad:
            print(f"VIOLATION property={pid} replay={path}")
            return 1
        return 0
    finally:
        shutil.rmtree(base, ignore_errors=True)
