"""C07, engine level: two (or three) REAL handlers that touch one stage row concurrently, run in
baton-scheduled threads over the statement interleavings TLC enumerates for spec/Store.tla.

Pair "join": upstream CompleteStage handlers recording their branch in the `_completed_branches`
list of one DISCRIMINATOR / N_OF_M join stage (`_update_join_tracking`, handlers/complete_stage/
split_logic.py).  That code IS an instance of the Store specification: a plain `store_stage` with
`expected_phase`, re-reading the stage and retrying up to 5 times on ConcurrencyError (Retries = 4),
whose modification adds one element (the writer's branch) to a collection in the context.  So the
same module is model-checked with that configuration and its behaviours are replayed on the real
CompleteStageHandler: writer w = the handler completing upstream stage u<w>; the projection maps
"u<w> in _completed_branches" to the context key k<w>.  No acknowledged branch may be lost.

Pair "cancel": CancelStageHandler (writer 4) against CompleteTaskHandler (writer 3) on one RUNNING stage
with one RUNNING task.  Both read the stage, decide from what they read (Store.tla: Guarded - Skip,
TaskGuard), save transactionally under retry_on_concurrency_error.  Whatever the interleaving, the
stage ends CANCELED and the task ends SUCCEEDED exactly if its completion was saved (formula
CancelVsComplete): the acknowledged task status is never overwritten by the cancel, and vice versa.
"""
from __future__ import annotations

import json
import random
import shutil

from . import check_store as CS
from . import core


class JoinReplayer(CS.Replayer):
    def _setup(self, c: dict) -> None:
        from stabilize.models.stage import JoinType, StageExecution
        from stabilize.models.status import WorkflowStatus
        from stabilize.models.task import TaskExecution
        from stabilize.models.workflow import Workflow

        self.n += 1
        n = self.n
        self.wid, self.sid = f"wf{n}", f"d{n}"
        self.task_ids = {self._tid("t1")}
        self.aux_ids = {}
        wf = Workflow(id=self.wid, application="verif", name="c07-join", status=WorkflowStatus.RUNNING, start_time=1)
        self.ups = {}
        stages = []
        for w in c["writers"]:
            u = StageExecution(id=f"u{n}w{w}", ref_id=f"u{w}", type="verif", name=f"u{w}", status=WorkflowStatus.RUNNING,
                               start_time=1, context={},
                               tasks=[TaskExecution(id=f"{n}-u{w}t", name="ut", implementing_class="verif",
                                                    status=WorkflowStatus.SUCCEEDED, stage_start=True, stage_end=True,
                                                    start_time=1, end_time=2)])
            self.ups[w] = u
            stages.append(u)
        d = StageExecution(id=self.sid, ref_id="d", type="verif", name="d", context={"k1": 1},
                           requisite_stage_ref_ids={f"u{w}" for w in c["writers"]},
                           join_type=JoinType[c.get("join", "DISCRIMINATOR")], join_threshold=2,
                           tasks=[TaskExecution(id=self._tid("t1"), name="t1", implementing_class="verif",
                                                stage_start=True, stage_end=True)])
        stages.append(d)
        wf.stages = stages
        for s in stages:
            s.execution = wf
        self._wf = wf
        self.store.store(wf)

    def _job(self, c: dict):
        from stabilize.handlers.complete_stage import CompleteStageHandler
        from stabilize.queue.messages import CompleteStage
        from stabilize.resilience.config import HandlerConfig

        h = self.handlers.get("join")
        if h is None:
            h = CompleteStageHandler(self.queue, self.store,
                                     handler_config=HandlerConfig(concurrency_max_retries=3, concurrency_min_delay_ms=1,
                                                                  concurrency_max_delay_ms=1, concurrency_jitter=0.0))
            self.handlers["join"] = h
        wid, ups = self.wid, dict(self.ups)

        def job(wt) -> None:
            wt.stage = wt.aux = None
            try:
                h.handle(CompleteStage(execution_type="PIPELINE", execution_id=wid, stage_id=ups[wt.w].id))
                wt.res = "ok"
            except Exception as e:  # noqa: BLE001
                wt.res = "CE" if type(e).__name__ == "ConcurrencyError" else type(e).__name__ + ":" + str(e)[:200]

        return job

    def read_db(self, c: dict) -> dict:
        r = self.raw.execute("SELECT status, version, context, outputs FROM stage_executions WHERE id = ?", (self.sid,)).fetchone()
        ctx = json.loads(r[2] or "{}")
        keys = sorted(["k1"] if "k1" in ctx else []) + sorted("k" + b[1:] for b in ctx.get("_completed_branches", []))
        extra = sorted(k for k in ctx if k not in ("k1", "_completed_branches"))
        st = {"status": r[0], "ver": r[1], "ctx": sorted(keys + extra), "out": sorted(json.loads(r[3] or "{}"))}
        tk = {}
        for t in self.raw.execute("SELECT name, status, version FROM task_executions WHERE stage_id = ? ORDER BY id", (self.sid,)):
            tk[t[0]] = {"status": t[1], "ver": t[2]}
        return {"st": st, "tk": tk, "aux": {str(w): {"ver": 0, "ctx": ["k1"]} for w in c["writers"]}}

    def upstream_statuses(self) -> dict:
        return {w: self.raw.execute("SELECT status FROM stage_executions WHERE id = ?", (u.id,)).fetchone()[0]
                for w, u in self.ups.items()}


class CancelReplayer(CS.Replayer):
    def _setup(self, c: dict) -> None:
        from stabilize.models.stage import StageExecution
        from stabilize.models.status import WorkflowStatus
        from stabilize.models.task import TaskExecution
        from stabilize.models.workflow import Workflow

        self.n += 1
        n = self.n
        self.wid, self.sid = f"wf{n}", f"s{n}"
        self.task_ids = {self._tid("t1")}
        self.aux_ids = {}
        wf = Workflow(id=self.wid, application="verif", name="c07-cancel", status=WorkflowStatus.RUNNING, start_time=1)
        st = StageExecution(id=self.sid, ref_id="s", type="verif", name="s", status=WorkflowStatus.RUNNING, start_time=1,
                            context={"k1": 1},
                            tasks=[TaskExecution(id=self._tid("t1"), name="t1", implementing_class="verif",
                                                 status=WorkflowStatus.RUNNING, stage_start=True, stage_end=True, start_time=1)])
        wf.stages = [st]
        st.execution = wf
        self._wf = wf
        self.store.store(wf)

    def _job(self, c: dict):
        from stabilize.handlers.cancel_stage import CancelStageHandler
        from stabilize.handlers.complete_task import CompleteTaskHandler
        from stabilize.models.status import WorkflowStatus
        from stabilize.queue.messages import CancelStage, CompleteTask
        from stabilize.resilience.config import HandlerConfig

        hs = self.handlers.get("cancel")
        if hs is None:
            cfg = HandlerConfig(concurrency_max_retries=3, concurrency_min_delay_ms=1, concurrency_max_delay_ms=1, concurrency_jitter=0.0)
            hs = (CancelStageHandler(self.queue, self.store, handler_config=cfg),
                  CompleteTaskHandler(self.queue, self.store, handler_config=cfg))
            self.handlers["cancel"] = hs
        wid, sid, tid = self.wid, self.sid, self._tid("t1")

        def job(wt) -> None:
            wt.stage = wt.aux = None
            try:
                if wt.w == 4:
                    hs[0].handle(CancelStage(execution_type="PIPELINE", execution_id=wid, stage_id=sid))
                else:
                    hs[1].handle(CompleteTask(execution_type="PIPELINE", execution_id=wid, stage_id=sid, task_id=tid,
                                              status=WorkflowStatus.SUCCEEDED))
                wt.res = "ok"
            except Exception as e:  # noqa: BLE001
                wt.res = "CE" if type(e).__name__ == "ConcurrencyError" else type(e).__name__ + ":" + str(e)[:200]

        return job

    def read_db(self, c: dict) -> dict:
        d = super().read_db({**c, "writers": []})
        d["aux"] = {str(w): {"ver": 0, "ctx": ["k1"]} for w in c["writers"]}
        return d


CS.SCENARIOS["join"] = JoinReplayer
CS.SCENARIOS["cancel"] = CancelReplayer


def pair_configs(tier: str) -> list[dict]:
    th = tier == "thorough"
    cs = []
    for join in ("DISCRIMINATOR", "N_OF_M"):
        c = CS.mk(f"join-{join}-w2", phase=True, retries=4, status=(), task=(), outs=())
        c["join"] = join
        cs.append(c)
    c = CS.mk("join-N_OF_M-w3-sim", writers=(2, 3, 4), phase=True, retries=4, status=(), task=(), outs=(),
              simulate=4000 if th else 500)
    c["join"] = "N_OF_M"
    cs.append(c)
    if th:
        c = CS.mk("join-DISCRIMINATOR-w3", writers=(2, 3, 4), phase=True, retries=4, status=(), task=(), outs=(), reduced=True)
        c["join"] = "DISCRIMINATOR"
        cs.append(c)
    for c in cs:
        c["scenario"] = "join"
    c = CS.mk("cancel-vs-completetask", writers=(3, 4), txn=True, retries=3, status=(4,), task=(3, 4), outs=(), ctxs=(),
              guarded=True, init="RUNNING")
    c["scenario"] = "cancel"
    cs.append(c)
    return cs


def run_pairs(rep, tier: str, seed: int) -> dict:
    import concurrent.futures as cf

    rnd = random.Random(seed + 7)
    cs = pair_configs(tier)
    outdir = core.scratch_dir("c07pairs")
    try:
        with cf.ThreadPoolExecutor(max_workers=8) as ex:
            f_ex = {c["name"]: ex.submit(CS.export_behaviours, c, seed, outdir) for c in cs}
            f_mc = {c["name"]: ex.submit(CS.run_mc, c) for c in cs}
            mc = {k: f.result() for k, f in f_mc.items()}
            exported = {k: f.result() for k, f in f_ex.items()}
        out = {"pairs": ["two/three upstream CompleteStage handlers -> _completed_branches of one join stage",
                         "CancelStage handler vs CompleteTask handler on one running stage"],
               "configs": {}, "states": 0, "transitions": 0, "schedules_enumerated": 0, "schedules_replayed": 0}
        work = []
        for c in cs:
            m, e = mc[c["name"]], exported[c["name"]]
            if m["errors"] or not m["states"] or e["errors"] or not e["count"]:
                rep.machinery_failure(f"TLC failed on pair config {c['name']}: {m['errors'][:1]} {e['errors'][:1]} {m['out_tail'][-300:]}")
                continue
            for inv in m["violated"]:
                rep.violation(f"model: {inv} is violated in pair config {c['name']}", {"formula": inv, "source": "model", "config": c},
                              {"kind": "model", "config": c, "formula": inv})
            out["states"] += m["states"]
            out["transitions"] += m["transitions"]
            out["schedules_enumerated"] += e["count"]
            out["configs"][c["name"]] = {"states": m["states"], "behaviours": e["count"]}
            work.append((c, CS.pick_parts(e["chunks"], e["count"], 500 if tier == "quick" else 1000000, rnd)))
        n, fails, wall, per = 0, [], 0.0, {}
        for scen in ("join", "cancel"):
            n1, f1, w1, p1 = CS.replay_all([(c, parts) for c, parts in work if c["scenario"] == scen], "DELETE", None, scenario=scen)
            n, fails, wall = n + n1, fails + f1, wall + w1
            per.update(p1)
        out["schedules_replayed"] = n
        out["replay_wall_s"] = round(wall, 1)
        by = {c["name"]: c for c in cs}
        drift = 0
        for f in fails:
            c = by[f["config"]]
            doc = {"kind": "pair", "scenario": c["scenario"], "config": c, "behaviour": f["behaviour"], "journal": f["journal"],
                   "failure": {k: f[k] for k in ("kind", "at", "what", "expected", "observed")}}
            if f["kind"] == "machinery":
                rep.machinery_failure(f"pair replay {f['config']}#{f['beh']}: {f['what']}")
            elif f["kind"] == "statement":
                drift += 1
            else:
                rep.violation(f"{f['config']} schedule {f['beh']}: {f['what']}; expected {json.dumps(f['expected'])[:300]} "
                              f"observed {json.dumps(f['observed'])[:300]}",
                              {"formula": "Conformance", "source": "pair-replay", "config": c, "failure": doc["failure"]}, doc)
        out["statement_drift"] = drift
        if drift:
            ex0 = next(f for f in fails if f["kind"] == "statement")
            msg = f"{drift} pair schedules left the specification's statement sequence, e.g. {ex0['config']}#{ex0['beh']}: {ex0['what']}"
            print("DRIFT: " + msg)
        # schedules off the specification's statement sequence, judged by its terminal states (all of them when the
        # handlers' statement sequence drifted and the lock-step replay decides nothing)
        drifted = drift > max(3, n // 100)
        out["free_schedules"] = CS.free_component(rep, [c for c, _ in work], exported, "thorough" if drifted else tier, rnd)
        out["free_schedules"]["statement_sequence_drifted"] = drifted
        for name, (k, b) in per.items():
            out["configs"][name]["replayed"] = k
            if b and "sample" not in out:
                out["sample"] = {"config": name, "schedule": CS.beh_signature(b), "final_row": b["final"]["db"]["st"]}
        return out
    finally:
        shutil.rmtree(outdir, ignore_errors=True)


def replay(pid: str, path: str, doc: dict) -> int:
    n, fails, _, _ = CS.replay_all([(doc["config"], [([doc["behaviour"]], 0, None)])], doc.get("journal", "DELETE"),
                                   None, scenario=doc.get("scenario", "join"))
    for f in fails:
        print("replayed:", f["kind"], f["what"], "expected", f["expected"], "observed", f["observed"])
    if any(f["kind"] == "projection" for f in fails):
        print(f"VIOLATION property={pid} replay={path}")
        return 1
    if fails:
        return 2
    print("replayed 1 schedule: the real handlers agree with the specification")
    return 0
