"""Shared machinery of the Engine-based checks (C01-C06, C09, C10, C14, C15, C17, ...):
reference runs, trace generation in a process pool, TLC trace validation, TLC model checking,
classification against known findings, evidence."""
from __future__ import annotations

import concurrent.futures as cf
import json
import multiprocessing as mp
import os
import re
import shutil
import time
from typing import Any

from . import tlc, tracecheck
from .oracle import reference
from .programs import oracle_tla, to_tla

NPROC = int(os.environ.get("VERIF_NPROC", "16"))


def _pool() -> cf.ProcessPoolExecutor:
    return cf.ProcessPoolExecutor(max_workers=NPROC, mp_context=mp.get_context("spawn"))


def _job(spec):
    from .scenarios import job

    return spec.get("name") or spec["prog"]["name"], job(spec)


def run_jobs(jobs: list[dict]) -> dict[str, list[dict]]:
    out: dict[str, list[dict]] = {}
    if not jobs:
        return out
    with _pool() as ex:
        for name, traces in ex.map(_job, jobs, chunksize=1):
            out.setdefault(name, []).extend(traces)
    return out


def references(progs: list[dict]) -> dict[str, dict]:
    """Fault-free in-order run of every program on the real engine -> oracle record."""
    res = run_jobs([{"kind": "fifo", "prog": p} for p in progs])
    refs = {}
    for p in progs:
        tr = res[p["name"]][0]
        fin = tr["meta"].pop("final")
        refs[p["name"]] = {"oracle": reference(p, fin), "trace": tr, "commits": tr["meta"]["commits"],
                           "execs": len(fin["ledger"]),
                           "steps": sum(1 for e in tr["events"] if e["e"] == "dedup")}
    return refs


def validate_all(progs: list[dict], traces: dict[str, list[dict]], refs: dict[str, dict], check_props,
                 batch: int = 400) -> dict[str, list[tracecheck.TraceVerdict]]:
    tasks = []
    for p in progs:
        ts = traces.get(p["name"], [])
        groups: dict[bool, list[int]] = {}
        for i, t in enumerate(ts):
            groups.setdefault(bool((t.get("meta") or {}).get("trust")), []).append(i)
        for trust, idx in groups.items():
            for j in range(0, len(idx), batch):
                tasks.append((p, idx[j:j + batch], {"TrustNegative": "TRUE" if trust else "FALSE"}))
    out: dict[str, list] = {}

    def one(task):
        p, idx, consts = task
        ts = traces[p["name"]]
        v = tracecheck.validate(p, [ts[i] for i in idx], check_props=check_props, consts=consts,
                                extra_program=oracle_tla(refs[p["name"]]["oracle"]))
        for r in v.rejected:
            r["trace"] = idx[r["trace"]]
        for r in v.failed:
            r["trace"] = idx[r["trace"]]
        return p["name"], v

    with cf.ThreadPoolExecutor(max_workers=max(1, NPROC // 2)) as ex:
        for name, v in ex.map(one, tasks):
            out.setdefault(name, []).append(v)
    return out


# ----- model checking ----------------------------------------------------------------------------
class MCResult:
    def __init__(self) -> None:
        self.generated = self.distinct = self.depth = 0
        self.wall = 0.0
        self.viols: list[dict] = []       # {formula, step, state}
        self.machinery: str | None = None
        self.coverage: dict[str, int] = {}
        self.config: dict = {}
        self.quiet_outcomes: list[str] = []


VIOL_RE = re.compile(r'<<\s*"VIOL",\s*"(\w+)",\s*"([\w-]*)",\s*"((?:[^"\\]|\\.)*)"\s*>>', re.S)


def model_check(prog: dict, ref: dict, consts: dict, check_props, depth: int = 400, workers: int = 4,
                simulate: str | None = None, timeout: int = 1500, coverage: bool = False) -> MCResult:
    res = MCResult()
    res.config = {"program": prog["name"], "consts": consts, "depth": depth, "simulate": simulate}
    rd = tlc.new_rundir("mc-" + prog["name"])
    try:
        extra = oracle_tla(ref["oracle"])
        extra["CheckProps"] = "{" + ", ".join('"%s"' % p for p in check_props) + "}"
        extra["MaxDepth"] = str(depth)
        cfg = tlc.cfg_text(consts, view="View", constraints=["NoViolation", "DepthBound"],
                           action_constraints=["NoActionViolation"])
        extra_args = []
        if simulate:
            extra_args += ["-simulate", simulate, "-depth", str(depth)]
        if coverage:
            extra_args += ["-coverage", "1"]
        r = tlc.run_tlc(rd, "MC_Engine", cfg, workers=workers, program_tla=to_tla(prog, extra), timeout=timeout,
                        extra=extra_args)
        res.wall = r.wall
        res.generated, res.distinct, res.depth = r.generated, r.distinct, r.depth
        if simulate:
            m = re.search(r"(\d+) states checked", r.out) or re.search(r"(\d+) states generated", r.out)
            if m:
                res.generated = res.distinct = int(m.group(1))
        seen = set()
        for m in VIOL_RE.finditer(r.out):
            formula, step, js = m.group(1), m.group(2), m.group(3)
            try:
                state = json.loads(js.encode().decode("unicode_escape"))
            except Exception:
                state = {"raw": js[:500]}
            key = (formula, step, json.dumps(state.get("st"), sort_keys=True), json.dumps(state.get("wf")))
            if key in seen:
                continue
            seen.add(key)
            res.viols.append({"formula": formula, "step": step, "state": state, "program": prog["name"]})
        if coverage:
            res.coverage = r.coverage()
        bad = [e for e in r.errors if "timed out" not in e or not simulate]
        if (r.rc != 0 and not (simulate and r.rc == 124)) or bad:
            res.machinery = "\n".join(r.errors) + "\n" + r.out[-2500:]
        return res
    finally:
        shutil.rmtree(rd, ignore_errors=True)


def model_check_all(tasks: list[tuple], par: int = 4) -> list[MCResult]:
    """tasks: (prog, ref, consts, check_props, kwargs)"""
    out = []
    with cf.ThreadPoolExecutor(max_workers=par) as ex:
        futs = [ex.submit(model_check, t[0], t[1], t[2], t[3], **t[4]) for t in tasks]
        for f in futs:
            out.append(f.result())
    return out


# ----- brief rendering for replay files ------------------------------------------------------------
def brief_state(s: dict | None) -> Any:
    if not s:
        return None
    return {"wf": s["wf"], "st": {k: v["status"] for k, v in s["st"].items()},
            "tk": {k: v["status"] for k, v in s["tk"].items()},
            "q": [m["id"] for m in s["q"]] if isinstance(s.get("q"), list) else None}


def now() -> float:
    return time.time()
