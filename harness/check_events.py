"""C12 'Replaying the event log reproduces the stored state' and C13 'Events and the state they
describe commit together' (DESIGN 3.5, 7).

Specification: spec/Events.tla (coupling between durable state changes and the event log, at commit
grain), spec/MC_Events.tla (model checking on small constants), spec/Trace_Events.tla (code -> spec
trace validation).  The REAL engine is driven with event sourcing configured on the SqliteEventStore
living in the SAME database file; every INSERT into `events`, every durable commit, every rollback,
every bus publication and every handler entry/exit is recorded with the projected statuses and the
events table.  TLC decides (a) whether each recorded step is an instance of an Events.tla action
landing in the logged state and (b) every property formula in every state of every trace.  For C12
the harness additionally calls the real EventReplayer.rebuild_workflow_state at quiescence, at every
prefix length and at several snapshot positions and logs the results as observations; TLC compares
them with the specification's Replay fold of the logged event prefix and with the store projection.

The Python side drives, records and projects; it never judges a property.
"""
from __future__ import annotations

import concurrent.futures as cf
import hashlib
import copy
import json
import multiprocessing as mp
import os
import random
import re
import shutil
import sys
import time
from typing import Any

from . import core
from . import findings, tlc
from .core import Hooks, VerifCrash
from .driver import MachineryError, Run
from .evidence import Reporter, write_evidence
from .programs import P, S, T, by_name, core_family, extra_family
from .project import Projector

NPROC = int(os.environ.get("VERIF_NPROC", "16"))

C13_FORMULAS = ["C13_NoPhantom", "C13_NoPhantomSkip", "C13_NoMissing", "C13_PublishAfterCommit", "C13_SeqMonotone"]
C12_FORMULAS = ["C12_ReplayBinding", "C12_ReplayMatches", "C12_ReplayMatchesCanceledTasks", "C12_Prefix",
                "C12_Snapshot", "C12_SnapshotData", "C12_SnapshotWfTimes"]
FORMULAS = {"C12": C12_FORMULAS, "C13": C13_FORMULAS}


# =================================================================================================
# Abstraction function: statuses + events table + snapshots table
# =================================================================================================
class EvProjector(Projector):
    """Projection used by Events.tla: status of the workflow / every stage / every task, the rows of
    the `events` table as [seq, typ, ent, status] (ent = "wf" | stage ref | task name; status =
    data.status or ""), the number of processed-message marks and the snapshots table."""

    def ent(self, etype: str, eid: str) -> str:
        if etype == "workflow":
            return "wf"
        if etype == "stage":
            return self.sref(eid)
        return self.tname(eid)

    def statuses(self) -> dict:
        w = self.c.execute("SELECT status, is_canceled FROM pipeline_executions WHERE id = ?", (self.wf_id,)).fetchone()
        st, tk = {}, {}
        for r in self.c.execute("SELECT id, ref_id, status FROM stage_executions WHERE execution_id = ?", (self.wf_id,)):
            self.stage_ref[r["id"]] = r["ref_id"]
            st[r["ref_id"]] = r["status"]
        for r in self.c.execute("SELECT t.id, t.name, t.status FROM task_executions t JOIN stage_executions s "
                                "ON t.stage_id = s.id WHERE s.execution_id = ?", (self.wf_id,)):
            self.task_name[r["id"]] = r["name"]
            tk[r["name"]] = r["status"]
        return {"wf": w["status"], "st": st, "tk": tk}

    dense = False      # True: the store also holds events of ANOTHER workflow; this workflow's events are reported with
                       # their rank among its own events (the global sequence numbers have gaps then)

    def event_rows(self, after: int = 0) -> list[list]:
        out = []
        if self.dense:
            rows = self.c.execute("SELECT sequence, event_type, entity_type, entity_id, data FROM events "
                                  "WHERE workflow_id = ? ORDER BY sequence", (self.wf_id,)).fetchall()
            rows = [(k, r) for k, r in enumerate(rows, start=1) if k > after]
        else:
            rows = [(r["sequence"], r) for r in self.c.execute(
                "SELECT sequence, event_type, entity_type, entity_id, data FROM events WHERE sequence > ? ORDER BY sequence",
                (after,))]
        for k, r in rows:
            try:
                d = json.loads(r["data"] or "{}")
            except Exception:
                d = {}
            out.append([k, r["event_type"], self.ent(r["entity_type"], r["entity_id"]), d.get("status") or ""])
        return out

    def event_count(self) -> int:
        if self.dense:
            return self.c.execute("SELECT COUNT(*) FROM events WHERE workflow_id = ?", (self.wf_id,)).fetchone()[0]
        return self.c.execute("SELECT COUNT(*) FROM events").fetchone()[0]

    def raw_as_of(self, k: int) -> int:
        """A global sequence number 'as of' which exactly the first k events of this workflow exist: the one just before
        its (k+1)-th event (so that events of other workflows lie in between), or the table's last one."""
        own = [r[0] for r in self.c.execute("SELECT sequence FROM events WHERE workflow_id = ? ORDER BY sequence", (self.wf_id,))]
        if k < len(own):
            return own[k] - 1
        return self.c.execute("SELECT COALESCE(MAX(sequence), 0) FROM events").fetchone()[0]

    def marks(self) -> int:
        return self.c.execute("SELECT COUNT(*) FROM processed_messages").fetchone()[0]

    def snapshots(self) -> list[dict]:
        return [{"ver": r["version"], "seq": r["sequence"]}
                for r in self.c.execute("SELECT version, sequence FROM snapshots ORDER BY version")]

    def qlen(self) -> int:
        return self.c.execute("SELECT COUNT(*) FROM queue_messages").fetchone()[0]


def ev_rec(row: list) -> dict:
    return {"seq": row[0], "typ": row[1], "ent": row[2], "st": row[3]}


class InjectedFault(Exception):
    """Permanent (non-transient) failure raised inside a completion transaction right after the
    event append (class name matches none of stabilize's transient / permanent name patterns)."""


class InjectedTimeout(Exception):
    """Same injection point, classified as TRANSIENT by stabilize.errors.is_transient (name pattern
    'timeout'): handlers re-raise it and the message is rescheduled."""


# =================================================================================================
# Driver: the shared Run with event sourcing, a bus subscriber and the fault plan of C13
# =================================================================================================
class EvRun(Run):
    """Run with event sourcing on the SqliteEventStore in the SAME database.

    Fixes over Run(events=True): the recorder / bus are configured again for every fresh worker
    (core.reset_volatile drops them at a simulated crash) and the synchronous subscriber is subscribed
    on the fresh bus; the trace carries the Events.tla projection instead of the Engine one.

    faults (all optional):
      crash_at            {k}: process kill right after durable commit k (inherited)
      crash_after_append  k  : process kill right after the k-th INSERT INTO events has executed, i.e.
                               at the next SQL statement (inside the open transaction when the append
                               joined one) or at the commit of an out-of-transaction append
      exc_after_append    (k, kind): raise kind in {'perm','transient'} at the first statement after the
                               k-th INSERT INTO events issued INSIDE a CompleteTask / CompleteStage transaction
      exc_at_append       (k, kind): the k-th INSERT INTO events issued inside a CompleteTask / CompleteStage transaction
                               fails itself (is not executed) with kind in {'perm','transient'}
      cas_conflict        k  : bump the stage row's version through a raw connection right before the
                               k-th `UPDATE stage_executions` issued by CompleteTask / CompleteStage
    """

    KEEP = {"init", "commit", "rollback", "append", "pub", "hbegin", "hret", "hraise", "hfail", "crash", "sweep",
            "sendcancel", "inject", "quiescent", "replay", "mksnap"}

    def __init__(self, prog: dict, tag: str = "evrun", faults: dict | None = None, keep: bool = False) -> None:
        super().__init__(prog, tag, events=True, keep=keep)
        self.faults = dict(faults or {})
        self.threaded = bool(self.faults.get("threaded"))     # every delivery on a fresh worker thread (driver.Run.deliver)
        self.foreign = bool(self.faults.get("foreign"))       # events of ANOTHER workflow are appended to the same store
        self.cur_h = ""
        self.n_append = 0
        self.n_append_txn = 0
        self.n_cas = 0
        self.seen_seq = 0
        self.seen_marks = 0
        self.bus_log: list[list] = []
        self.last_x: dict | None = None
        self.dropped = 0
        self._raise_next: BaseException | None = None
        self._crash_on_commit = False
        self.fired: list[str] = []
        self.proj: EvProjector | None = None

    # -- life cycle ------------------------------------------------------------------------------
    def start(self) -> None:
        from stabilize import SqliteQueue, SqliteWorkflowStore
        from stabilize.queue.messages import StartWorkflow

        from .programs import build_workflow
        from .project import HARNESS_DDL
        from .vtask import LEDGER

        core.reset_volatile()
        LEDGER.entries.clear()
        LEDGER.on_exec = self._on_exec
        Hooks.on_commit = self._on_commit
        Hooks.on_execute = self._on_execute
        Hooks.on_rollback = self._on_rollback
        self.quiet = True
        store = SqliteWorkflowStore(self.cs, create_tables=True)
        queue = SqliteQueue(self.cs)
        queue._create_table()
        self.raw = core.raw_connect(self.db)
        self.raw.executescript(HARNESS_DDL)
        wf = build_workflow(self.prog)
        store.store(wf)
        with store.transaction(queue) as txn:
            txn.push_message(StartWorkflow(execution_type=wf.type.value, execution_id=wf.id))
        self.proj = EvProjector(self.raw, self.wf_id)
        self.proj.dense = self.foreign
        self.boot()      # creates the event tables (quiet), configures recorder + bus, subscribes
        if self.foreign:
            self._foreign_event()
            self._foreign_event()
        self.seen_marks = self.proj.marks()
        self.quiet = False
        self.emit({"e": "init", "prog": prog_header(self.prog)})

    def boot(self) -> None:
        q = self.quiet
        self.quiet = True
        super().boot()                       # with_events=True -> _configure_events() for THIS worker
        from stabilize.events import get_event_bus

        get_event_bus().subscribe("verif-sync", self._on_pub)     # synchronous subscriber
        if self.prog.get("audit"):                                # a subscriber that REACTS by recording a follow-up event
            get_event_bus().subscribe("verif-audit", self._on_audit)
        self.quiet = q

    def _wrap(self) -> None:
        super()._wrap()
        run = self
        for mt, h in list(self.proc._handlers.items()):
            inner = h.handle

            def handle(message, _inner=inner, _mt=mt.__name__):
                if run.foreign:
                    run._foreign_event()
                run.cur_h = _mt
                run.emit({"e": "hbegin", "h": _mt, "ent": run._msg_ent(message),
                          "ms": getattr(getattr(message, "status", None), "name", "") or ""})
                try:
                    _inner(message)
                finally:
                    run.cur_h = ""

            h.handle = handle  # type: ignore[method-assign]

    def _foreign_event(self) -> None:
        """Another workflow (the decoy) shares the event store: one event of it, appended between two handlers through
        a connection of the harness (own commit, no engine transaction is open here)."""
        self.n_foreign = getattr(self, "n_foreign", 0) + 1
        typ = ("stage.started", "stage.completed", "task.completed")[self.n_foreign % 3]
        self.raw.execute("INSERT INTO events (event_id, event_type, timestamp, entity_type, entity_id, workflow_id, version, "
                         "data, correlation_id) VALUES (?, ?, '2000-01-01T00:00:00+00:00', ?, ?, 'A-decoy', 1, ?, 'decoy')",
                         (f"decoy-{self.n_foreign}", typ, typ.split(".")[0], f"decoy-{self.n_foreign % 2}",
                          json.dumps({"status": "SUCCEEDED"})))

    def _msg_ent(self, message) -> str:
        tid = getattr(message, "task_id", None)
        if tid:
            return self.proj.tname(tid)
        sid = getattr(message, "stage_id", None)
        if sid:
            return self.proj.sref(sid)
        return "wf"

    def close(self) -> None:
        Hooks.on_rollback = None
        super().close()

    # -- recording -------------------------------------------------------------------------------
    def obs(self) -> dict:
        """Durable observation attached to commit-like events."""
        new = self.proj.event_rows(self.seen_seq)
        if new:
            self.seen_seq = max(r[0] for r in new)
        m = self.proj.marks()
        mark = m > self.seen_marks
        self.seen_marks = m
        x = self.proj.statuses()
        same = x == self.last_x          # unchanged statuses are not repeated in the trace ("same")
        self.last_x = x
        return {"same": same, "x": {} if same else x, "nev": [ev_rec(r) for r in new], "evn": self.proj.event_count(),
                "mark": mark}

    def emit(self, ev: dict) -> None:
        if self.quiet or ev["e"] not in self.KEEP:
            return
        ev = {k: v for k, v in ev.items() if k not in ("s", "audit")}
        if ev["e"] in ("init", "commit", "rollback", "crash", "sweep", "sendcancel", "quiescent"):
            ev.update(self.obs())
            if ev["e"] == "commit" and not self.cur_h and ev["same"] and not ev["nev"]:
                self.dropped += 1        # poll / post-mark / ack outside any handler: a pure stutter of the
                return                   # projection (statuses and events table unchanged) is not recorded
        ev.setdefault("h", self.cur_h)
        ev["d"] = 0
        self.trace.append(ev)

    def _on_commit(self, conn) -> None:
        if self.quiet:
            return
        self.commit_no += 1
        self._raise_next = None          # the transaction of a pending injected exception is over
        if not self.in_sweep:
            self.emit({"e": "commit", "n": self.commit_no})
        if self._crash_on_commit:
            self._crash_on_commit = False
            self._pending_crash = False
            raise VerifCrash()
        if self.commit_no in self.crash_at:
            raise VerifCrash()

    def _on_rollback(self, conn) -> None:
        if self.quiet:
            return
        self._raise_next = None
        self.emit({"e": "rollback"})

    def _on_execute(self, conn, sql, args):
        if self.quiet:
            return None
        if self._raise_next is not None:
            ex, self._raise_next = self._raise_next, None
            raise ex
        new = super()._on_execute(conn, sql, args)       # pending crash, delivery control
        head = sql.lstrip()[:40].upper()
        if head.startswith("INSERT INTO EVENTS"):
            f = self.faults.get("exc_at_append")
            if f and bool(conn.in_transaction) and self.cur_h in ("CompleteTask", "CompleteStage") \
                    and f[0] == self.n_append_txn + 1 and "excat" not in self.fired:
                # the append ITSELF fails (a write fault of the event store): the statement is not executed
                self.fired.append("excat")
                p = args[0]
                self.emit({"e": "inject", "kind": "excat-" + f[1], "ent": self.proj.ent(p[3], p[4])})
                raise (InjectedFault if f[1] == "perm" else InjectedTimeout)("injected: event append failed")
            self._saw_append(conn, args)
        elif head.startswith("UPDATE STAGE_EXECUTIONS SET") and self.cur_h in ("CompleteTask", "CompleteStage"):
            self.n_cas += 1
            if self.faults.get("cas_conflict") == self.n_cas:
                sid = args[0]["id"]
                self.raw.execute("UPDATE stage_executions SET version = version + 1 WHERE id = ?", (sid,))
                self.fired.append("cas")
                self.emit({"e": "inject", "kind": "cas", "ent": self.proj.sref(sid)})
        return new

    def _saw_append(self, conn, args) -> None:
        p = args[0]
        try:
            d = json.loads(p[7] or "{}")
        except Exception:
            d = {}
        intx = bool(conn.in_transaction)
        self.n_append += 1
        self.emit({"e": "append", "intx": intx, "ev": {"seq": 0, "typ": p[1], "ent": self.proj.ent(p[3], p[4]),
                                                      "st": d.get("status") or ""}})
        if self.faults.get("crash_after_append") == self.n_append:
            self.fired.append("crash_after_append")
            if intx:
                self._pending_crash = True       # raised at the next SQL statement: mid-transaction
            else:
                self._crash_on_commit = True     # the append's own commit, then the kill
                self._pending_crash = True       # (or the next statement, whichever comes first)
        if intx and self.cur_h in ("CompleteTask", "CompleteStage"):
            self.n_append_txn += 1
            f = self.faults.get("exc_after_append")
            if f and f[0] == self.n_append_txn:
                self.fired.append("exc")
                self.emit({"e": "inject", "kind": "exc-" + f[1], "ent": self.proj.ent(p[3], p[4])})
                self._raise_next = (InjectedFault if f[1] == "perm" else InjectedTimeout)("injected after event append")

    def _on_pub(self, event) -> None:
        seq = event.sequence
        if self.foreign and seq:      # rank among this workflow's events (see EvProjector.dense)
            seq = self.raw.execute("SELECT COUNT(*) FROM events WHERE workflow_id = ? AND sequence <= ?",
                                   (self.wf_id, seq)).fetchone()[0]
        row = [seq, event.event_type.value, self.proj.ent(event.entity_type.value, event.entity_id),
               (event.data or {}).get("status") or ""]
        self.bus_log.append(row)
        self.emit({"e": "pub", "ev": ev_rec(row)})

    def _on_audit(self, event) -> None:
        """Audit-trail subscriber (Events.tla AuditRecord): a follow-up status.changed event through the real recorder."""
        if event.event_type.value not in self.prog["audit"]:
            return
        from stabilize.events import get_event_recorder
        from stabilize.models.status import WorkflowStatus

        get_event_recorder().record_status_change(event.entity_type, event.entity_id, event.workflow_id,
                                                  WorkflowStatus.RUNNING, WorkflowStatus.SUCCEEDED,
                                                  source_handler="verif-audit")

    def crash_restart(self) -> None:
        """After VerifCrash propagated: drop everything a killed process loses (open transaction,
        deferred publications, recorder, bus), build a fresh worker with event sourcing configured."""
        self.crashes += 1
        self.cur_h = ""
        self._raise_next = None
        self._pending_crash = False
        self._crash_on_commit = False
        core.reset_volatile()
        self.emit({"e": "crash"})
        self.boot()

    def sweep(self) -> None:
        super().sweep()

    # -- C12 observations ------------------------------------------------------------------------
    def quiescent(self) -> None:
        self.emit({"e": "quiescent", "qlen": self.proj.qlen()})

    def _view(self, state: dict) -> dict:
        st = {self.proj.sref(k): (v.get("status") or "none") for k, v in state["stages"].items()}
        tk = {self.proj.tname(k): (v.get("status") or "none") for k, v in state["tasks"].items()}
        flags = {"wfStart": state.get("start_time") is not None, "wfEnd": state.get("end_time") is not None,
                 "stStart": sorted(self.proj.sref(k) for k, v in state["stages"].items() if v.get("start_time")),
                 "stEnd": sorted(self.proj.sref(k) for k, v in state["stages"].items() if v.get("end_time")),
                 "tkStart": sorted(self.proj.tname(k) for k, v in state["tasks"].items() if v.get("start_time")),
                 "tkEnd": sorted(self.proj.tname(k) for k, v in state["tasks"].items() if v.get("end_time"))}
        return {"wf": state.get("status") or "none", "st": st, "tk": tk, "fl": flags}

    @staticmethod
    def _digest(state: dict) -> str:
        """Digest of everything the replayer rebuilt except the two workflow-level timestamps (they are
        compared through the wfStart / wfEnd flags, formula C12_SnapshotWfTimes)."""
        d = {k: v for k, v in state.items() if k not in ("start_time", "end_time")}
        return hashlib.sha256(json.dumps(d, sort_keys=True, default=str).encode()).hexdigest()[:16]

    def observe_replay(self, as_of: int | None) -> dict:
        """Real EventReplayer, no snapshot store.  as_of=None: full rebuild."""
        from stabilize.events import EventReplayer

        q = self.quiet
        self.quiet = True
        try:
            raw = as_of if (as_of is None or not self.foreign) else self.proj.raw_as_of(as_of)
            state = EventReplayer(self.event_store).rebuild_workflow_state(self.wf_id, as_of_sequence=raw)
        finally:
            self.quiet = q
        v = self._view(state)
        self.emit({"e": "replay", "full": as_of is None, "n": 0 if as_of is None else as_of, "p": 0,
                   "r": v, "dig": self._digest(state), "fdig": self._digest(state)})
        return state

    def observe_snapshot(self, p: int, as_ofs: list[int | None], version: int) -> None:
        """Save a snapshot of the state rebuilt as of sequence p through the real SnapshotStore, then
        rebuild through a snapshot-aware replayer (full, and as of the given sequences)."""
        from stabilize.events import EventReplayer, SnapshotStore

        q = self.quiet
        self.quiet = True
        try:
            plain = EventReplayer(self.event_store)
            R = (lambda n: n if (n is None or not self.foreign) else self.proj.raw_as_of(n))
            base = plain.rebuild_workflow_state(self.wf_id, as_of_sequence=R(p))
            snaps = SnapshotStore(self.event_store)
            snaps.create_workflow_snapshot(base, self.wf_id, version=version, sequence=R(p))
            rows = self.proj.snapshots()
            results = []
            snap_rep = EventReplayer(self.event_store, snapshot_store=snaps)
            for n in as_ofs:
                got = snap_rep.rebuild_workflow_state(self.wf_id, as_of_sequence=R(n))
                ref = plain.rebuild_workflow_state(self.wf_id, as_of_sequence=R(n))
                results.append((n, got, ref))
        finally:
            self.quiet = q
        self.emit({"e": "mksnap", "p": p, "ver": version, "rows": rows})
        for n, got, ref in results:
            self.emit({"e": "replay", "full": n is None, "n": 0 if n is None else n, "p": p,
                       "r": self._view(got), "dig": self._digest(got), "fdig": self._digest(ref)})

    def as_trace(self, meta: dict | None = None) -> dict:
        m = dict(meta or {})
        m["fired"] = list(self.fired)
        m["commits"] = self.commit_no
        m["appends"] = self.n_append
        m["appends_txn"] = self.n_append_txn
        m["cas_points"] = self.n_cas
        m["stutter_commits_not_recorded"] = self.dropped
        return {"prog": self.prog["name"], "program": self.prog, "meta": m, "events": self.trace}


def prog_header(prog: dict) -> dict:
    """What Events.tla needs to know about a program (carried by the init event of every trace)."""
    stages = [s for s in prog["stages"]]
    return {"name": prog["name"], "stages": [s["ref"] for s in stages],
            "tasks": [t["name"] for s in stages for t in s["tasks"]],
            "stageOf": {t["name"]: s["ref"] for s in stages for t in s["tasks"]},
            "cof": [s["ref"] for s in stages if s["cof"]],
            "nofailp": [s["ref"] for s in stages if not s["failp"]],
            "top": [s["ref"] for s in stages if not s["parent"]],
            "audit": list(prog.get("audit") or [])}


# =================================================================================================
# Drivers (each returns recorded traces of the REAL engine; none of them judges anything)
# =================================================================================================
def _expire_all(run: EvRun) -> None:
    for row in run.rows():
        if row["locked"]:
            run.expire(row["qid"])


def _observe(run: EvRun, observe: dict | None) -> None:
    """C12 observations at quiescence: full rebuild, every prefix length, snapshots at some positions."""
    if not observe:
        return
    run.observe_replay(None)
    last = run.seen_seq
    if observe.get("prefixes", True):
        for n in range(0, last + 1):
            run.observe_replay(n)
    pos = observe.get("snapshots")
    if pos == "all":
        pos = list(range(1, last + 1))
    elif pos == "some":
        rng = random.Random(observe.get("seed", 0))
        pos = sorted({1, max(1, last // 2), max(1, last - 1), last, rng.randint(1, max(1, last))}) if last else []
    for ver, p in enumerate(pos or [], start=1):
        ns = sorted({max(0, p - 1), p, min(last, p + 1), last})
        run.observe_snapshot(p, [None] + ns, ver)


def drive_fifo(prog: dict, faults: dict | None = None, observe: dict | None = None, sweeps: int = 1,
               max_steps: int = 2500) -> dict:
    """In-order run under the fault plan; after a simulated kill: restart, lock expiry, recovery sweep(s),
    drain.  Ends with a `quiescent` event (and the C12 observations when asked)."""
    faults = dict(faults or {})
    run = EvRun(prog, "evfifo", faults)
    try:
        run.start()
        if "crash_at" in faults:      # one kill point, or a list of them (the later ones may fall into the recovery)
            ca = faults["crash_at"]
            run.crash_at = set(ca) if isinstance(ca, (list, tuple)) else {ca}
        status = None
        state = {"recover": False}

        def body():
            if state["recover"]:          # restart: locks lapse, recovery sweep(s) - a later kill may fall in here
                _expire_all(run)
                for _ in range(sweeps):
                    run.sweep()
                state["recover"] = False
            run.drain(max_steps)

        for _round in range(5):
            crashed = run.run_protected(body)
            if not crashed:
                status = "quiescent" if not run.rows() else "stuck"
                break
            state["recover"] = True
        run.quiescent()
        _observe(run, observe)
        meta = {"kind": "fifo", "faults": faults, "drain": status, "observe": observe or {}, "sweeps": sweeps}
        return run.as_trace(meta)
    finally:
        run.close()


def drive_schedule(prog: dict, seed: int, p_withhold: float = 0.15, cancel_at: int = -1, max_steps: int = 700,
                   observe: dict | None = None, faults: dict | None = None, p_sweep: float = 0.0,
                   max_sweeps: int = 0) -> dict:
    """One seeded random delivery schedule (any visible message next, acks withheld with probability
    p_withhold and redelivered after a lock expiry, optional cancel request / recovery sweeps)."""
    rng = random.Random(seed)
    run = EvRun(prog, "evsched", faults)
    try:
        run.start()
        step = sweeps = 0

        def body():
            nonlocal step, sweeps
            while step < max_steps:
                step += 1
                if cancel_at == step:
                    run.send_cancel()
                rows = run.rows()
                if not rows:
                    break
                vis = [r for r in rows if not r["locked"] and not r["delayed"] and r["att"] < r["max"]]
                locked = [r for r in rows if r["locked"]]
                if max_sweeps > sweeps and rng.random() < p_sweep:
                    run.sweep()
                    sweeps += 1
                    continue
                if locked and (not vis or rng.random() < 0.25):
                    run.expire(rng.choice(locked)["qid"])
                    continue
                if vis:
                    r = rng.choice(vis)
                    run.deliver(r["qid"], ack=rng.random() >= p_withhold)
                    continue
                delayed = [r for r in rows if r["delayed"] and not r["locked"] and r["att"] < r["max"]]
                if delayed:
                    run.warp(min(delayed, key=lambda r: r["deliver_at"])["qid"])
                    continue
                if [r for r in rows if r["att"] >= r["max"]]:
                    run.dlq_sweep()
                    continue
                break

        for _round in range(3):
            if not run.run_protected(body):
                break
            _expire_all(run)
            run.sweep()
        run.quiescent()
        _observe(run, observe)
        return run.as_trace({"kind": "schedule", "seed": seed, "steps": step, "observe": observe or {},
                             "faults": faults or {},
                             "opts": {"p_withhold": p_withhold, "cancel_at": cancel_at, "max_steps": max_steps,
                                      "p_sweep": p_sweep, "max_sweeps": max_sweeps}})
    finally:
        run.close()


def ev_job(spec: dict) -> list[dict]:
    """Process-pool entry point (top-level, importable)."""
    prog = spec.get("prog") or by_name(spec["name"])
    out = []
    if spec["kind"] == "fifo":
        for f in spec.get("faults") or [None]:
            out.append(drive_fifo(prog, f, spec.get("observe"), spec.get("sweeps", 1)))
    elif spec["kind"] == "schedule":
        for seed in spec["seeds"]:
            out.append(drive_schedule(prog, seed, observe=spec.get("observe"), **spec.get("opts", {})))
    else:
        raise ValueError(spec["kind"])
    return out


def run_jobs(jobs: list[dict]) -> list[dict]:
    if not jobs:
        return []
    out: list[dict] = []
    with cf.ProcessPoolExecutor(max_workers=NPROC, mp_context=mp.get_context("spawn")) as ex:
        for traces in ex.map(ev_job, jobs, chunksize=1):
            out.extend(traces)
    return out


# =================================================================================================
# TLC: trace validation
# =================================================================================================
TRACE_CONSTS = {"Workers": '{"w1"}', "MaxCrashes": 0, "MaxRollbacks": 0, "MaxForce": 0, "MaxCancels": 0, "MaxSkips": 0,
                "TaskOutcomes": "{}", "Defect_SkipEventBeforeCommit": "TRUE", "Defect_ErrorPathNoEvent": "TRUE",
                "Defect_NoTaskCancelEvent": "TRUE"}


def trace_consts() -> dict:
    """As the code is: of the three named defects the specification can reproduce, `skip` and `errpath` were repaired
    in /repo (8d966bb, 3faa221); `taskcancel` (known finding) is still there.  To validate another tree list the
    defects it has in VERIF_EVENTS_DEFECTS (e.g. "skip,errpath,taskcancel" for the pinned commit, "" for all repaired)."""
    left = os.environ.get("VERIF_EVENTS_DEFECTS", "taskcancel").split(",")
    c = dict(TRACE_CONSTS)
    c["Defect_SkipEventBeforeCommit"] = "TRUE" if "skip" in left else "FALSE"
    c["Defect_ErrorPathNoEvent"] = "TRUE" if "errpath" in left else "FALSE"
    c["Defect_NoTaskCancelEvent"] = "TRUE" if "taskcancel" in left else "FALSE"
    return c


def cfg_consts(c: dict) -> str:
    return "CONSTANTS\n" + "".join(f"  {k} = {v}\n" for k, v in c.items())


class Verdict:
    def __init__(self) -> None:
        self.ntraces = self.accepted = self.events = self.states = 0
        self.rejected: list[dict] = []     # {trace, at, event, prev}
        self.failed: list[dict] = []       # {trace, at, formula}
        self.wall = 0.0
        self.machinery: str | None = None


def _parse(out: str, n: int):
    m = re.search(r'<<\s*"PREFIX"\s*,\s*<<([^>]*)>>\s*>>', out)
    pref = [int(x) for x in re.findall(r"\d+", m.group(1))] if m else None
    i = out.find('"FAILED"')
    failed = None
    if i >= 0:
        seg = out[i:]
        j = seg.find("Model checking completed")
        seg = seg[:j] if j > 0 else seg
        failed = [(int(a), int(b), c) for a, b, c in re.findall(r'<<\s*(\d+),\s*(\d+),\s*"(\w+)"\s*>>', seg)]
    return pref, failed


def validate_batch(traces: list[dict], props: list[str], tag: str = "ev", timeout: int = 1500) -> Verdict:
    """One TLC invocation (Trace_Events, -workers 1) over a batch of traces of any programs."""
    v = Verdict()
    v.ntraces = len(traces)
    if not traces:
        return v
    rd = tlc.new_rundir("tr-" + tag)
    try:
        tf = os.path.join(rd, "traces.json")
        with open(tf, "w") as fh:
            json.dump({"props": list(props), "traces": [{"events": t["events"]} for t in traces]}, fh)
        cfg = cfg_consts(trace_consts()) + "INIT TraceInit\nNEXT TraceNext\nCONSTRAINT Progress\nPOSTCONDITION Accepted\n" \
                                         "CHECK_DEADLOCK FALSE\n"
        r = tlc.run_tlc(rd, "Trace_Events", cfg, workers=1, env={"TRACE_FILE": tf}, timeout=timeout)
        v.wall = r.wall
        v.states = r.distinct
        v.events = sum(len(t["events"]) for t in traces)
        pref, failed = _parse(r.out, len(traces))
        if pref is None or len(pref) != len(traces) or failed is None or r.errors:
            v.machinery = "TLC did not complete the batch:\n" + "\n".join(r.errors[:5]) + "\n" + r.out[-3000:]
            return v
        for i, (p, t) in enumerate(zip(pref, traces)):
            n = len(t["events"])
            if p == n + 1:
                v.accepted += 1
            else:
                v.rejected.append({"trace": i, "at": p, "len": n, "event": t["events"][p - 1] if p - 1 < n else None,
                                   "prev": t["events"][p - 2] if p >= 2 else None})
        for (ti, pos, name) in failed:
            v.failed.append({"trace": ti - 1, "at": pos, "formula": name})
        return v
    finally:
        shutil.rmtree(rd, ignore_errors=True)


# =================================================================================================
# TLC: model checking of Events.tla on its own
# =================================================================================================
def mc_program(name: str, shape: dict[str, list[str]], cof=(), nofailp=(), audit=()) -> str:
    """Literal TLA+ record for a small program: shape = {stage: [task names]}."""
    stages = list(shape)
    tasks = [t for s in stages for t in shape[s]]
    so = " @@ ".join(f'"{t}" :> "{s}"' for s in stages for t in shape[s]) or "<<>>"

    def tset(xs):
        return "{" + ", ".join(f'"{x}"' for x in xs) + "}"

    return (f'[name |-> "{name}", stages |-> {tset(stages)}, tasks |-> {tset(tasks)}, '
            f'taskSeq |-> <<{", ".join(chr(34) + t + chr(34) for t in tasks)}>>, stageOf |-> ({so}), '
            f'cof |-> {tset(cof)}, nofailp |-> {tset(nofailp)}, top |-> {tset(stages)}, audit |-> {tset(audit)}]')


MC_PROGRAMS = {
    "s1t1": mc_program("s1t1", {"a": ["a.1"]}),
    "s1t2": mc_program("s1t2", {"a": ["a.1", "a.2"]}),
    "s2t11": mc_program("s2t11", {"a": ["a.1"], "b": ["b.1"]}),
    "s2t21": mc_program("s2t21", {"a": ["a.1", "a.2"], "b": ["b.1"]}),
    "s2cof": mc_program("s2cof", {"a": ["a.1"], "b": ["b.1"]}, cof=["a"]),
    "s1t1audit": mc_program("s1t1audit", {"a": ["a.1"]}, audit=["stage.completed", "task.completed", "stage.failed"]),
}
# specification action -> name of its coverage line (MC_Events wraps the parameterised ones)
MC_ACTIONS = {"Begin": "BeginEnv", "Return": "Return", "Raise": "MC_Raise", "StartWorkflowCommit": "StartWorkflowCommit",
              "StartStageClaim": "StartStageClaim", "StartStagePlan": "StartStagePlan", "StartTaskCommit": "StartTaskCommit",
              "CancelStageCommit": "CancelStageCommit", "ForceCommit": "Force", "AppendInTxn": "MC_AppendInTxn",
              "RecordOwn": "MC_RecordOwn", "Publish": "Publish", "AuditRecord": "AuditRecord", "CompleteTaskCommit": "CompleteTaskCommit",
              "CompleteStageCommit": "CompleteStageCommit", "CompleteStageErrorCommit": "CompleteStageErrorCommit",
              "SkipStageCommit": "SkipStageCommit", "CompleteWorkflowCommit": "CompleteWorkflowCommit",
              "Rollback": "MC_Rollback", "Crash": "MC_Crash"}
MC_VIOL_RE = re.compile(r'<<\s*"VIOL",\s*"(\w+)",\s*"(\w*)",\s*"((?:[^"\\]|\\.)*)"\s*>>', re.S)


class MCResult:
    def __init__(self, cfg: dict) -> None:
        self.config = cfg
        self.generated = self.distinct = self.depth = 0
        self.wall = 0.0
        self.viols: list[dict] = []
        self.viol_counts: dict[str, int] = {}
        self.coverage: dict[str, int] = {}
        self.machinery: str | None = None


def model_check(cfg: dict, props: list[str], workers: int = 4, timeout: int = 1400, coverage: bool = True) -> MCResult:
    """cfg: {name, programs[], consts{}, depth}.  Non-halting: failures are printed and pruned."""
    res = MCResult(cfg)
    rd = tlc.new_rundir("mcev-" + cfg["name"])
    try:
        with open(os.path.join(rd, "MC_EventsParams.tla"), "w") as fh:
            fh.write("---- MODULE MC_EventsParams ----\nEXTENDS TLC\nPrograms == {" + ",\n  ".join(MC_PROGRAMS[p] for p in cfg["programs"])
                     + "}\nCheckProps == {" + ", ".join(f'"{p}"' for p in ["TypeOK"] + list(props)) + "}\n"
                     + f"MaxDepth == {cfg.get('depth', 300)}\n====\n")
        consts = {"Workers": '{"w1"}', "MaxCrashes": 0, "MaxRollbacks": 0, "MaxForce": 0, "MaxCancels": 0, "MaxSkips": 0,
                  "TaskOutcomes": '{"SUCCEEDED", "TERMINAL"}', "Defect_SkipEventBeforeCommit": "TRUE",
                  "Defect_ErrorPathNoEvent": "TRUE", "Defect_NoTaskCancelEvent": "TRUE"}
        consts.update(cfg["consts"])
        text = cfg_consts(consts) + "INIT MCInit\nNEXT MCNext\nVIEW MCView\nCONSTRAINT NoViolation\nCONSTRAINT DepthBound\n" \
                                    "CHECK_DEADLOCK FALSE\n"
        r = tlc.run_tlc(rd, "MC_Events", text, workers=workers, timeout=timeout,
                        extra=["-coverage", "1"] if coverage else [])
        res.wall = r.wall
        res.generated, res.distinct, res.depth = r.generated, r.distinct, r.depth
        seen = set()
        for m in re.finditer(r'<<\s*"V",\s*"(\w+)",\s*"(\w*)"\s*>>', r.out):
            res.viol_counts[m.group(1)] = res.viol_counts.get(m.group(1), 0) + 1
        for m in MC_VIOL_RE.finditer(r.out):
            formula, actn, js = m.group(1), m.group(2), m.group(3)
            key = (formula, actn)
            if key in seen:
                continue
            seen.add(key)
            try:
                state = json.loads(js.encode().decode("unicode_escape"))
            except Exception:
                state = {"raw": js[:800]}
            res.viols.append({"formula": formula, "act": actn, "state": state})
        if coverage:
            cov: dict[str, int] = {}
            for m in re.finditer(r"<(\w+) line \d+, col \d+ to line \d+, col \d+ of module \w+(?: \([\d ]+\))?>: (\d+):(\d+)", r.out):
                cov[m.group(1)] = cov.get(m.group(1), 0) + int(m.group(3))
            res.coverage = {a: cov.get(n, 0) for a, n in MC_ACTIONS.items()}
        if r.rc != 0 or r.errors or not r.distinct:
            res.machinery = "\n".join(r.errors[:5]) + "\n" + r.out[-2500:]
        return res
    finally:
        shutil.rmtree(rd, ignore_errors=True)


# =================================================================================================
# Known findings proposed by this check (docs/findings_C12.json, docs/findings_C13.json)
# =================================================================================================
def _handler_window(trace: dict, at: int) -> list[dict]:
    """Events of the handler invocation that produced the state at position `at` (1-based, state =
    events consumed + 1): from its hbegin up to the last consumed event."""
    evs = trace["events"][:max(0, at - 1)]
    for i in range(len(evs) - 1, -1, -1):
        if evs[i]["e"] == "hbegin":
            return evs[i:]
    return evs


def pred_error_path_no_event(sig, ctx) -> bool:
    """C13_NoMissing, and the completion without event was written by CompleteStageHandler's
    `except Exception` path: a commit of a CompleteStage invocation that follows a rollback in the same
    invocation, sets the stage TERMINAL and appends nothing (model: action CompleteStageErrorCommit)."""
    if ctx.get("formula") != "C13_NoMissing":
        return False
    if ctx.get("source") == "model":
        return ctx.get("act") == "CompleteStageErrorCommit"
    tr, at = ctx.get("trace"), ctx.get("at")
    if not tr or not at:
        return False
    win = _handler_window(tr, at)
    if not win or win[0].get("h") != "CompleteStage" or win[-1]["e"] != "commit":
        return False
    ent = win[0]["ent"]
    return (any(e["e"] == "rollback" for e in win[:-1]) and not win[-1]["nev"]
            and win[-1]["x"]["st"].get(ent) == "TERMINAL")


def pred_skip_event_before_commit(sig, ctx) -> bool:
    """C13_NoPhantomSkip, and the phantom is the stage.skipped SkipStageHandler records in its own commit
    BEFORE its state transaction, left behind by a process kill between the two commits."""
    if ctx.get("formula") != "C13_NoPhantomSkip":
        return False
    if ctx.get("source") == "model":
        return ctx.get("act") == "Crash"
    tr, at = ctx.get("trace"), ctx.get("at")
    if not tr or not at:
        return False
    evs = tr["events"][:at - 1]
    if not evs or evs[-1]["e"] != "crash":
        return False
    prior = [e for e in evs[:-1] if e["e"] in ("commit", "hbegin")]
    return bool(prior) and prior[-1]["e"] == "commit" and prior[-1].get("h") == "SkipStage" \
        and [r["typ"] for r in prior[-1]["nev"]] == ["stage.skipped"]


def pred_formula(sig, ctx) -> bool:
    return ctx.get("formula") in sig.get("formulas", [])


findings.PREDICATES["c13_error_path_no_event"] = pred_error_path_no_event
findings.PREDICATES["c13_skip_event_before_commit"] = pred_skip_event_before_commit
findings.PREDICATES["c12_formula"] = pred_formula


# =================================================================================================
# The checks
# =================================================================================================
EXCLUDED = {"transientinf"}     # never quiesces (known C14 finding: unbounded transient retries)


def programs_for(pid: str, tier: str) -> tuple[list[dict], list[dict]]:
    core_ = [p for p in core_family() if p["name"] not in EXCLUDED]
    extra_ = [p for p in extra_family() if p["name"] not in EXCLUDED]
    if pid == "C13":
        # the same programs with a bus subscriber that reacts to completions by recording a follow-up event
        # through the real recorder (Events.tla AuditRecord): what it is handed must be committed already
        names = AUDIT_QUICK if tier == "quick" else [p["name"] for p in core_]
        for p in core_:
            if p["name"] in names:
                q = copy.deepcopy(p)
                q["name"] = p["name"] + "_audit"
                q["audit"] = ["stage.completed", "task.completed", "stage.failed"]
                extra_.append(q)
    return core_, extra_


AUDIT_QUICK = ["chain2", "termchain", "cof"]
THREADED_QUICK = ["chain2", "multitask", "termchain", "chain2_audit"]


def mc_configs(pid: str, tier: str) -> list[dict]:
    AS_CODE = {k: v for k, v in trace_consts().items() if k.startswith("Defect_")}    # all TRUE on the unchanged tree
    REPAIRED = {"Defect_SkipEventBeforeCommit": "FALSE", "Defect_ErrorPathNoEvent": "FALSE", "Defect_NoTaskCancelEvent": "FALSE"}

    def c(name, progs, cr, rb, fo, ca, sk, extra=None, info=False):
        d = {"MaxCrashes": cr, "MaxRollbacks": rb, "MaxForce": fo, "MaxCancels": ca, "MaxSkips": sk}
        d.update(extra or AS_CODE)
        return {"name": name, "programs": progs, "consts": d, "repaired": extra is REPAIRED, "info": info}

    if pid == "C13":
        out = [c("c13-s1t1-ascode", ["s1t1"], 1, 1, 1, 1, 1),
               c("c13-s1t1-cr2", ["s1t1"], 2, 1, 0, 1, 1),
               c("c13-s2t11-crash", ["s2t11"], 1, 0, 0, 0, 0),
               c("c13-s1t1-audit", ["s1t1audit"], 1, 1, 0, 0, 0),
               c("c13-s1t1-repaired", ["s1t1"], 1, 1, 1, 1, 1, REPAIRED)]
        if tier == "thorough":
            out += [c("c13-s1t1-all2", ["s1t1"], 2, 1, 1, 1, 1),
                    c("c13-s2t11-ascode", ["s2t11"], 1, 1, 0, 0, 0),
                    c("c13-s1t1-all2-repaired", ["s1t1"], 2, 1, 1, 1, 1, REPAIRED),
                    c("c13-s1t2-ascode", ["s1t2"], 1, 1, 1, 1, 1),
                    c("c13-s1t2-cr2rb2", ["s1t2"], 2, 2, 0, 0, 0),
                    c("c13-s2t21-crash", ["s2t21"], 1, 0, 0, 0, 0),
                    c("c13-s2cof-ascode", ["s2cof"], 1, 1, 0, 1, 1),
                    c("c13-s1t2-repaired", ["s1t2"], 1, 1, 1, 1, 1, REPAIRED),
                    c("c13-s2t11-repaired", ["s2t11"], 1, 1, 0, 1, 1, REPAIRED)]
        return out
    out = [c("c12-s1t2-ascode", ["s1t2"], 0, 0, 1, 1, 1),
           c("c12-s2t11-ascode", ["s2t11"], 0, 0, 0, 1, 1),
           c("c12-s2t11-repaired", ["s2t11"], 0, 0, 0, 1, 1, REPAIRED)]
    if tier == "thorough":
        out += [c("c12-s2t11-force", ["s2t11"], 0, 0, 1, 1, 1),
                c("c12-s2t21-ascode", ["s2t21"], 0, 0, 0, 1, 1),
                c("c12-s2cof-ascode", ["s2cof"], 0, 0, 1, 0, 1),
                c("c12-s2t21-repaired", ["s2t21"], 0, 0, 0, 1, 1, REPAIRED),
                c("c12-s2t11-force-repaired", ["s2t11"], 0, 0, 1, 0, 1, REPAIRED),
                # beyond the quantifier of C12 (one worker's delivery schedules): two workers
                c("c12-s1t1-2workers", ["s1t1"], 0, 0, 0, 1, 0, {"Workers": '{"w1", "w2"}'}, info=True)]
    return out


MC_PROPS = {"C13": C13_FORMULAS,
            "C12": ["C12_ReplayMatches", "C12_ReplayMatchesCanceledTasks", "C12_Prefix", "C12_Snapshot"]}


def chunks(xs, n):
    xs = list(xs)
    return [xs[i:i + n] for i in range(0, len(xs), n)]


def trace_jobs(pid: str, tier: str, seed: int, refs: dict[str, dict], core_: list[dict], extra_: list[dict]) -> list[dict]:
    rng = random.Random(seed)
    jobs: list[dict] = []
    thorough = tier == "thorough"
    if pid == "C12":
        nsched = 100 if thorough else 16
        for p in core_ + extra_:
            obs = {"prefixes": True, "snapshots": "all" if thorough else "some", "seed": seed}
            seeds = [rng.randrange(1, 10 ** 6) for _ in range(nsched)]
            for gi, grp in enumerate(chunks(seeds, 5)):
                # every other group: the event store is shared with another workflow (global sequence numbers with gaps)
                o = {"p_withhold": 0.15, "faults": {"foreign": True}} if gi % 2 == 0 else {"p_withhold": 0.15}
                jobs.append({"kind": "schedule", "prog": p, "seeds": grp, "observe": obs, "opts": o})
            jobs.append({"kind": "fifo", "prog": p, "faults": [{"foreign": True}], "observe": obs})
            steps = max(4, refs[p["name"]]["meta"]["commits"] // 4)
            cseeds = [rng.randrange(1, 10 ** 6) for _ in range(nsched // 2)]
            for grp in chunks(cseeds, 5):
                for sd in grp:     # a cancel request at a seeded step of the schedule
                    jobs.append({"kind": "schedule", "prog": p, "seeds": [sd], "observe": obs,
                                 "opts": {"p_withhold": 0.1, "cancel_at": 1 + sd % steps}})
        return jobs
    # C13
    for p in core_ + ([q for q in extra_ if q["name"] in ("disabled", "termmid", "stopped") or q.get("audit")]
                      if not thorough else extra_):
        m = refs[p["name"]]["meta"]
        pts = list(range(1, m["commits"] + 1))
        if not thorough:
            # quick: every commit made inside a handler, every 6th of the pure stutters between handlers
            # (poll / post-mark / ack: neither statuses nor the events table change); thorough: every commit
            inside = {e["n"] for e in refs[p["name"]]["events"] if e["e"] == "commit"}
            pts = [k for k in pts if k in inside or k % 6 == seed % 6]
        for grp in chunks(pts, 10):
            jobs.append({"kind": "fifo", "prog": p, "faults": [{"crash_at": k} for k in grp]})
        apps = [e for e in refs[p["name"]]["events"] if e["e"] == "append"]
        # kill right after the k-th INSERT INTO events: thorough every k; quick the appends made INSIDE a
        # transaction (mid-transaction kill) - after an out-of-transaction append it equals a crash_at point
        ks = [k for k, e in enumerate(apps, start=1) if thorough or e["intx"]]
        for grp in chunks(ks, 10):
            jobs.append({"kind": "fifo", "prog": p, "faults": [{"crash_after_append": k} for k in grp]})
        fl = [{"exc_after_append": [k, kind]} for k in range(1, m["appends_txn"] + 1) for kind in ("perm", "transient")]
        fl += [{"exc_at_append": [k, kind]} for k in range(1, m["appends_txn"] + 1) for kind in ("perm", "transient")]
        fl += [{"cas_conflict": k} for k in range(1, m["cas_points"] + 1)]
        for grp in chunks(fl, 10):
            jobs.append({"kind": "fifo", "prog": p, "faults": grp})
        if thorough or p["name"] in THREADED_QUICK:
            # a pool of workers: every delivery on a FRESH thread (own connections, first append of that thread inside
            # the completion transaction) - fault-free, an exception / a kill right after each in-transaction append
            tf = [{"threaded": True}]
            tf += [{"threaded": True, "exc_after_append": [k, "perm"]} for k in range(1, m["appends_txn"] + 1)]
            tf += [{"threaded": True, "crash_after_append": k} for k, e in enumerate(apps, start=1) if e["intx"]]
            for grp in chunks(tf, 8):
                jobs.append({"kind": "fifo", "prog": p, "faults": grp})
        if thorough:
            for grp in chunks(pts, 10):
                jobs.append({"kind": "fifo", "prog": p, "faults": [{"crash_at": k} for k in grp], "sweeps": 2})
            pairs = []
            for _ in range(24):           # two kills: the second one up to 25 commits after the first (recovery included)
                k1 = rng.randrange(1, m["commits"] + 1)
                pairs.append({"crash_at": [k1, k1 + rng.randrange(1, 26)]})
            for grp in chunks(pairs, 8):
                jobs.append({"kind": "fifo", "prog": p, "faults": grp})
            combos = [{"exc_after_append": [k, kind], "crash_at": rng.randrange(1, m["commits"] + 1)}
                      for k in range(1, m["appends_txn"] + 1) for kind in ("perm", "transient")]
            for grp in chunks(combos, 10):
                jobs.append({"kind": "fifo", "prog": p, "faults": grp})
    nsched = 12 if thorough else 3
    for p in core_ + extra_:
        m = refs[p["name"]]["meta"]
        seeds = [rng.randrange(1, 10 ** 6) for _ in range(nsched)]
        for grp in chunks(seeds, 4):
            jobs.append({"kind": "schedule", "prog": p, "seeds": grp, "opts": {"p_withhold": 0.15}})
        for sd in seeds[: max(1, nsched // 3)]:     # random delivery order AND a fault of the plan
            f = rng.choice([{"crash_at": rng.randrange(1, m["commits"] + 1)},
                            {"exc_after_append": [rng.randrange(1, max(1, m["appends_txn"]) + 1), rng.choice(["perm", "transient"])]},
                            {"cas_conflict": rng.randrange(1, max(1, m["cas_points"]) + 1)}])
            jobs.append({"kind": "schedule", "prog": p, "seeds": [sd], "opts": {"p_withhold": 0.1, "faults": f}})
    return jobs


def validate_all(traces: list[dict], props: list[str], batch: int = 40, par: int = 8) -> list[tuple[list[int], Verdict]]:
    """Batches of traces -> parallel single-worker TLC runs.  Returns (indices, verdict) per batch."""
    idx = sorted(range(len(traces)), key=lambda i: -len(traces[i]["events"]))
    nb = max(1, (len(idx) + batch - 1) // batch)
    groups = [idx[i::nb] for i in range(nb)]          # balanced by size
    out = []

    def one(g):
        return g, validate_batch([traces[i] for i in g], props)

    with cf.ThreadPoolExecutor(max_workers=par) as ex:
        for g, v in ex.map(one, groups):
            out.append((g, v))
    return out


def flag_and_revalidate(traces: list[dict], rejected: list[tuple[int, int]], props: list[str], rounds: int = 4):
    """DESIGN 5: a rejected trace is re-submitted with the unexplained line flagged (d = 1, the logged state is
    adopted) so that the property formulas keep being evaluated on the rest of it.  Returns the extra
    formula failures found that way: list of {trace, at, formula}."""
    found: dict[int, list[dict]] = {}
    pending = dict(rejected)
    copies = {i: json.loads(json.dumps(traces[i])) for i in pending}
    for _ in range(rounds):
        if not pending:
            break
        ids = sorted(pending)
        for i in ids:
            at = pending[i]
            if at - 1 < len(copies[i]["events"]):
                copies[i]["events"][at - 1]["d"] = 1
        v = validate_batch([copies[i] for i in ids], props, tag="adopt")
        if v.machinery:
            break
        pending = {ids[r["trace"]]: r["at"] for r in v.rejected}
        for i in ids:                      # the latest pass over a trace is the one that got furthest
            found[i] = []
        for f in v.failed:
            found[ids[f["trace"]]].append({"trace": ids[f["trace"]], "at": f["at"], "formula": f["formula"]})
    return [f for fs in found.values() for f in fs]


def corruptions(trace: dict) -> list[tuple[str, dict]]:
    """Binding self-test (DESIGN 4.4): three corrupted copies of an accepted execution; TLC must reject each."""
    out = []
    evs = trace["events"]
    ci = next(i for i, e in enumerate(evs) if e["e"] == "commit" and e.get("h") == "CompleteTask" and e["nev"])
    # 1. the completion commit logs the task still RUNNING (status and event no longer agree)
    t = json.loads(json.dumps(trace))
    ent = t["events"][ci]["nev"][0]["ent"]
    t["events"][ci]["x"]["tk"][ent] = "RUNNING"
    out.append(("status-flipped", t))
    # 2. the completion event is missing from the commit that completes the task
    t = json.loads(json.dumps(trace))
    t["events"][ci]["nev"] = []
    t["events"][ci]["evn"] -= 1
    out.append(("event-dropped", t))
    # 3. the subscriber saw the completion event BEFORE its transaction committed
    t = json.loads(json.dumps(trace))
    pi = next(i for i in range(ci, len(evs)) if evs[i]["e"] == "pub")
    pub = t["events"].pop(pi)
    t["events"].insert(ci, pub)
    out.append(("published-before-commit", t))
    return out


def brief_event(e: dict | None) -> Any:
    if not e:
        return None
    return {k: v for k, v in e.items() if k not in ("x", "r", "prog")}


def run(pid: str, tier: str, seed: int) -> int:   # noqa: C901
    t0 = time.time()
    rep = Reporter(pid)
    props = FORMULAS[pid]
    core_, extra_ = programs_for(pid, tier)
    by = {p["name"]: p for p in core_ + extra_}

    # ---- (a) model checking of Events.tla on its own, concurrently with the trace generation ----------
    cfgs = mc_configs(pid, tier)
    mc_pool = cf.ThreadPoolExecutor(max_workers=3 if tier == "quick" else 4)
    mc_futs = [mc_pool.submit(model_check, c, MC_PROPS[pid], 4, 1400 if tier == "thorough" else 90, True) for c in cfgs]

    # ---- (b) reference runs (fault-free, in order) give the commit / append / CAS counts -----------------
    ref_traces = run_jobs([{"kind": "fifo", "prog": p, "observe": ({"prefixes": True, "snapshots": "all"} if pid == "C12" else None)}
                           for p in core_ + extra_])
    refs = {t["prog"]: t for t in ref_traces}
    jobs = trace_jobs(pid, tier, seed, refs, core_, extra_)
    t_gen = time.time()
    traces = ref_traces + run_jobs(jobs)
    gen_wall = time.time() - t_gen

    # ---- binding self-test: corrupted copies of an accepted execution must be rejected by TLC ---------------
    base = next(t for t in ref_traces if t["prog"] == "chain2")
    cor = corruptions(base)
    cv = validate_batch([base] + [c for _, c in cor], props, tag="selftest")
    selftest = {"base_accepted": False, "rejected": {}}
    if cv.machinery:
        rep.machinery_failure("binding self-test: " + cv.machinery[-1500:])
    else:
        rej = {r["trace"] for r in cv.rejected}
        selftest["base_accepted"] = 0 not in rej
        selftest["rejected"] = {name: (i + 1) in rej for i, (name, _) in enumerate(cor)}
        if 0 in rej or not all(selftest["rejected"].values()):
            rep.machinery_failure(f"binding self-test failed: {selftest}")

    # ---- (c) TLC validates every recorded execution against Events.tla --------------------------------------
    t_val = time.time()
    res = validate_all(traces, props, batch=30 if tier == "quick" else 60, par=10)
    val_wall = time.time() - t_val
    n_acc = n_events = n_states = 0
    failed: list[dict] = []
    rejected: list[tuple[int, int]] = []
    for g, v in res:
        if v.machinery:
            rep.machinery_failure("trace validation: " + v.machinery)
            continue
        n_acc += v.accepted
        n_events += v.events
        n_states += v.states
        for r in v.rejected:
            rejected.append((g[r["trace"]], r["at"]))
        for f in v.failed:
            failed.append({"trace": g[f["trace"]], "at": f["at"], "formula": f["formula"]})
    if rejected and not rep.machinery:
        extra = flag_and_revalidate(traces, rejected[:60], props)
        seen = {(f["trace"], f["formula"]) for f in failed}
        failed += [f for f in extra if (f["trace"], f["formula"]) not in seen]

    def replay_doc(t: dict, formula: str, at: int) -> dict:
        return {"pid": pid, "kind": "trace", "program": t["program"], "meta": t["meta"], "formula": formula, "at": at}

    groups: dict[tuple, dict] = {}
    for ti, at in rejected:
        t = traces[ti]
        ev = t["events"][at - 1] if at - 1 < len(t["events"]) else None
        key = ("CONFORMANCE", (ev or {}).get("e"), (ev or {}).get("h"))
        g = groups.setdefault(key, {"n": 0, "first": (ti, at), "all": []})
        g["n"] += 1
        g["all"].append((ti, at))
    for f in failed:
        t = traces[f["trace"]]
        key = (f["formula"],)
        g = groups.setdefault(key, {"n": 0, "first": (f["trace"], f["at"]), "all": []})
        g["n"] += 1
        g.setdefault("all", []).append((f["trace"], f["at"]))
    n_viol_traces = 0
    for key, g in sorted(groups.items(), key=lambda kv: str(kv[0])):
        formula = key[0]
        insts = g.get("all") or [g["first"]]
        unmatched = []
        for (ti, at) in insts:      # every instance goes through the known-findings matcher
            t = traces[ti]
            before = len(rep.violations)
            ev = t["events"][at - 1] if at - 1 < len(t["events"]) else None
            prev = t["events"][at - 2] if at >= 2 else None
            what = (f"{formula} on a recorded execution of '{t['prog']}' ({t['meta']['kind']}, faults={t['meta'].get('faults')}, "
                    f"seed={t['meta'].get('seed')}) at position {at}: after {json.dumps(brief_event(prev))[:160]}"
                    + (f" the step {json.dumps(brief_event(ev))[:200]} is no instance of any Events.tla action" if formula == "CONFORMANCE" else ""))
            rep.violation(what, {"formula": formula, "source": "trace", "trace": t, "at": at, "program": t["program"]},
                          replay_doc(t, formula, at))
            if len(rep.violations) > before:
                unmatched.append(rep.violations.pop())
        if unmatched:
            n_viol_traces += len(unmatched)
            v0 = unmatched[0]
            progs = sorted({u["replay"]["program"]["name"] for u in unmatched})
            v0["what"] = f"[{len(unmatched)} recorded executions, programs {', '.join(progs[:12])}] " + v0["what"]
            rep.violations.append(v0)

    # ---- model-checking results ------------------------------------------------------------------------------
    mc_res = [f.result() for f in mc_futs]
    mc_pool.shutdown()
    mc_cov: dict[str, int] = {}
    mc_rows = []
    for r in mc_res:
        row = {"config": r.config["name"], "programs": r.config["programs"], "consts": r.config["consts"],
               "states": r.distinct, "transitions": r.generated, "depth": r.depth, "wall_s": round(r.wall, 1),
               "formula_failures": r.viol_counts, "informational": r.config.get("info", False)}
        mc_rows.append(row)
        if r.machinery:
            timed_out = "timed out" in r.machinery
            if not (timed_out and r.config.get("info")):
                rep.machinery_failure(f"model checking {r.config['name']}: " + r.machinery[-1500:])
            continue
        for a, n in r.coverage.items():
            mc_cov[a] = mc_cov.get(a, 0) + n
        if r.config.get("info"):
            continue
        for v in r.viols:
            what = (f"{v['formula']} is false in a state of the MODEL ({r.config['name']}, {r.config['consts']}) reached by "
                    f"{v['act']}: {json.dumps(v['state'])[:300]}")
            if r.config.get("repaired"):
                what = "[repaired design] " + what
            rep.violation(what, {"formula": v["formula"], "source": "model" if not r.config.get("repaired") else "model-repaired",
                                 "act": v["act"], "state": v["state"], "program": None},
                          {"pid": pid, "kind": "model", "config": r.config, "formula": v["formula"], "act": v["act"]})
    never = sorted(a for a in MC_ACTIONS if a != "StartStageReplan" and mc_cov.get(a, 0) == 0
                   and not (pid == "C12" and a == "AuditRecord"))      # the reacting subscriber belongs to C13's programs
    if pid == "C12":
        never = [a for a in never if a not in ("Raise", "Rollback", "Crash", "CompleteStageErrorCommit")]  # crash-free configs
    if never and not rep.machinery:
        rep.machinery_failure("vacuity: specification actions never taken in any model-checking config: " + ", ".join(never))

    # ---- vacuity of the binding ------------------------------------------------------------------------------------
    kinds: dict[str, int] = {}
    fired: dict[str, int] = {}
    obs_count = {"replay_full": 0, "replay_prefix": 0, "replay_snapshot": 0, "snapshots": 0}
    evkinds: dict[str, int] = {}
    for t in traces:
        k = t["meta"]["kind"] + ("+" + "+".join(sorted((t["meta"].get("faults") or {}).keys())) if t["meta"].get("faults") else "")
        kinds[k] = kinds.get(k, 0) + 1
        for f in t["meta"]["fired"]:
            fired[f] = fired.get(f, 0) + 1
        for e in t["events"]:
            evkinds[e["e"]] = evkinds.get(e["e"], 0) + 1
            if e["e"] == "replay":
                obs_count["replay_snapshot" if e["p"] else ("replay_full" if e["full"] else "replay_prefix")] += 1
            elif e["e"] == "mksnap":
                obs_count["snapshots"] += 1
    if pid == "C13" and not rep.machinery:
        for need in ("crash", "rollback", "pub", "append"):
            if not evkinds.get(need):
                rep.machinery_failure(f"vacuity: no '{need}' event in any recorded execution")
        for need in ("exc", "cas", "crash_after_append"):
            if not fired.get(need):
                rep.machinery_failure(f"vacuity: fault '{need}' never fired")
    if pid == "C12" and not rep.machinery:
        for need in ("replay_full", "replay_prefix", "replay_snapshot"):
            if not obs_count[need]:
                rep.machinery_failure(f"vacuity: no {need} observation")

    samples = []
    for t in traces[:1] + traces[len(ref_traces):len(ref_traces) + 2]:
        samples.append({"program": t["prog"], "meta": {k: v for k, v in t["meta"].items() if k != "observe"},
                        "events": len(t["events"]),
                        "excerpt": [brief_event(e) for e in t["events"] if e["e"] in ("append", "rollback", "crash", "pub", "inject")][:8]})
    for r in mc_res[:1]:
        for v in r.viols[:1]:
            samples.append({"model_state": v["state"], "formula": v["formula"], "config": r.config["name"]})
    rc = rep.finish()
    coverage = {
        "states": sum(r.distinct for r in mc_res) + n_states,
        "transitions": sum(r.generated for r in mc_res) + n_events,
        "model_checking": mc_rows,
        "model_states": sum(r.distinct for r in mc_res),
        "model_actions_coverage": mc_cov,
        "exhaustive": False,
        "exhaustive_scope": "within the constants of each model-checking config (bounded crashes / rollbacks / jumps); traces are enumerated "
                      "(every commit / append / CAS point of each program) or sampled (schedules)",
        "traces_validated_against_impl": len(traces),
        "traces_accepted": n_acc,
        "traces_rejected": len(rejected),
        "trace_events": n_events,
        "trace_states": n_states,
        "trace_kinds": kinds,
        "event_kinds": evkinds,
        "faults_fired": fired,
        "observations": obs_count,
        "formulas": props,
        "formula_failures_on_traces": {f: sum(1 for x in failed if x["formula"] == f) for f in sorted({x["formula"] for x in failed})},
        "programs": len(by), "program_names": sorted(by),
        "excluded_programs": sorted(EXCLUDED),
        "known_findings_seen": rep.known_hits,
        "binding_selftest": selftest,
        "wall": {"generation_s": round(gen_wall, 1), "validation_s": round(val_wall, 1)},
        "samples": samples,
    }
    write_evidence(pid, tier, seed, "model_checking", coverage, time.time() - t0, violations=len(rep.violations),
                   assumptions=["single worker (delivery schedules of one worker; two workers only in an informational model config)",
                                "SQLite backend, event store in the same database file",
                                "a crash is a process kill between two SQL statements; torn writes are SQLite's business"])
    print(f"{pid} {tier}: model {coverage['model_states']} states in {len(mc_res)} configs; {len(traces)} recorded executions "
          f"({n_events} events) validated by TLC, {n_acc} accepted, {len(rejected)} rejected; formula failures "
          f"{coverage['formula_failures_on_traces']}; model failures {[(r.config['name'], r.viol_counts) for r in mc_res if r.viol_counts]}; "
          f"wall {time.time() - t0:.0f}s")
    return rc


# =================================================================================================
# --replay
# =================================================================================================
def rerun(doc: dict) -> dict:
    meta, prog = doc["meta"], doc["program"]
    if meta["kind"] == "fifo":
        return drive_fifo(prog, meta.get("faults"), meta.get("observe") or None, meta.get("sweeps", 1))
    o = dict(meta.get("opts") or {})
    return drive_schedule(prog, meta["seed"], observe=meta.get("observe") or None, faults=meta.get("faults") or None, **o)


def replay(pid: str, path: str) -> int:
    doc = json.load(open(path))
    formula = doc.get("formula")
    if doc["kind"] == "model":
        r = model_check(doc["config"], [formula], workers=4, timeout=1400, coverage=False)
        if r.machinery:
            print("MACHINERY-FAILURE:", r.machinery[-1500:])
            return 2
        hit = [v for v in r.viols if v["formula"] == formula]
        print("model config", doc["config"]["name"], "states", r.distinct, "failures", r.viol_counts)
        if hit:
            print(f"VIOLATION property={pid} replay={path}")
            print("  " + json.dumps(hit[0]["state"])[:400])
            return 1
        return 0
    t = rerun(doc)
    props = FORMULAS[pid]
    v = validate_batch([t], props, tag="replay")
    if v.machinery:
        print("MACHINERY-FAILURE:", v.machinery[-1500:])
        return 2
    failed = [f["formula"] for f in v.failed]
    if v.rejected:
        extra = flag_and_revalidate([t], [(0, v.rejected[0]["at"])], props)
        failed += [f["formula"] for f in extra]
    print("replayed", t["prog"], t["meta"]["kind"], t["meta"].get("faults"), "events", len(t["events"]),
          "rejected at", [r["at"] for r in v.rejected], "failed", sorted(set(failed)))
    bad = (formula == "CONFORMANCE" and v.rejected) or formula in failed
    if bad:
        print(f"VIOLATION property={pid} replay={path}")
        return 1
    return 0


if __name__ == "__main__":
    import argparse

    ap = argparse.ArgumentParser()
    ap.add_argument("pid")
    ap.add_argument("--tier", default=os.environ.get("VERIF_TIER", "quick"))
    ap.add_argument("--replay", default=None)
    a = ap.parse_args()
    if a.replay:
        sys.exit(replay(a.pid, a.replay))
    sys.exit(run(a.pid, a.tier, int(os.environ.get("VERIF_SEED", "1"))))
