"""Concurrency slots (C05: "... or explicitly waiting for ... a concurrency slot - never silently stuck") -
binding of spec/Slots.tla.

TLC explores Slots.tla for one worker (handlers atomic: NoStrandedBuffered, AtMostLimit and the liveness property
AllFinish must hold) and for two workers, and exports every reachable assignment of workflow statuses and every
terminal one.  On the real engine two (three) workflows of one pipeline configuration with max_concurrent_executions
= 1 are prepared; the racing messages are handled by real threads under the baton scheduler of check_race and EVERY
interleaving of their write-transaction steps is executed; after every step the statuses in the database must be a
reachable assignment of the specification, and after draining the rest in order the final statuses must be a
terminal assignment.  A terminal assignment that violates NoStrandedBuffered and is reached by the real engine is a
property violation (matched against known_findings.json); a status assignment the specification cannot reach is a
conformance violation."""
from __future__ import annotations

import itertools
import json
import os
import re
import shutil
import threading

from . import core
from .core import Hooks
from . import tlc
from . import programs as PR
from .check_race import Baton
from .evidence import Reporter

CONFIG_ID = "verif-slots"


def cfg_module(workflows: list[str], limit: int, workers: list[str], status: dict, queue: list[tuple[str, str]]) -> str:
    return "\n".join([
        "---- MODULE SlotsCfg ----", "EXTENDS TLC",
        "Workflows == " + PR.tla_value(list(workflows)),
        "Limit == %d" % limit, "Recheck == %s" % os.environ.get("VERIF_SLOTS_RECHECK", "TRUE"),
        "Workers == {%s}" % ", ".join('"%s"' % w for w in workers),
        "InitStatus == (%s)" % " @@ ".join('"%s" :> "%s"' % (w, status[w]) for w in workflows),
        "InitQueue == {%s}" % ", ".join('[typ |-> "%s", w |-> "%s", n |-> %d]' % (t, w, i + 1) for i, (t, w) in enumerate(queue)),
        "===="]) + "\n"




def explore(rd: str, cfgmod: str, liveness: bool) -> dict:
    os.makedirs(rd, exist_ok=True)
    with open(os.path.join(rd, "SlotsCfg.tla"), "w") as fh:
        fh.write(cfgmod)
    cfg = "\n".join(["SPECIFICATION Spec", "INVARIANT NoStrandedBuffered", "INVARIANT AtMostLimit", "CONSTRAINT Seen"]
                    + (["PROPERTY AllFinish"] if liveness else []) + ["CHECK_DEADLOCK FALSE"]) + "\n"
    r = tlc.run_tlc(rd, "MC_Slots", cfg, workers=1, extra=["-continue"])
    reach, term = [], []
    for m in re.finditer(r'<<\s*"WST",\s*"((?:[^"\\]|\\.)*)",\s*"(live|terminal)"\s*>>', r.out, re.S):
        d = json.loads(m.group(1).encode().decode("unicode_escape"))
        if d not in reach:
            reach.append(d)
        if m.group(2) == "terminal" and d not in term:
            term.append(d)
    return {"reach": reach, "terminal": term, "violated": sorted(set(r.violated)), "distinct": r.distinct,
            "generated": r.generated, "ok": r.ok, "out": r.out}


# ----- the real engine ----------------------------------------------------------------------------------
def make_workflow(name: str):
    from stabilize import StageExecution, TaskExecution, Workflow

    te = TaskExecution.create(name="t", implementing_class="vt_ok", stage_start=True, stage_end=True)
    te.id = "T-" + name
    st = StageExecution(ref_id="a", type="verif", name="a", context={}, tasks=[te])
    st.id = "S-" + name
    wf = Workflow.create(application="verif", name=name, stages=[st], pipeline_config_id=CONFIG_ID)
    wf.id = "W-" + name
    wf.is_limit_concurrent = True
    wf.max_concurrent_executions = 1
    wf.keep_waiting_pipelines = True
    return wf


class OkTask:
    pass


def engine(cs: str):
    from stabilize import QueueProcessor, SqliteQueue, SqliteWorkflowStore, Task, TaskRegistry, TaskResult
    from stabilize.queue.processor.config import QueueProcessorConfig

    class Ok(Task):
        def execute(self, stage):
            return TaskResult.success()

    store = SqliteWorkflowStore(cs, create_tables=True)
    queue = SqliteQueue(cs)
    queue._create_table()
    reg = TaskRegistry()
    reg.register("vt_ok", Ok())
    b, c = core.shared_resilience()
    cfg = QueueProcessorConfig.from_handler_config(None)
    cfg.enable_lock_heartbeat = False
    proc = QueueProcessor(queue, config=cfg, store=store, task_registry=reg, bulkhead_manager=b, circuit_factory=c)
    return store, queue, proc


def statuses(raw) -> dict:
    return {r["id"][2:]: r["status"] for r in raw.execute("SELECT id, status FROM pipeline_executions")}


def pending(raw) -> list[dict]:
    out = []
    for r in raw.execute("SELECT id, message_type, payload FROM queue_messages ORDER BY id"):
        p = json.loads(r["payload"])
        out.append({"qid": r["id"], "typ": r["message_type"], "w": (p.get("execution_id") or "")[2:]})
    return out


def prepare(scenario: str, basedir: str) -> tuple[str, dict]:
    """strand: w2 RUNNING with its CompleteWorkflow pending, w1 NOT_STARTED with its StartWorkflow pending.
    admit: w1, w2 NOT_STARTED, both StartWorkflow pending."""
    from stabilize import Orchestrator

    d = core.scratch_dir("slotsprep")
    db = os.path.join(d, "p.db")
    cs = "sqlite:///" + db
    core.reset_volatile()
    Hooks.on_commit = Hooks.on_execute = None
    store, queue, proc = engine(cs)
    orch = Orchestrator(queue, store=store)
    w1, w2 = make_workflow("w1"), make_workflow("w2")
    raw = core.raw_connect(db)
    if scenario == "strand":
        store.store(w2)
        orch.start(w2)
        for _ in range(40):
            pm = pending(raw)
            if len(pm) == 1 and pm[0]["typ"] == "CompleteWorkflow":
                break
            proc.process_one()
        store.store(w1)
        orch.start(w1)
    else:
        store.store(w1)
        store.store(w2)
        orch.start(w1)
        orch.start(w2)
    info = {"status": statuses(raw), "pending": pending(raw)}
    raw.close()
    out = os.path.join(basedir, scenario + ".db")
    core.reset_volatile()
    shutil.copy(db, out)
    shutil.rmtree(d, ignore_errors=True)
    return out, info


def run_schedule(basedb: str, scenario: str, sched: list[int], reach: list[dict], term: list[dict]) -> dict:
    """sched: worker ids (1, 2) in the order in which they are stepped (a step = up to the next write statement)"""
    d = core.scratch_dir("slots")
    db = os.path.join(d, "w.db")
    shutil.copy(basedb, db)
    cs = "sqlite:///" + db
    core.reset_volatile()
    baton = Baton()
    Hooks.on_commit = None
    Hooks.on_execute = baton.on_execute
    raw = core.raw_connect(db)
    try:
        store, queue, proc = engine(cs)
        pm = pending(raw)
        first = {}
        if scenario == "strand":
            first[1] = next(m for m in pm if m["typ"] == "StartWorkflow")
            first[2] = next(m for m in pm if m["typ"] == "CompleteWorkflow")
        else:
            first[1], first[2] = pm[0], pm[1]
        msgs = {}
        for w in (1, 2):
            raw.execute("UPDATE queue_messages SET deliver_at = '2999-01-01T00:00:00+00:00' WHERE id != ?", (first[w]["qid"],))
            raw.execute("UPDATE queue_messages SET deliver_at = '2000-01-01T00:00:00+00:00' WHERE id = ?", (first[w]["qid"],))
            m = queue.poll_one()
            if m is None or int(m.message_id) != first[w]["qid"]:
                raise RuntimeError("could not poll the racing message")
            msgs[w] = m
        raw.execute("UPDATE queue_messages SET deliver_at = '2000-01-01T00:00:00+00:00'")
        store._get_connection().commit()

        def body(w):
            proc._handle_message(msgs[w])
            queue.ack(msgs[w])
            if scenario == "strand" and w == 2:      # the same worker goes on with what its commit pushed
                for _ in range(3):
                    m = queue.poll_one()
                    if m is None:
                        break
                    proc._handle_message(m)
                    queue.ack(m)

        threads = []
        for w in (1, 2):
            t = threading.Thread(target=baton.run_worker, args=(w, lambda w=w: body(w)), daemon=True)
            threads.append(t)
            t.start()
        with baton.cv:
            baton.cv.wait_for(lambda: len(baton.parked) == 2, 10)
        seen = []
        bad = None
        done_sched = []
        for w in sched + [1] * 40 + [2] * 40:
            if w in baton.finished:
                continue
            baton.step(w)
            done_sched.append(w)
            s = statuses(raw)
            if s not in seen:
                seen.append(s)
            if s not in reach and bad is None:
                bad = {"kind": "unreachable", "statuses": s, "after": list(done_sched)}
            if len(baton.finished) == 2:
                break
        for t in threads:
            t.join(5)
        errs = {w: repr(e) for w, e in baton.errors.items()}
        Hooks.on_execute = None
        # drain the rest in order, single worker
        for _ in range(200):
            raw.execute("UPDATE queue_messages SET deliver_at = '2000-01-01T00:00:00+00:00', locked_until = NULL")
            if not pending(raw):
                break
            proc.process_one()
        final = statuses(raw)
        if bad is None and final not in term:
            bad = {"kind": "not-terminal", "statuses": final, "after": list(done_sched)}
        if errs and bad is None:
            bad = {"kind": "error", "statuses": final, "after": list(done_sched), "error": str(errs)}
        return {"schedule": done_sched, "final": final, "seen": seen, "bad": bad,
                "max_running": max(sum(1 for v in s.values() if v == "RUNNING") for s in seen) if seen else 0}
    finally:
        with baton.cv:
            baton.turn = None
        for w in (1, 2):
            if w not in baton.finished:
                try:
                    for _ in range(80):
                        if baton.step(w, 5) == "finished":
                            break
                except Exception:
                    pass
        Hooks.on_execute = None
        raw.close()
        core.reset_volatile()
        shutil.rmtree(d, ignore_errors=True)


def _job(args):
    import time

    time.sleep = lambda _s: None      # threads run under the baton: real back-off sleeps only slow the replay
    basedb, scenario, scheds, reach, term = args
    return [run_schedule(basedb, scenario, s, reach, term) for s in scheds]


def probe_lengths(basedb: str, scenario: str, reach, term) -> tuple[int, int]:
    """number of steps each worker takes when it runs alone first"""
    r = run_schedule(basedb, scenario, [], reach, term)
    n1 = sum(1 for w in r["schedule"] if w == 1)
    n2 = sum(1 for w in r["schedule"] if w == 2)
    return n1, n2


def component(rep: Reporter, tier: str, seed: int) -> dict:
    import concurrent.futures as cf
    import multiprocessing as mp

    base = core.scratch_dir("slotsbase")
    states = transitions = replayed = 0
    info, samples = [], []
    try:
        for scenario in ("strand", "admit"):
            db, prep = prepare(scenario, base)
            wfs = ["w1", "w2"]
            queue = [("StartWorkflow" if m["typ"] == "StartWorkflow" else m["typ"], m["w"]) for m in prep["pending"]]
            if sorted(t for t, _ in queue) != (["CompleteWorkflow", "StartWorkflow"] if scenario == "strand" else ["StartWorkflow"] * 2):
                rep.machinery_failure(f"slots {scenario}: unexpected pending messages {queue}")
                continue
            # one worker: the design holds (handlers are atomic)
            one = explore(os.path.join(base, scenario + "1"), cfg_module(wfs, 1, ["a"], prep["status"], queue), True)
            states += one["distinct"]
            transitions += one["generated"]
            if not one["ok"] or one["violated"]:
                rep.violation(f"Slots.tla ({scenario}, one worker): {one['violated'] or 'TLC failed'}",
                              {"formula": (one["violated"] or ["TLC"])[0], "state": None, "program": {"name": "slots", "stages": []},
                               "source": "slots-model"}, {"kind": "slots-model", "scenario": scenario, "workers": 1})
                continue
            two = explore(os.path.join(base, scenario + "2"), cfg_module(wfs, 1, ["a", "b"], prep["status"], queue), False)
            states += two["distinct"]
            transitions += two["generated"]
            if not two["reach"]:
                rep.machinery_failure(f"slots {scenario}: TLC exported nothing: " + two["out"][-800:])
                continue
            n1, n2 = probe_lengths(db, scenario, two["reach"], two["terminal"])
            scheds = []
            for pos in itertools.combinations(range(n1 + n2), n1):
                s = [2] * (n1 + n2)
                for p in pos:
                    s[p] = 1
                scheds.append(s)
            exhaustive = True
            if tier != "thorough" and len(scheds) > 900:
                # quick: every schedule in which worker 1 is preempted at most once (its steps form <= 2 blocks) + a seeded sample
                import random

                def blocks(s):
                    return sum(1 for i, w in enumerate(s) if w == 1 and (i == 0 or s[i - 1] != 1))
                few = [s for s in scheds if blocks(s) <= 2]
                rest = [s for s in scheds if blocks(s) > 2]
                random.Random(seed).shuffle(rest)
                scheds = few + rest[:max(0, 900 - len(few))]
                exhaustive = False
            jobs = [(db, scenario, scheds[i:i + 12], two["reach"], two["terminal"]) for i in range(0, len(scheds), 12)]
            finals: list[dict] = []
            maxrun = 0
            with cf.ProcessPoolExecutor(max_workers=int(os.environ.get("VERIF_NPROC", "16")), mp_context=mp.get_context("spawn")) as ex:
                for res in ex.map(_job, jobs):
                    for r in res:
                        replayed += 1
                        maxrun = max(maxrun, r["max_running"])
                        if r["final"] not in finals:
                            finals.append(r["final"])
                        if r["bad"]:
                            rep.violation(f"slots {scenario}, schedule {r['bad']['after']}: the workflow statuses {r['bad']['statuses']} "
                                          f"are {'not reachable' if r['bad']['kind'] == 'unreachable' else 'not terminal'} in Slots.tla "
                                          f"{r['bad'].get('error', '')}",
                                          {"formula": "CONFORMANCE", "state": None, "program": {"name": "slots", "stages": []},
                                           "source": "slots-race"},
                                          {"kind": "slots-race", "scenario": scenario, "schedule": r["bad"]["after"], "mismatch": r["bad"]})
                        elif "BUFFERED" in r["final"].values():
                            rep.violation(f"slots {scenario}, schedule {r['schedule']}: the queue is drained, nothing runs, and "
                                          f"{[w for w, v in r['final'].items() if v == 'BUFFERED']} waits for a slot for ever "
                                          f"(NoStrandedBuffered; Slots.tla reaches the same state with two workers)",
                                          {"formula": "NoStrandedBuffered", "state": {"final": r["final"]},
                                           "program": {"name": "slots", "stages": []}, "source": "slots-race", "scenario": scenario},
                                          {"kind": "slots-race", "scenario": scenario, "schedule": r["schedule"], "final": r["final"]})
                        elif r["max_running"] > 1 and "AtMostLimit" not in two["violated"]:
                            rep.violation(f"slots {scenario}: {r['max_running']} workflows RUNNING with limit 1 but Slots.tla keeps the limit",
                                          {"formula": "AtMostLimit", "state": None, "program": {"name": "slots", "stages": []},
                                           "source": "slots-race"}, {"kind": "slots-race", "scenario": scenario, "schedule": r["schedule"]})
            missing = [t for t in two["terminal"] if t not in finals]
            info.append({"scenario": scenario, "one_worker_states": one["distinct"], "two_worker_states": two["distinct"],
                         "two_worker_violations_in_model": two["violated"], "steps": [n1, n2], "interleavings": len(scheds), "exhaustive": exhaustive,
                         "reachable_status_maps": len(two["reach"]), "terminal_status_maps": two["terminal"],
                         "final_status_maps_seen_on_code": finals, "terminal_maps_not_seen_on_code": missing,
                         "max_running_seen": maxrun})
            if scheds and len(samples) < 2:
                samples.append({"scenario": scenario, "schedule": scheds[len(scheds) // 2]})
    finally:
        shutil.rmtree(base, ignore_errors=True)
    return {"states": states, "transitions": transitions, "replayed": replayed, "configs": info, "samples": samples}


def replay_doc(pid: str, doc: dict, path: str) -> int:
    """./check C05 --replay <file> for a slots-race record: the same schedule on the current tree"""
    base = core.scratch_dir("slotsreplay")
    try:
        scenario = doc["scenario"]
        db, prep = prepare(scenario, base)
        queue = [(m["typ"], m["w"]) for m in prep["pending"]]
        two = explore(os.path.join(base, "tlc"), cfg_module(["w1", "w2"], 1, ["a", "b"], prep["status"], queue), False)
        if doc.get("kind") == "slots-model":
            print("Slots.tla, two workers:", two["violated"])
            return 0
        r = run_schedule(db, scenario, list(doc["schedule"]), two["reach"], two["terminal"])
        print("schedule", r["schedule"], "-> final", r["final"], "max running", r["max_running"], r["bad"] or "")
        if r["bad"] or "BUFFERED" in r["final"].values():
            print(f"VIOLATION property={pid} replay={path}")
            return 1
        return 0
    finally:
        shutil.rmtree(base, ignore_errors=True)
