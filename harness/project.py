"""Abstraction function: SQLite file -> JSON form of the specification's durable variables
(DESIGN 3.7).  Reads through a raw connection the engine does not know about."""
from __future__ import annotations

import json
from datetime import UTC, datetime, timedelta

HARNESS_DDL = """
CREATE TABLE IF NOT EXISTS verif_qlog (seq INTEGER PRIMARY KEY AUTOINCREMENT, qid INTEGER, typ TEXT, payload TEXT);
CREATE TRIGGER IF NOT EXISTS verif_q_ins AFTER INSERT ON queue_messages BEGIN
  INSERT INTO verif_qlog(qid, typ, payload) VALUES (NEW.id, NEW.message_type, NEW.payload); END;
CREATE TABLE IF NOT EXISTS verif_qdel (seq INTEGER PRIMARY KEY AUTOINCREMENT, qid INTEGER);
CREATE TRIGGER IF NOT EXISTS verif_q_del AFTER DELETE ON queue_messages BEGIN
  INSERT INTO verif_qdel(qid) VALUES (OLD.id); END;
CREATE TABLE IF NOT EXISTS verif_audit (seq INTEGER PRIMARY KEY AUTOINCREMENT, tbl TEXT, ent TEXT, old TEXT, new TEXT);
CREATE TRIGGER IF NOT EXISTS verif_a_wf AFTER UPDATE OF status ON pipeline_executions WHEN OLD.status <> NEW.status BEGIN
  INSERT INTO verif_audit(tbl, ent, old, new) VALUES ('wf', NEW.id, OLD.status, NEW.status); END;
CREATE TRIGGER IF NOT EXISTS verif_a_st AFTER UPDATE OF status ON stage_executions WHEN OLD.status <> NEW.status BEGIN
  INSERT INTO verif_audit(tbl, ent, old, new) VALUES ('st', NEW.id, OLD.status, NEW.status); END;
CREATE TRIGGER IF NOT EXISTS verif_a_tk AFTER UPDATE OF status ON task_executions WHEN OLD.status <> NEW.status BEGIN
  INSERT INTO verif_audit(tbl, ent, old, new) VALUES ('tk', NEW.id, OLD.status, NEW.status); END;
"""


class Projector:
    def __init__(self, raw_conn, wf_id: str) -> None:
        self.c = raw_conn
        self.wf_id = wf_id
        self.keys: dict[int, list] = {}      # queue row id -> canonical key [typ, s, t, k]
        self.counts: dict[tuple, int] = {}
        self.qlog_seen = 0
        self.stage_ref: dict[str, str] = {}
        self.task_name: dict[str, str] = {}
        self.audit_seen = 0

    # -- identity maps -------------------------------------------------------------------------
    def _refresh_names(self) -> None:
        for r in self.c.execute("SELECT id, ref_id, parent_stage_id, synthetic_stage_owner FROM stage_executions"):
            self.stage_ref[r["id"]] = r["ref_id"]
        for r in self.c.execute("SELECT id, name FROM task_executions"):
            self.task_name[r["id"]] = r["name"]

    def sref(self, sid) -> str:
        if not sid:
            return ""
        if sid not in self.stage_ref:
            self._refresh_names()
        return self.stage_ref.get(sid, "?" + str(sid))

    def tname(self, tid) -> str:
        if not tid:
            return ""
        if tid not in self.task_name:
            self._refresh_names()
        return self.task_name.get(tid, "?" + str(tid))

    def _refresh_keys(self) -> None:
        rows = self.c.execute("SELECT seq, qid, typ, payload FROM verif_qlog WHERE seq > ? ORDER BY seq",
                              (self.qlog_seen,)).fetchall()
        for r in rows:
            self.qlog_seen = r["seq"]
            p = json.loads(r["payload"])
            base = (r["typ"], self.sref(p.get("stage_id")), self.tname(p.get("task_id")))
            k = self.counts.get(base, 0) + 1
            self.counts[base] = k
            self.keys[r["qid"]] = [base[0], base[1], base[2], k]

    def key_of(self, qid: int) -> list:
        if qid not in self.keys:
            self._refresh_keys()
        return self.keys.get(qid, ["?", "", "", int(qid)])

    # -- projection ----------------------------------------------------------------------------
    def msg(self, r, now) -> dict:
        p = json.loads(r["payload"])
        lock = False
        if r["locked_until"]:
            lock = datetime.fromisoformat(r["locked_until"]) > now
        delayed = datetime.fromisoformat(r["deliver_at"]) > now + timedelta(seconds=60)
        return {
            "id": self.key_of(r["id"]),
            "ord": r["id"],
            "typ": r["message_type"],
            "s": self.sref(p.get("stage_id")),
            "t": self.tname(p.get("task_id")),
            "status": p.get("status") or "",
            "rc": p.get("retry_count") or 0,
            "target": p.get("target_stage_ref_id") or "",
            "phase": (p.get("phase") or "").replace("STAGE_", ""),
            "sig": p.get("signal_name") or p.get("region") or "",
            "pers": bool(p.get("persistent")) if r["message_type"] == "SignalStage" else False,
            "att": r["attempts"],
            "lock": lock,
            "delayed": delayed,
        }

    def state(self) -> dict:
        now = datetime.now(UTC)
        self._refresh_keys()
        w = self.c.execute("SELECT status, is_canceled FROM pipeline_executions WHERE id = ?",
                           (self.wf_id,)).fetchone()
        st = {}
        tk = {}
        for r in self.c.execute("SELECT * FROM stage_executions WHERE execution_id = ?", (self.wf_id,)):
            ctx = json.loads(r["context"] or "{}")
            self.stage_ref[r["id"]] = r["ref_id"]
            act = ctx.get("_activated_branches")
            st[r["ref_id"]] = {
                "status": r["status"],
                "ver": r["version"],
                "started": r["start_time"] is not None,
                "fired": bool(ctx.get("_join_fired", False)),
                "cb": sorted(ctx.get("_completed_branches", [])),
                "act": ["-"] if act is None else sorted(act),
                "bypass": bool(ctx.get("_jump_bypass", False)),
                "jumps": int(ctx.get("_jump_count", 0)),
                "buf": [str(x.get("signal_name", "")) for x in (ctx.get("_buffered_signals", []) or [])],
                "sig": str(ctx.get("_signal_name") or ""),
                "mi": int(ctx.get("_mi_instance_count", 0)),
            }
            for t in self.c.execute("SELECT id, name, status, version FROM task_executions WHERE stage_id = ? ORDER BY id",
                                    (r["id"],)):
                self.task_name[t["id"]] = t["name"]
                tk[t["name"]] = {"status": t["status"], "ver": t["version"],
                                 "prog": int(ctx.get("prog." + t["name"], 0)),
                                 "seen": sorted(ctx.get("seen." + t["name"], []))}
        q = [self.msg(r, now) for r in self.c.execute("SELECT * FROM queue_messages ORDER BY id")]
        dlq = [{"id": self.key_of(r["original_id"]), "att": r["attempts"]}
               for r in self.c.execute("SELECT * FROM queue_messages_dlq ORDER BY id")]
        done = []
        for r in self.c.execute("SELECT message_id FROM processed_messages"):
            try:
                done.append(self.key_of(int(r["message_id"])))
            except ValueError:
                done.append(["?", "", "", 0])
        done.sort(key=lambda k: json.dumps(k))
        claims = {r["claim_key"]: self.sref(r["stage_id"])
                  for r in self.c.execute("SELECT claim_key, stage_id FROM stage_claims WHERE execution_id = ?",
                                          (self.wf_id,))}
        return {"wf": {"status": w["status"], "canceled": bool(w["is_canceled"])},
                "st": st, "tk": tk, "q": q, "dlq": dlq, "done": done, "claims": claims}

    def new_audit(self) -> list[dict]:
        rows = self.c.execute("SELECT seq, tbl, ent, old, new FROM verif_audit WHERE seq > ? ORDER BY seq",
                              (self.audit_seen,)).fetchall()
        out = []
        for r in rows:
            self.audit_seen = r["seq"]
            ent = r["ent"]
            name = {"wf": lambda e: "wf", "st": self.sref, "tk": self.tname}[r["tbl"]](ent)
            out.append({"tbl": r["tbl"], "ent": name, "old": r["old"], "new": r["new"]})
        return out
