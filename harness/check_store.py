"""C07 - concurrent writers never silently overwrite each other.

1. TLC model-checks spec/Store.tla (optimistic locking of the SQLite store at statement grain) for
   2 and 3 writers x {plain, transactional} x {with, without expected_phase} x retries, and, as a
   non-vacuity test, with each mechanism switched off (the named property must then fail).
2. Binding, spec -> code: every statement interleaving TLC enumerates (root MC_StorePaths, history
   variable printed when all writers are done) is replayed through the PUBLIC store API.  Each writer
   is a real thread with its own thread-local connection, doing read -> modify -> save (optionally
   under StabilizeHandler.retry_on_concurrency_error); a baton scheduler lets exactly the writer named
   by the specification execute exactly one statement (hooks: core.Hooks.on_execute, plus a
   pre-commit / pre-rollback hook added by the SConn subclass below).  After EVERY step the statement
   the thread is about to issue, the committed rows (status, version, context keys, outputs keys,
   task statuses / versions), the write-lock holder and the in-memory versions are compared with the
   specification's prediction; at the end the per-writer results and the final rows (= the fold of the
   saves that reported success, NoLostUpdate) are compared as well.
3. Engine-level pairs (harness/store_pairs.py, thorough tier): two real handlers in two baton-scheduled
   threads.

The verdict is the specification's: TLC decides the property formulas on the model, and the replay
only reports a difference between the model's prediction and the real store in the property's
projection.
"""
from __future__ import annotations

import json
import os
import random
import re
import shutil
import sqlite3
import sys
import threading
import time
import traceback

os.environ["STABILIZE_SQLITE_BUSY_TIMEOUT_MS"] = os.environ.get("VERIF_BUSY_MS", "60")

from . import core  # noqa: E402  (must precede any stabilize import)
from . import evidence, tlc  # noqa: E402

NPROC = int(os.environ.get("VERIF_NPROC", "16"))
INVARIANTS = ["TypeOK", "OneWinnerPerVersion", "NoLostUpdate", "VersionChain", "LoserSeesError", "NoPhantom",
              "RetriedOnFresh", "VersionsRestored", "RetryWins", "SomeoneWins", "CancelVsComplete"]
PROJ_KEYS = ("status", "ver", "ctx", "out")

# ------------------------------------------------------------------------------------------------
# configurations
# ------------------------------------------------------------------------------------------------


def _set(xs) -> str:
    return "{" + ", ".join(str(x) for x in sorted(xs)) + "}"


def _b(x) -> str:
    return "TRUE" if x else "FALSE"


def mk(name, writers=(2, 3), txn=False, phase=False, retries=0, status=(2,), task=(3,), adds=(), aux=False,
       busy=False, reduced=False, simulate=0, outs=None, ctxs=None, guarded=False, init="NOT_STARTED", **sw) -> dict:
    return {"name": name, "writers": list(writers), "txn": txn, "phase": phase, "retries": retries,
            "outs": list(writers if outs is None else outs), "ctxs": list(writers if ctxs is None else ctxs),
            "guarded": guarded, "init": init,
            "status": list(status), "task": list(task), "adds": list(adds), "aux": aux, "busy": busy,
            "reduced": reduced, "simulate": simulate,
            "sw": {"StageVersionCheck": True, "TaskVersionCheck": True, "MapIntegrityError": True,
                   "FreshRetry": True, "RollbackVersions": True, **sw}}


def cfg_text(c: dict, root_paths: bool, invariants=()) -> str:
    lines = ["CONSTANTS",
             f"  Writers = {_set(c['writers'])}", f"  Transactional = {_b(c['txn'])}", f"  UsePhase = {_b(c['phase'])}",
             f"  Retries = {c['retries']}", f"  AddsCtx = {_set(c.get('ctxs', c['writers']))}", f"  AddsOut = {_set(c['outs'])}",
             f"  Guarded = {_b(c.get('guarded', False))}", f'  InitStatus = "{c.get("init", "NOT_STARTED")}"',
             f"  SetsStatus = {_set(c['status'])}", f"  SetsTask = {_set(c['task'])}",
             f"  AddsTask = {_set(c['adds'])}", f"  AuxStage = {_b(c['aux'])}", f"  AllowBusy = {_b(c['busy'])}"]
    lines += [f"  {k} = {_b(v)}" for k, v in c["sw"].items()]
    if root_paths:
        lines += ["INIT PInit", "NEXT PNext", "INVARIANT Export"]
        if c["reduced"]:
            lines.append("ACTION_CONSTRAINT Reduced")
    else:
        lines += ["INIT Init", "NEXT Next"] + [f"INVARIANT {i}" for i in invariants]
    lines.append("CHECK_DEADLOCK FALSE")
    return "\n".join(lines) + "\n"


def configs(tier: str) -> list[dict]:
    """quick: 2 writers exhaustively at full statement grain, 3 writers sampled at full grain (TLC -simulate);
    thorough: additionally 3 writers exhaustively at the reduced grain, more retries, bigger samples."""
    th = tier == "thorough"
    cs = []
    for txn in (False, True):
        for phase in (False, True):
            tag = ("txn" if txn else "plain") + ("+phase" if phase else "")
            cs.append(mk(f"w2-{tag}", txn=txn, phase=phase))
            cs.append(mk(f"w2-{tag}-retry1", txn=txn, phase=phase, retries=1))
            cs.append(mk(f"w3-{tag}-retry1-sim", writers=(2, 3, 4), txn=txn, phase=phase, retries=1,
                         status=(2, 4), task=(3, 4), simulate=6000 if th else 700))
            if th:
                cs.append(mk(f"w2-{tag}-retry2", txn=txn, phase=phase, retries=2))
                cs.append(mk(f"w3-{tag}", writers=(2, 3, 4), txn=txn, phase=phase, status=(2, 4), task=(3,), reduced=True))
    # statuses changed by both writers (expected_phase meets a changed status), new tasks (INSERT path of upsert)
    cs.append(mk("w2-plain+phase-bothstatus-adds", phase=True, status=(2, 3), task=(2, 3), adds=(2, 3)))
    cs.append(mk("w2-txn-adds-retry1", txn=True, retries=1, status=(3,), task=(2,), adds=(2, 3)))
    # several rows in one transaction: a private stage row saved in the same commit (atomicity, rollback_versions)
    cs.append(mk("w2-txn-aux", txn=True, aux=True))
    cs.append(mk("w2-txn-aux+phase-retry1", txn=True, aux=True, phase=True, retries=1))
    # a blocked writer times out instead of waiting ('database is locked')
    cs.append(mk("w2-plain-busy", busy=True))
    cs.append(mk("w2-txn-busy", txn=True, busy=True))
    if th:
        cs.append(mk("w3-plain-retry1", writers=(2, 3, 4), retries=1, status=(2, 4), task=(3,), reduced=True))
        cs.append(mk("w3-txn-retry2-sim", writers=(2, 3, 4), txn=True, retries=2, status=(2, 4), task=(3,), simulate=6000))
        cs.append(mk("w3-txn-aux-retry1-sim", writers=(2, 3, 4), txn=True, aux=True, retries=1, status=(2, 4), simulate=6000))
        cs.append(mk("w3-plain-adds-sim", writers=(2, 3, 4), adds=(2, 3, 4), status=(2,), task=(3, 4), retries=1, simulate=6000))
        cs.append(mk("w3-plain-busy-sim", writers=(2, 3, 4), busy=True, simulate=1500))
    return cs


# Mechanism removed in the MODEL -> the named formula must fail (the formulas are not vacuous and the
# model really depends on the mechanism the code implements).
MODEL_MUTANTS = [
    ("no stage version check, plain, no tasks CAS either", dict(StageVersionCheck=False, TaskVersionCheck=False),
     dict(), {"OneWinnerPerVersion", "NoLostUpdate", "VersionChain"}),
    ("no stage version check, plain (task CAS catches it, half-applied write published)", dict(StageVersionCheck=False),
     dict(), {"NoPhantom", "NoLostUpdate", "VersionChain", "OneWinnerPerVersion"}),
    ("no stage version check, transactional (the task CAS does not save it: a read torn between the stage row and the "
     "task rows passes both)", dict(StageVersionCheck=False), dict(txn=True), {"OneWinnerPerVersion", "NoLostUpdate"}),
    ("no stage version check but expected_phase and a status change", dict(StageVersionCheck=False, TaskVersionCheck=False),
     dict(phase=True, status=(2, 3)), set()),
    ("IntegrityError not mapped", dict(StageVersionCheck=False, MapIntegrityError=False), dict(txn=True), {"LoserSeesError"}),
    ("retry re-uses the stale object", dict(FreshRetry=False), dict(retries=1), {"RetriedOnFresh", "RetryWins"}),
    ("retry re-uses the stale object, transactional", dict(FreshRetry=False), dict(retries=1, txn=True),
     {"RetriedOnFresh", "RetryWins"}),
    ("rollback_versions missing", dict(RollbackVersions=False), dict(txn=True, aux=True), {"VersionsRestored"}),
    ("CancelStage vs CompleteTask without any version check (the cancel overwrites the saved completion)",
     dict(StageVersionCheck=False, TaskVersionCheck=False),
     dict(writers=(3, 4), txn=True, retries=3, status=(4,), task=(3, 4), outs=(), ctxs=(), guarded=True, init="RUNNING"),
     {"CancelVsComplete", "NoLostUpdate"}),
]

# ------------------------------------------------------------------------------------------------
# TLC
# ------------------------------------------------------------------------------------------------

BEH_RE = re.compile(r'^<<"BEH", "(.*)">>\s*$')


def run_mc(c: dict, invariants=INVARIANTS, cont: bool = False) -> dict:
    rd = tlc.new_rundir("c07mc-" + re.sub(r"\W+", "_", c["name"])[:24])
    try:
        r = tlc.run_tlc(rd, "Store", cfg_text(c, False, invariants), workers=2,
                        extra=["-coverage", "1"] + (["-continue"] if cont else []), timeout=900)
        cov = r.coverage()
        return {"name": c["name"], "states": r.distinct, "transitions": r.generated, "violated": sorted(set(r.violated)),
                "errors": [e for e in r.errors if "is violated" not in e and "behavior up to this point" not in e], "rc": r.rc, "coverage": cov, "wall": round(r.wall, 2),
                "out_tail": r.out[-1500:] if (r.errors and not r.violated) or r.distinct == 0 else ""}
    finally:
        shutil.rmtree(rd, ignore_errors=True)


CHUNK = 120


def export_behaviours(c: dict, seed: int, outdir: str) -> dict:
    """TLC enumerates (or, for `simulate`, samples) the complete behaviours of the config; they are written as
    JSON lines into chunk files under outdir (the pool workers read them; the parent keeps only the counts)."""
    rd = tlc.new_rundir("c07ex-" + re.sub(r"\W+", "_", c["name"])[:24])
    try:
        extra = []
        if c["simulate"]:
            extra = ["-simulate", f"num={c['simulate']}", "-depth", "200", "-seed", str(seed)]
        r = tlc.run_tlc(rd, "MC_StorePaths", cfg_text(c, True), workers=1, extra=extra, timeout=1500)
        seen = set()
        chunks, cur, n = [], [], 0
        base = os.path.join(outdir, re.sub(r"\W+", "_", c["name"]))

        def flush():
            if cur:
                p = f"{base}.{len(chunks)}.jsonl"
                with open(p, "w") as fh:
                    fh.write("\n".join(cur) + "\n")
                chunks.append((p, n - len(cur), len(cur)))
                cur.clear()

        for ln in r.out.splitlines():
            m = BEH_RE.match(ln)
            if not m:
                continue
            if c["simulate"]:
                h = hash(m.group(1))
                if h in seen:       # simulation can produce a behaviour twice
                    continue
                seen.add(h)
            cur.append(json.loads('"' + m.group(1) + '"'))
            n += 1
            if len(cur) >= CHUNK:
                flush()
        flush()
        bad = list(r.errors)
        return {"name": c["name"], "chunks": chunks, "count": n, "states": r.distinct, "errors": bad, "rc": r.rc,
                "wall": round(r.wall, 2), "out_tail": r.out[-1500:] if (bad or not n) else ""}
    finally:
        shutil.rmtree(rd, ignore_errors=True)


def load_chunk(path: str) -> list[dict]:
    with open(path) as fh:
        return [json.loads(ln) for ln in fh if ln.strip()]


# ------------------------------------------------------------------------------------------------
# the replayer (runs inside pool workers)
# ------------------------------------------------------------------------------------------------

_tls = threading.local()
_FAILED = {"rb": "failed", "dc": "failed", "rs": "failed", "ra": "failed", "done": "failed"}
OUTCOME = {   # statement -> {next statement -> what the statement's rowcount / exception must have been}
    "us": {"ut": "matched", "co": "matched", **_FAILED},
    "ua": {"ex": "matched", "us": "matched", **_FAILED},
    "ut": {"ut": "matched", "co": "matched", "it": "no row matched"},
    "it": {"ut": "inserted", "co": "inserted", **_FAILED},
}


class Abort(BaseException):
    """Unwinds a parked writer thread when a replay is abandoned."""


class Writer(threading.Thread):
    def __init__(self, w: int) -> None:
        super().__init__(daemon=True, name=f"writer-{w}")
        self.w = w
        self.go = threading.Event()
        self.parked = threading.Event()
        self.job = None
        self.at = "idle"
        self.active = False
        self.abort = False
        self.mode = "op"
        self.res = None
        self.err = None
        self.stage = None
        self.aux = None
        self.conn = None
        self.stop = False
        self.touched = False    # the open transaction contains a statement on the contended rows

    def run(self) -> None:
        _tls.writer = self
        while True:
            self.go.wait()
            self.go.clear()
            if self.stop:
                return
            job = self.job
            self.active = True
            try:
                job(self)
            except Abort:
                self.err = "aborted"
            except BaseException as e:  # noqa: BLE001
                self.err = "".join(traceback.format_exception_only(type(e), e)).strip()
            self.active = False
            try:
                if self.conn is not None and self.conn.in_transaction:
                    self.conn.rollback()
                from stabilize.events.txn_scope import abort_store_transaction

                abort_store_transaction()
            except Exception:  # noqa: BLE001
                pass
            self.at = "done"
            self.parked.set()

    def park(self, kind: str) -> None:
        self.at = kind
        self.parked.set()
        self.go.wait()
        self.go.clear()
        if self.abort:
            raise Abort()


def _norm(sql: str) -> str:
    return " ".join(sql.split())


class SConn(core.VConn):
    """Adds the two scheduling points core.VConn lacks: BEFORE a commit and BEFORE a rollback."""

    def commit(self):  # noqa: D102
        wt = getattr(_tls, "writer", None)
        if wt is not None and wt.active and self.in_transaction and wt.mode == "op" and wt.touched:
            wt.park("co")
        if wt is not None:
            wt.touched = False
        return super().commit()

    def rollback(self):  # noqa: D102
        wt = getattr(_tls, "writer", None)
        if wt is not None and wt.active and self.in_transaction and wt.mode == "op" and wt.touched:
            wt.park("rb")
        if wt is not None:
            wt.touched = False
        return super().rollback()


def _connect(*a, **kw):
    kw["factory"] = SConn
    return core.ORIG_CONNECT(*a, **kw)


class Replayer:
    """One scratch database + three persistent writer threads per pool worker."""

    def __init__(self, journal: str = "DELETE", parent: str | None = None) -> None:
        import tempfile

        os.environ["STABILIZE_SQLITE_JOURNAL_MODE"] = journal
        sqlite3.connect = _connect
        core.reset_volatile()
        from stabilize.persistence.sqlite.store.store import SqliteWorkflowStore
        from stabilize.queue.sqlite.queue import SqliteQueue

        # inside a directory the parent process removes (pool workers are killed without running atexit handlers)
        self.dir = tempfile.mkdtemp(prefix="db-", dir=parent) if parent else core.scratch_dir("c07db")
        self.path = os.path.join(self.dir, "store.db")
        self.cs = "sqlite:///" + self.path
        self.store = SqliteWorkflowStore(self.cs, create_tables=True)
        self.queue = SqliteQueue(self.cs)
        self.queue._create_table()
        self.raw = core.raw_connect(self.path)
        self.journal = self.raw.execute("PRAGMA journal_mode").fetchone()[0].upper()
        self.writers = {w: Writer(w) for w in (2, 3, 4)}
        core.Hooks.on_execute = self._on_execute
        for wt in self.writers.values():
            wt.start()
            self._start(wt, self._open_conn)
        self.n = 0
        self.sid = self.wid = ""
        self.aux_ids: dict[int, str] = {}
        self.task_ids: set[str] = set()
        self.handlers: dict[tuple, object] = {}

    def close(self) -> None:
        core.Hooks.on_execute = None
        for wt in self.writers.values():
            wt.stop = True
            wt.go.set()
        try:
            self.raw.close()
        except Exception:  # noqa: BLE001
            pass
        shutil.rmtree(self.dir, ignore_errors=True)

    # -------- scheduling
    def _open_conn(self, wt: Writer) -> None:
        wt.active = False      # no parking while the connection is set up
        wt.conn = self.store._get_connection()

    def _start(self, wt: Writer, job) -> None:
        wt.job, wt.err, wt.abort, wt.mode, wt.res, wt.touched = job, None, False, "op", None, False
        wt.parked.clear()
        wt.go.set()
        if not wt.parked.wait(20):
            raise RuntimeError(f"scheduler stall: writer {wt.w} did not reach its first statement")

    def _step(self, wt: Writer) -> None:
        wt.parked.clear()
        wt.go.set()
        if not wt.parked.wait(20):
            raise RuntimeError(f"scheduler stall: writer {wt.w} neither parked nor finished (was at {wt.at})")

    def _abort_all(self) -> None:
        for wt in self.writers.values():
            if wt.at not in ("done", "idle"):
                wt.abort = True
                self._step(wt)
            wt.at = "idle"

    def _on_execute(self, conn, sql, args):
        wt = getattr(_tls, "writer", None)
        if wt is None or not wt.active:
            return None
        s = _norm(sql)
        if getattr(self, "free", False):      # spec-independent schedules: EVERY statement is a scheduling point
            kind = "r" if s[:6].upper() in ("SELECT", "PRAGMA") else "w"
            if kind == "w":
                wt.touched = True
            wt.park(kind)
            return None
        p = args[0] if args and isinstance(args[0], dict) else {}
        kind = None
        if s.startswith("SELECT * FROM stage_executions WHERE id = :id"):
            kind = "rs" if p.get("id") == self.sid else ("ra" if p.get("id") == self.aux_ids.get(wt.w) else None)
        elif s.startswith("SELECT * FROM task_executions WHERE stage_id"):
            kind = "rt" if p.get("stage_id") == self.sid else None
        elif s.startswith("SELECT id FROM stage_executions WHERE id = :id"):
            kind = "ex" if p.get("id") == self.sid else None
        elif s.startswith("UPDATE stage_executions SET"):
            kind = "us" if p.get("id") == self.sid else ("ua" if p.get("id") == self.aux_ids.get(wt.w) else None)
            if kind:
                wt.touched = True
        elif s.startswith("UPDATE task_executions SET"):
            kind = "ut" if p.get("id") in self.task_ids else None
        elif s.startswith("INSERT INTO task_executions"):
            kind = "it" if p.get("id") in self.task_ids else None
        elif s.startswith("INSERT OR IGNORE INTO processed_messages"):
            kind = "dc" if wt.mode == "dc" else None
        if kind:
            wt.park(kind)
        return None

    # -------- the scenario
    def _tid(self, logical: str) -> str:
        return f"{self.n}-{ {'t1': 1, 'n2': 2, 'n3': 3, 'n4': 4}[logical] }{logical}"

    def _setup(self, c: dict) -> None:
        from stabilize.models.stage import StageExecution
        from stabilize.models.task import TaskExecution
        from stabilize.models.workflow import Workflow

        self.n += 1
        n = self.n
        self.wid, self.sid = f"wf{n}", f"s{n}"
        self.task_ids = {self._tid(t) for t in ("t1", "n2", "n3", "n4")}
        wf = Workflow(id=self.wid, application="verif", name="c07")
        st = StageExecution(id=self.sid, ref_id="s", type="verif", name="s", context={"k1": 1},
                            tasks=[TaskExecution(id=self._tid("t1"), name="t1", implementing_class="verif",
                                                 stage_start=True, stage_end=True)])
        stages = [st]
        self.aux_ids = {}
        for w in c["writers"]:
            self.aux_ids[w] = f"a{n}w{w}"
            stages.append(StageExecution(id=self.aux_ids[w], ref_id=f"a{w}", type="verif", name=f"a{w}", context={"k1": 1}))
        wf.stages = stages
        for s in stages:
            s.execution = wf
        self._wf = wf   # keep alive (stages hold weak references)
        self.store.store(wf)

    def _handler(self, retries: int):
        h = self.handlers.get(retries)
        if h is None:
            from stabilize.handlers.signal_stage import SignalStageHandler
            from stabilize.resilience.config import HandlerConfig

            h = SignalStageHandler(self.queue, self.store,
                                   handler_config=HandlerConfig(concurrency_max_retries=retries, concurrency_min_delay_ms=1,
                                                                concurrency_max_delay_ms=1, concurrency_jitter=0.0))
            self.handlers[retries] = h
        return h

    def _job(self, c: dict):
        """read stage -> modify -> save, the way a handler does it (public API only)."""
        from stabilize.errors import ConcurrencyError
        from stabilize.models.status import WorkflowStatus
        from stabilize.models.task import TaskExecution

        store, queue, sid = self.store, self.queue, self.sid
        statuses = {2: "RUNNING", 3: "SUCCEEDED", 4: "CANCELED"}
        use_aux = c["aux"] and c["txn"]
        handler = self._handler(c["retries"])

        def job(wt: Writer) -> None:
            w = wt.w
            wt.stage = wt.aux = None

            def attempt() -> None:
                aux = None
                if use_aux:
                    aux = store.retrieve_stage(self.aux_ids[w])
                    aux.context[f"k{w}"] = w
                    wt.aux = aux
                stage = store.retrieve_stage(sid)
                wt.stage = stage
                phase = stage.status.name
                if w in c.get("ctxs", c["writers"]):
                    stage.context[f"k{w}"] = w
                if w in c["outs"]:
                    stage.outputs[f"o{w}"] = w
                if w in c["status"]:
                    stage.status = WorkflowStatus[statuses[w]]
                if w in c["task"]:
                    next(t for t in stage.tasks if t.name == "t1").status = WorkflowStatus[statuses[w]]
                if w in c["adds"] and not any(t.name == f"n{w}" for t in stage.tasks):
                    t = TaskExecution(id=self._tid(f"n{w}"), name=f"n{w}", implementing_class="verif")
                    t.stage = stage
                    stage.tasks.append(t)
                exp = phase if c["phase"] else None
                if c["txn"]:
                    with store.transaction(queue) as txn:
                        if aux is not None:
                            txn.store_stage(aux)
                        txn.store_stage(stage, expected_phase=exp)
                else:
                    store.store_stage(stage, expected_phase=exp)

            try:
                handler.retry_on_concurrency_error(attempt, f"verif writer {w}")
                wt.res = "ok"
            except ConcurrencyError:
                wt.res = "CE"
            except sqlite3.OperationalError as e:
                wt.res = "locked" if "locked" in str(e) else "OperationalError:" + str(e)
            except Exception as e:  # noqa: BLE001
                wt.res = type(e).__name__
            if wt.res != "ok" and not c["txn"]:
                # what the engine does next on this thread's connection: a DML of its own + commit
                wt.mode = "dc"
                store.mark_message_processed(f"verif-{self.n}-{w}", handler_type="verif", execution_id=self.wid)

        return job

    # -------- observation
    def read_db(self, c: dict) -> dict:
        r = self.raw.execute("SELECT status, version, context, outputs FROM stage_executions WHERE id = ?",
                             (self.sid,)).fetchone()
        st = {"status": r[0], "ver": r[1], "ctx": sorted(json.loads(r[2] or "{}")), "out": sorted(json.loads(r[3] or "{}"))}
        tk = {}
        for t in self.raw.execute("SELECT name, status, version FROM task_executions WHERE stage_id = ? ORDER BY id",
                                  (self.sid,)).fetchall():
            tk[t[0]] = {"status": t[1], "ver": t[2]}
        aux = {}
        for w in c["writers"]:
            a = self.raw.execute("SELECT version, context FROM stage_executions WHERE id = ?", (self.aux_ids[w],)).fetchone()
            aux[str(w)] = {"ver": a[0], "ctx": sorted(json.loads(a[1] or "{}"))}
        return {"st": st, "tk": tk, "aux": aux}

    @staticmethod
    def _canon_db(d: dict) -> dict:
        return {"st": {"status": d["st"]["status"], "ver": d["st"]["ver"], "ctx": sorted(d["st"]["ctx"]), "out": sorted(d["st"]["out"])},
                "tk": {k: {"status": v["status"], "ver": v["ver"]} for k, v in d["tk"].items()},
                "aux": {k: {"ver": v["ver"], "ctx": sorted(v["ctx"])} for k, v in d["aux"].items()}}

    # -------- one behaviour
    def replay(self, c: dict, beh: dict, corrupt: dict | None = None) -> dict:
        """Returns {ok, kind?: 'projection'|'statement'|'machinery', at?, what?, expected?, observed?}."""
        self._setup(c)
        job = self._job(c)
        ws = {w: self.writers[w] for w in c["writers"]}
        first = "ra" if (c["aux"] and c["txn"]) else "rs"
        i0 = c.get("init", "NOT_STARTED")
        init = {"st": {"status": i0, "ver": 0, "ctx": ["k1"], "out": []},
                "tk": {"t1": {"status": i0, "ver": 0}},
                "aux": {str(w): {"ver": 0, "ctx": ["k1"]} for w in c["writers"]}}
        exp_db = init
        try:
            for w, wt in ws.items():
                self._start(wt, job)
                if wt.at != first:
                    return self._fail("statement", -1, f"writer {w} starts at statement '{wt.at}', the model at '{first}'", first, wt.at)
            for i, s in enumerate(beh["steps"]):
                w = s["w"]
                wt = ws[w]
                if wt.at != s["a"]:
                    return self._fail("statement", i, f"writer {w} is about to issue '{wt.at}', the model's step is '{s['a']}'", s["a"], wt.at)
                self._step(wt)
                if wt.err and wt.err != "aborted":
                    return self._fail("machinery", i, f"writer {w} crashed: {wt.err}", None, None)
                if "same" not in s["db"]:
                    exp_db = self._canon_db(s["db"])
                if corrupt and corrupt.get("step") == i:
                    exp_db = json.loads(json.dumps(exp_db))
                    exp_db["st"]["ver"] += 1
                # (a) committed rows
                got = self.read_db(c)
                if got != exp_db:
                    return self._fail("projection", i, f"after step {i} ({w}:{s['a']}:{s['r']}) the committed rows differ from the model",
                                      exp_db, got)
                # (b) outcome of the statement (the CAS hit or missed), as far as the next statement shows it:
                #     this IS the property ("at most one save based on a version succeeds, the other fails")
                if s["a"] in OUTCOME and wt.at != s["pc"]:
                    seen = OUTCOME[s["a"]].get(wt.at)
                    want = OUTCOME[s["a"]].get(s["pc"])
                    if seen != want:
                        return self._fail("projection", i, f"statement {w}:{s['a']} must {s['r']} according to the model (next: '{s['pc']}') "
                                          f"but the store went on to '{wt.at}' ({seen})", s["r"], seen)
                #     ... and "is retried on fresh data": after a failed attempt the model's writer re-reads the stage
                #     (RetriedOnFresh); a writer that goes straight to its next save is retrying with the stale object
                if s["pc"] in ("rs", "ra") and s["att"] > 1 and wt.at != s["pc"]:
                    how = (f"reports '{wt.res}' without another attempt" if wt.at in ("done", "dc") else f"goes on to '{wt.at}'")
                    return self._fail("projection", i, f"after the failed attempt ({w}:{s['a']}:{s['r']}) writer {w} {how} instead of "
                                      "re-reading the stage: the save is not retried on fresh data (RetriedOnFresh / LoserSeesError)",
                                      s["pc"], wt.at)
                # (c) next statement of the writer / its reported result
                if wt.at != s["pc"]:
                    return self._fail("statement", i, f"after {w}:{s['a']}:{s['r']} writer {w} is at '{wt.at}', the model at '{s['pc']}'",
                                      s["pc"], wt.at)
                res = wt.res if (wt.at == "done" or wt.mode == "dc") else "none"
                if s["pc"] in ("done", "dc") and res != s["res"]:
                    return self._fail("projection", i, f"writer {w} reported '{res}', the model says '{s['res']}'", s["res"], res)
                # (c) write-lock holder (a connection is inside a transaction iff the model says it holds the lock)
                if not c["busy"]:
                    for w2, wt2 in ws.items():
                        holds = bool(wt2.conn.in_transaction)
                        if holds != (s["lock"] == w2):
                            return self._fail("statement", i, f"after step {i} writer {w2} in_transaction={holds}, model lock={s['lock']}",
                                              s["lock"], holds)
                # (d) in-memory versions of the object the writer holds
                if s["a"] in ("us", "ut", "it", "co", "rb") and wt.stage is not None:
                    tv = {t.name: t.version for t in wt.stage.tasks}
                    if wt.stage.version != s["ov"] or tv != s["tv"]:
                        return self._fail("projection", i, f"in-memory versions of writer {w} after {s['a']}:{s['r']}",
                                          {"stage": s["ov"], "tasks": s["tv"]}, {"stage": wt.stage.version, "tasks": tv})
                if s["a"] in ("ua", "rb", "co") and wt.aux is not None and wt.aux.version != s["av"]:
                    return self._fail("projection", i, f"in-memory version of writer {w}'s private stage after {s['a']}", s["av"], wt.aux.version)
            # end: every writer done, results and final rows
            fin = beh["final"]
            for w, wt in ws.items():
                if wt.at != "done":
                    return self._fail("statement", len(beh["steps"]), f"writer {w} still at '{wt.at}' when the model is done", "done", wt.at)
                if wt.res != fin["res"][str(w)]:
                    return self._fail("projection", len(beh["steps"]), f"final result of writer {w}", fin["res"][str(w)], wt.res)
            got = self.read_db(c)
            if got != self._canon_db(fin["db"]):
                return self._fail("projection", len(beh["steps"]), "final rows differ from the fold of the successful saves",
                                  self._canon_db(fin["db"]), got)
            return {"ok": True}
        except RuntimeError as e:
            return self._fail("machinery", -1, str(e), None, None)
        finally:
            try:
                self._abort_all()
            except RuntimeError:
                pass

    # -------- schedules that do not follow the specification's statement sequence
    def free_run(self, c: dict, plan: list) -> dict:
        """plan = [[writer, n statements], ...]: the writers are stepped at EVERY SQL statement / commit / rollback in
        that order (then each runs to its end), whatever statements the store issues.  A writer about to write while
        another one holds SQLite's write lock would only wait for it: the holder is stepped instead.
        Returns {"res": {w: result}, "db": committed rows, "steps": schedule actually taken}."""
        self._setup(c)
        job = self._job(c)
        ws = {w: self.writers[w] for w in c["writers"]}
        self.free = True
        taken = []
        try:
            for wt in ws.values():
                self._start(wt, job)

            def holder():
                return next((w for w, wt in ws.items() if wt.at != "done" and wt.conn.in_transaction), None)

            for w, k in list(plan) + [[w, 10 ** 6] for w in ws]:
                n = 0
                guard = 0
                while ws[w].at != "done" and n < k:
                    guard += 1
                    if guard > 400:
                        raise RuntimeError("free schedule does not terminate")
                    h = holder()
                    mover = w
                    if h is not None and h != w and ws[w].at in ("w", "co"):
                        mover = h
                    wt = ws[mover]
                    taken.append(f"{mover}{wt.at}")
                    self._step(wt)
                    if wt.err and wt.err != "aborted":
                        raise RuntimeError(f"writer {mover} crashed: {wt.err}")
                    if mover == w:
                        n += 1
            return {"res": {str(w): wt.res for w, wt in ws.items()}, "db": self.read_db(c), "steps": " ".join(taken)}
        finally:
            self.free = False
            try:
                self._abort_all()
            except RuntimeError:
                pass

    def _fail(self, kind, at, what, expected, observed) -> dict:
        return {"ok": False, "kind": kind, "at": at, "what": what, "expected": expected, "observed": observed}


_REP: Replayer | None = None
SCENARIOS: dict[str, type] = {"store": Replayer}     # harness/store_pairs.py adds the engine-level pairs


def _worker_init(journal: str, scenario: str = "store", parent: str | None = None) -> None:
    global _REP
    _REP = SCENARIOS[scenario](journal, parent)
    import atexit

    atexit.register(_REP.close)


def _worker_job(args) -> tuple[int, list[dict], dict | None]:
    c, path, idx0, pick, corrupt = args
    behs = load_chunk(path) if isinstance(path, str) else path
    out = []
    n = 0
    sample = None
    for k, b in enumerate(behs):
        if pick is not None and k not in pick:
            continue
        n += 1
        if sample is None:
            sample = b
        r = _REP.replay(c, b, corrupt if (corrupt and corrupt.get("beh") == idx0 + k) else None)
        if not r["ok"]:
            r["beh"] = idx0 + k
            r["behaviour"] = b
            r["journal"] = _REP.journal
            out.append(r)
    return n, out, sample


def replay_all(work: list[tuple[dict, list]], journal: str, corrupt: dict | None = None, scenario: str = "store"):
    """work: [(config, [(chunk file | list of behaviours, first index, set of picked offsets | None)])]
    -> (#replayed, failures, wall, {config: (#replayed, one sample behaviour)})."""
    import concurrent.futures as cf
    import multiprocessing as mp

    t0 = time.time()
    jobs = []
    for c, parts in work:
        for path, idx0, pick in parts:
            jobs.append((c, path, idx0, pick, corrupt if (corrupt and corrupt.get("config") == c["name"]) else None))
    fails = []
    per: dict[str, list] = {}
    n = 0
    if not jobs:
        return 0, [], 0.0, per
    parent = core.scratch_dir("c07db")
    try:
        with cf.ProcessPoolExecutor(max_workers=NPROC, mp_context=mp.get_context("fork"), initializer=_worker_init,
                                    initargs=(journal, scenario, parent)) as ex:
            for job, (k, res, sample) in zip(jobs, ex.map(_worker_job, jobs, chunksize=1)):
                c = job[0]
                n += k
                e = per.setdefault(c["name"], [0, None])
                e[0] += k
                if e[1] is None and sample is not None:
                    e[1] = sample
                for r in res:
                    r["config"] = c["name"]
                    fails.append(r)
    finally:
        shutil.rmtree(parent, ignore_errors=True)
    return n, fails, time.time() - t0, per


def _free_job(args) -> list[dict]:
    c, plans = args
    out = []
    for plan in plans:
        try:
            r = _REP.free_run(c, plan)
        except RuntimeError as e:
            r = {"error": str(e)}
        r["plan"] = plan
        out.append(r)
    return out


def final_key(res: dict, db: dict) -> str:
    return json.dumps({"res": {str(k): v for k, v in res.items()}, "db": Replayer._canon_db(db)}, sort_keys=True)


def free_plans(c: dict, tier: str, rnd: random.Random) -> list[list]:
    """every schedule with at most two preemptions (a runs j statements, b runs k, a runs to its end, b finishes)"""
    a, b = c["writers"][:2]
    J = 16 if tier == "quick" else 26
    plans = []
    for x, y in ((a, b), (b, a)):
        for j in range(0, J + 1):
            plans.append([[x, j], [y, 10 ** 6]])                   # one preemption
            for k in range(1, J + 1):
                plans.append([[x, j], [y, k], [x, 10 ** 6]])       # two
    if tier == "quick":
        one = [p for p in plans if len(p) == 2]
        two = [p for p in plans if len(p) == 3]
        plans = one + rnd.sample(two, min(len(two), 160))
    return plans


def free_all(work: list[tuple[dict, list]], journal: str = "DELETE", scenario: str = "store"):
    """work: [(config, plans)] -> list of (config, result)"""
    import concurrent.futures as cf
    import multiprocessing as mp

    jobs = []
    for c, plans in work:
        for i in range(0, len(plans), 40):
            jobs.append((c, plans[i:i + 40]))
    out = []
    if not jobs:
        return out
    parent = core.scratch_dir("c07free")
    try:
        with cf.ProcessPoolExecutor(max_workers=NPROC, mp_context=mp.get_context("fork"), initializer=_worker_init,
                                    initargs=(journal, scenario, parent)) as ex:
            for job, res in zip(jobs, ex.map(_free_job, jobs, chunksize=1)):
                out += [(job[0], r) for r in res]
    finally:
        shutil.rmtree(parent, ignore_errors=True)
    return out


def allowed_finals(e: dict) -> set:
    fin = set()
    for path, _, _ in e["chunks"]:
        for b in load_chunk(path):
            fin.add(final_key(b["final"]["res"], b["final"]["db"]))
    return fin


def free_component(rep, cs: list[dict], exported: dict, tier: str, rnd: random.Random, kind: str = "free") -> dict:
    """Statement schedules that do NOT follow Store.tla's statement sequence, judged by its TERMINAL states: whatever
    statements the store issues, the writers' results and the committed rows at the end must be the end of SOME behaviour
    of the specification for that configuration (= one winner per version, the loser reports the conflict, the final
    row is the fold of the successful saves).  This keeps deciding the property when the code's statement sequence
    changes (where the lock-step replay can only report drift)."""
    t0 = time.time()
    work = []
    allowed = {}
    for c in cs:
        if len(c["writers"]) != 2 or c["busy"] or c["simulate"] or c["reduced"]:
            continue
        allowed[c["name"]] = allowed_finals(exported[c["name"]])
        work.append((c, free_plans(c, tier, rnd)))
    res = []
    for scen in sorted({c.get("scenario", "store") for c, _ in work}):
        res += free_all([(c, p) for c, p in work if c.get("scenario", "store") == scen], "DELETE", scen)
    n = bad = inconclusive = 0
    distinct = set()
    for c, r in res:
        n += 1
        if "error" in r:
            rep.machinery_failure(f"free schedule {c['name']} {r['plan']}: {r['error']}")
            continue
        if any(v is None or "locked" in str(v) or "OperationalError" in str(v) for v in r["res"].values()):
            inconclusive += 1        # a lock wait timed out: not an outcome the non-busy configurations describe
            continue
        distinct.add(r["steps"])
        if final_key(r["res"], r["db"]) not in allowed[c["name"]]:
            bad += 1
            if bad <= 6:
                doc = {"kind": kind, "config": c, "plan": r["plan"], "journal": "DELETE",
                       "observed": {"res": r["res"], "db": r["db"], "steps": r["steps"]}}
                rep.violation(f"{c['name']} schedule {r['steps']}: results {r['res']} with final rows {json.dumps(r['db'])[:300]} are not "
                              "the end of any behaviour of Store.tla for this configuration (two saves based on one version "
                              "both succeeded, or a committed change was lost, or the loser saw no conflict)",
                              {"formula": "TerminalStateAllowed", "source": "free-schedule", "config": c["name"]}, doc)
    if n and inconclusive > n // 5:
        rep.machinery_failure(f"free schedules: {inconclusive}/{n} ended in a lock time-out")
    return {"configs": len(work), "schedules_run": n, "distinct_statement_schedules": len(distinct), "not_allowed": bad,
            "lock_timeouts_not_judged": inconclusive, "wall_s": round(time.time() - t0, 1),
            "judge": "final (results, rows) must be the final state of some behaviour TLC enumerated for the configuration"}


def pick_parts(chunks: list[tuple[str, int, int]], total: int, cap: int, rnd: random.Random) -> list[tuple[str, int, set | None]]:
    """All behaviours if total <= cap, else a seeded sample of cap of them."""
    if total <= cap:
        return [(p, i0, None) for p, i0, _ in chunks]
    chosen = set(rnd.sample(range(total), cap))
    parts = []
    for p, i0, k in chunks:
        pick = {i - i0 for i in range(i0, i0 + k) if i in chosen}
        if pick:
            parts.append((p, i0, pick))
    return parts


# ------------------------------------------------------------------------------------------------
# check driver
# ------------------------------------------------------------------------------------------------


def beh_signature(b: dict) -> str:
    return " ".join(f"{s['w']}{s['a']}{'!' if s['r'] in ('miss', 'dup', 'busy') else ''}" for s in b["steps"])


ACTIONS = ["RdAux", "RdStage", "RdTasks", "Exists", "UpdAux", "UpdStage", "UpdTask", "InsTask", "Commit", "Rollback",
           "DanglingCommit", "Busy"]


def run(pid: str, tier: str, seed: int) -> int:
    import concurrent.futures as cf

    rep = evidence.Reporter(pid)
    t0 = time.time()
    rnd = random.Random(seed)
    cs = configs(tier)
    only = os.environ.get("VERIF_C07_ONLY")
    if only:
        cs = [c for c in cs if re.search(only, c["name"])]
    mutants = []
    for what, sw, over, expect in MODEL_MUTANTS:
        mutants.append((mk("mutant: " + what, **{**over, **sw}), expect, what))
    outdir = core.scratch_dir("c07beh")
    try:
        # ---- 1. TLC: model checking + behaviour export + model mutants, in parallel (big exports first)
        with cf.ThreadPoolExecutor(max_workers=NPROC) as ex:
            order = sorted(cs, key=lambda c: (not c["reduced"], not c["simulate"]))
            f_ex = {c["name"]: ex.submit(export_behaviours, c, seed, outdir) for c in order}
            f_mc = {c["name"]: ex.submit(run_mc, c) for c in cs}
            # TLC reports only the first failing invariant of a state: one run per formula expected to fail
            f_mu = [(c, expect, what, [ex.submit(run_mc, c, [inv]) for inv in sorted(expect)] or [ex.submit(run_mc, c, INVARIANTS)])
                    for c, expect, what in mutants]
            mc = {k: f.result() for k, f in f_mc.items()}
            exported = {k: f.result() for k, f in f_ex.items()}
            mu = [(c, expect, what, [f.result() for f in fs]) for c, expect, what, fs in f_mu]
        t_tlc = time.time() - t0

        states = transitions = 0
        per_config = {}
        cov_total: dict[str, int] = {}
        for c in cs:
            m = mc[c["name"]]
            states += m["states"]
            transitions += m["transitions"]
            for a, n in m["coverage"].items():
                cov_total[a] = cov_total.get(a, 0) + n
            if m["errors"] or m["states"] == 0:
                rep.machinery_failure(f"TLC failed on config {c['name']}: {m['errors'][:2]} {m['out_tail'][-600:]}")
            for inv in m["violated"]:
                rep.violation(f"model: {inv} is violated in config {c['name']}", {"formula": inv, "source": "model", "config": c},
                              {"kind": "model", "config": c, "formula": inv})
            e = exported[c["name"]]
            if e["errors"] or not e["count"]:
                rep.machinery_failure(f"TLC behaviour export failed on config {c['name']}: {e['errors'][:2]} {e['out_tail'][-600:]}")
            per_config[c["name"]] = {"states": m["states"], "transitions": m["transitions"], "behaviours": e["count"],
                                     "grain": "full, sampled by TLC -simulate" if c["simulate"] else
                                     ("reduced, exhaustive" if c["reduced"] else "full, exhaustive"),
                                     "mc_wall": m["wall"], "export_wall": e["wall"]}
        # vacuity: every action of the specification fired somewhere
        dead = [a for a in ACTIONS if cov_total.get(a, 0) == 0]
        if dead and not only:
            rep.machinery_failure(f"vacuity: actions never taken in any configuration: {dead}")
        mutant_rows = []
        for c, expect, what, ms in mu:
            got = set()
            for m in ms:
                got |= set(m["violated"])
            ok = (got >= expect) if expect else (not got)
            mutant_rows.append({"mutant": what, "expected_to_fail": sorted(expect), "failed": sorted(got), "as_expected": ok})
            m = next((m for m in ms if m["errors"] or m["states"] == 0), None)
            if m is not None:
                rep.machinery_failure(f"TLC failed on model mutant '{what}': {m['errors'][:2]} {m['out_tail'][-600:]}")
            elif not ok:
                rep.machinery_failure(f"model mutant '{what}': expected {sorted(expect)} to fail, TLC reports {sorted(got)}")

        # ---- 2. replay on the real store
        cap = int(os.environ.get("VERIF_C07_CAP", "700" if tier == "quick" else "1000000"))
        busy_cap = 200 if tier == "quick" else 1500
        work = []
        enumerated = 0
        for c in sorted(cs, key=lambda c: -exported[c["name"]]["count"]):
            e = exported[c["name"]]
            enumerated += e["count"]
            work.append((c, pick_parts(e["chunks"], e["count"], busy_cap if c["busy"] else cap, rnd)))
        corrupt = None
        if os.environ.get("VERIF_C07_CORRUPT"):      # binding self-test: corrupt one expected value
            corrupt = {"config": work[0][0]["name"], "beh": 0, "step": 5}
        n_rep, fails, t_rep, per = replay_all(work, "DELETE", corrupt)
        for name, (k, _) in per.items():
            per_config[name]["replayed"] = k
        n_wal = 0
        if tier == "thorough":
            wal_work = [(c, pick_parts(exported[c["name"]]["chunks"], exported[c["name"]]["count"], 150 if c["busy"] else 600, rnd))
                        for c, _ in work]
            n_wal, fails_wal, t_wal, per_wal = replay_all(wal_work, "WAL")
            fails += fails_wal
            t_rep += t_wal
            for name, (k, _) in per_wal.items():
                per_config[name]["replayed_wal"] = k
        by_cfg = {c["name"]: c for c in cs}
        stmt_drift = 0
        for f in fails:
            c = by_cfg[f["config"]]
            doc = {"kind": "replay", "config": c, "behaviour": f["behaviour"], "journal": f["journal"],
                   "failure": {k: f[k] for k in ("kind", "at", "what", "expected", "observed")}}
            if f["kind"] == "machinery":
                rep.machinery_failure(f"replay {f['config']}#{f['beh']}: {f['what']}")
            elif f["kind"] == "statement":
                # The statement sequence differs but nothing in the property's projection did (yet): DRIFT.
                # A drifted replay cannot be continued, so drift on more than a handful of behaviours means
                # the specification no longer describes the code: machinery failure, not an alarm.
                stmt_drift += 1
            else:
                rep.violation(f"{f['config']} behaviour {f['beh']} ({f['journal']}): {f['what']}; expected "
                              f"{json.dumps(f['expected'])[:300]} observed {json.dumps(f['observed'])[:300]}",
                              {"formula": "Conformance", "source": "replay", "config": c,
                               "failure": {k: f[k] for k in ("kind", "at", "what", "expected", "observed")}}, doc)
        if stmt_drift:
            ex0 = next(f for f in fails if f["kind"] == "statement")
            msg = (f"{stmt_drift} replayed behaviours left the specification's statement sequence, e.g. "
                   f"{ex0['config']}#{ex0['beh']}: {ex0['what']}")
            print("DRIFT: " + msg)

        # ---- 2b. schedules off the specification's statement sequence, judged by its terminal states.  When the store's
        # statement sequence has drifted away from Store.tla the lock-step replay decides nothing any more: the property
        # is then decided by these schedules alone, so all of them are run (DESIGN 13.3, C07)
        drifted = stmt_drift > max(3, n_rep // 100)
        free = free_component(rep, cs, exported, "thorough" if drifted else tier, rnd)
        free["statement_sequence_drifted"] = drifted

        # ---- 3. engine-level pairs
        pairs = None
        if not only:
            try:
                from . import store_pairs
            except ImportError:
                store_pairs = None
            if store_pairs is not None:
                pairs = store_pairs.run_pairs(rep, tier, seed)

        wall = time.time() - t0
        samples = []
        for name, (k, b) in list(per.items())[:3] + list(per.items())[-3:]:
            if b:
                samples.append({"config": name, "schedule": beh_signature(b), "results": b["final"]["res"],
                                "final_row": b["final"]["db"]["st"]})
        coverage = {
            "states": states, "transitions": transitions,
            "traces_validated_against_impl": n_rep + n_wal + (pairs or {}).get("schedules_replayed", 0),
            "samples": samples, "exhaustive": False,
            "configs": len(cs), "per_config": per_config, "behaviours_enumerated": enumerated,
            "behaviours_replayed_delete_journal": n_rep, "behaviours_replayed_wal": n_wal,
            "statement_drift": stmt_drift, "action_coverage": {a: cov_total.get(a, 0) for a in ACTIONS},
            "model_mutants": mutant_rows, "tlc_wall_s": round(t_tlc, 1), "replay_wall_s": round(t_rep, 1),
            "bounds": "one shared stage row with one task (+ up to one new task per writer, + one private stage row per writer in "
                      "the aux configs); 2 writers: every statement interleaving, exhaustively model-checked AND replayed; 3 writers: "
                      "exhaustively model-checked, replayed exhaustively at the reduced grain (only the lock holder moves while a "
                      "write transaction is open; thorough) and as a TLC -simulate sample at full grain; retries 0..2",
        }
        if pairs is not None:
            coverage["engine_pairs"] = pairs
        coverage["free_schedules"] = free
        evidence.write_evidence(pid, tier, seed, "model_checking", coverage, wall, violations=len(rep.violations),
                                assumptions=["SQLite serialises write transactions (first DML .. commit) and gives single-statement "
                                             "read snapshots outside a transaction (probed: DESIGN 4.6; re-checked by the lock-holder "
                                             "comparison in every replayed step and by the busy configs)",
                                             "default journal mode DELETE; WAL replayed additionally in the thorough tier"])
        print(f"C07 {tier}: {len(cs)} configs, {states} states / {transitions} transitions model-checked, "
              f"{enumerated} interleavings enumerated, {n_rep}+{n_wal} replayed on the real store, "
              f"{len(fails)} disagreements, model mutants {sum(1 for r in mutant_rows if r['as_expected'])}/{len(mutant_rows)} as expected, "
              f"wall {wall:.1f}s (TLC {t_tlc:.1f}s, replay {t_rep:.1f}s)")
        return rep.finish()
    finally:
        shutil.rmtree(outdir, ignore_errors=True)


def replay(pid: str, path: str) -> int:
    doc = json.load(open(path))
    if doc.get("kind") == "model":
        m = run_mc(doc["config"], [doc["formula"]])
        print("model check of", doc["config"]["name"], "violated:", m["violated"])
        if doc["formula"] in m["violated"]:
            print(f"VIOLATION property={pid} replay={path}")
            return 1
        return 0 if not m["errors"] else 2
    if doc.get("kind") == "pair":
        from . import store_pairs

        return store_pairs.replay(pid, path, doc)
    if doc.get("kind") == "free":
        from . import store_pairs  # noqa: F401  (registers the pair scenarios)
    if doc.get("kind") == "free":
        outdir = core.scratch_dir("c07beh")
        try:
            e = export_behaviours(doc["config"], 1, outdir)
            ok = allowed_finals(e)
            res = free_all([(doc["config"], [doc["plan"]])], "DELETE", doc["config"].get("scenario", "store"))
        finally:
            shutil.rmtree(outdir, ignore_errors=True)
        for _, r in res:
            print("schedule:", r.get("steps"), "results:", r.get("res"), "rows:", json.dumps(r.get("db"))[:400])
            if "error" in r:
                return 2
            if final_key(r["res"], r["db"]) not in ok:
                print(f"VIOLATION property={pid} replay={path}")
                return 1
        print("the outcome is the end of a behaviour of Store.tla")
        return 0
    n, fails, _, _ = replay_all([(doc["config"], [([doc["behaviour"]], 0, None)])], doc.get("journal", "DELETE"))
    for f in fails:
        print("replayed:", f["kind"], f["what"], "expected", f["expected"], "observed", f["observed"])
    if any(f["kind"] == "projection" for f in fails):
        print(f"VIOLATION property={pid} replay={path}")
        return 1
    if fails:
        return 2
    print("replayed 1 behaviour: the real store agrees with the specification")
    return 0


if __name__ == "__main__":
    sys.exit(run("C07", os.environ.get("VERIF_TIER", "quick"), int(os.environ.get("VERIF_SEED", "1"))))
