"""Drives the REAL engine (SqliteWorkflowStore, SqliteQueue, QueueProcessor handlers, recovery)
one step at a time and records one event per linearization point (DESIGN 4.1, 4.3).

The Python side never judges a property: it drives, records and projects.
"""
from __future__ import annotations

import os
import random
import shutil
from datetime import UTC, datetime
from typing import Any

from . import core
from .core import Hooks, VerifCrash
from .programs import build_decoy, build_workflow, task_class_name
from .project import HARNESS_DDL, Projector
from .vtask import make_task, LEDGER, VerifTask


def view_hash(view: dict) -> str:
    import hashlib
    import json as _json

    return hashlib.sha1(_json.dumps(view, sort_keys=True, default=str).encode()).hexdigest()[:12]


class MachineryError(Exception):
    pass


class Run:
    def __init__(self, prog: dict, tag: str = "run", events: bool = False, keep: bool = False,
                 dedup_trust: bool = False) -> None:
        self.prog = prog
        self.dir = core.scratch_dir(tag)
        self.db = os.path.join(self.dir, "w.db")
        self.cs = "sqlite:///" + self.db
        self.trace: list[dict[str, Any]] = []
        self.commit_no = 0
        self.crash_at: set[int] = set()
        self.crash_at_exec: set[int] = set()   # crash right after the n-th task execution (result not yet recorded)
        self.exec_no = 0
        self._pending_crash = False
        self.force_row: int | None = None
        self.force_hit = False
        self.in_sweep = False
        self.quiet = True
        self.crashes = 0
        self.with_events = events
        self.keep = keep
        self.dedup_trust = dedup_trust
        self.threaded = os.environ.get("VERIF_THREADED", "") == "1"      # deliveries on fresh worker threads
        self.wf_id = "W-" + prog["name"]
        self._dedup_seen = False
        self.handled = 0
        self.raw = None
        self.proj: Projector | None = None

    # -- life cycle ----------------------------------------------------------------------------
    def start(self) -> None:
        from stabilize import SqliteQueue, SqliteWorkflowStore
        from stabilize.queue.messages import StartWorkflow

        core.reset_volatile()
        LEDGER.entries.clear()
        LEDGER.on_exec = self._on_exec
        Hooks.on_commit = self._on_commit
        Hooks.on_execute = self._on_execute
        self.quiet = True
        store = SqliteWorkflowStore(self.cs, create_tables=True)
        queue = SqliteQueue(self.cs)
        queue._create_table()
        self.raw = core.raw_connect(self.db)
        self.raw.executescript(HARNESS_DDL)
        if os.environ.get("VERIF_DECOY", "1") != "0":
            store.store(build_decoy(self.prog))       # an older finished workflow with the same ref_ids (see build_decoy)
        wf = build_workflow(self.prog)
        store.store(wf)
        with store.transaction(queue) as txn:
            txn.push_message(StartWorkflow(execution_type=wf.type.value, execution_id=wf.id))
        self.proj = Projector(self.raw, self.wf_id)
        self.boot()
        self.quiet = False
        self.emit({"e": "init", "s": self.proj.state()})

    def boot(self) -> None:
        from stabilize import QueueProcessor, SqliteQueue, SqliteWorkflowStore, TaskRegistry
        from stabilize.queue.processor.config import QueueProcessorConfig

        q = self.quiet
        self.quiet = True
        self.store = SqliteWorkflowStore(self.cs, create_tables=False)
        self.queue = SqliteQueue(self.cs)
        from .programs import register_builder

        register_builder(self.prog)
        reg = TaskRegistry()
        for sd in self.prog["stages"]:
            for td in sd["tasks"]:
                reg.register(task_class_name(td["name"]), make_task(td))
                reg.register_verifier("vverif", __import__("harness.vtask", fromlist=["vverif"]).vverif)
        b, c = core.shared_resilience()
        cfg = QueueProcessorConfig.from_handler_config(None)
        cfg.enable_lock_heartbeat = False
        cfg.dedup_trust_negative_cache = self.dedup_trust
        if self.with_events:
            self._configure_events()
        self.proc = QueueProcessor(self.queue, config=cfg, store=self.store, task_registry=reg,
                                   bulkhead_manager=b, circuit_factory=c)
        self._wrap()
        self.quiet = q

    def _configure_events(self) -> None:
        from stabilize.events import configure_event_sourcing, SqliteEventStore

        es = SqliteEventStore(self.cs, create_tables=True)
        configure_event_sourcing(es)
        self.event_store = es

    def _wrap(self) -> None:
        run = self
        orig_proc = self.store.is_message_processed

        def is_processed(mid):
            if getattr(run, "lookup_fault", False):      # injected: the durable duplicate look-up itself fails
                import sqlite3

                run.lookup_fault = False
                run._dedup_seen = True
                run.emit({"e": "dedupfault"})
                raise sqlite3.OperationalError("database is locked")
            r = orig_proc(mid)
            run._dedup_seen = True
            run.emit({"e": "dedup", "res": bool(r)})
            return r

        self.store.is_message_processed = is_processed  # type: ignore[method-assign]
        for mt, h in list(self.proc._handlers.items()):
            orig = h.handle

            def handle(message, _orig=orig, _mt=mt.__name__):
                if not run._dedup_seen:
                    run.emit({"e": "trusted"})   # handler entered without the durable duplicate check
                try:
                    _orig(message)
                except VerifCrash:
                    raise
                except Exception as e:  # noqa: BLE001
                    run.emit({"e": "hraise", "typ": _mt, "err": type(e).__name__, "msg": str(e)[:200]})
                    raise
                run.emit({"e": "hret", "typ": _mt})

            h.handle = handle  # type: ignore[method-assign]

    def close(self) -> None:
        Hooks.on_commit = None
        Hooks.on_execute = None
        LEDGER.on_exec = None
        try:
            if self.raw is not None:
                self.raw.close()
        except Exception:
            pass
        core.reset_volatile()
        if not self.keep:
            shutil.rmtree(self.dir, ignore_errors=True)

    # -- hooks ---------------------------------------------------------------------------------
    def emit(self, ev: dict) -> None:
        if not self.quiet:
            self.trace.append(ev)

    def _on_commit(self, conn) -> None:
        if self.quiet:
            return
        self.commit_no += 1
        if not self.in_sweep:
            self.emit({"e": "commit", "n": self.commit_no, "s": self.proj.state(),
                       "audit": self.proj.new_audit()})
        if self.commit_no in self.crash_at:
            raise VerifCrash()

    def _on_execute(self, conn, sql, args):
        if self._pending_crash:
            self._pending_crash = False
            raise VerifCrash()
        if self.force_row is not None and "ORDER BY" in sql and "queue_messages" in sql \
                and sql.lstrip()[:6].upper() == "SELECT":
            # delivery control: the poll's candidate query is narrowed to the chosen row (whatever its ORDER BY says)
            self.force_hit = True
            return sql.replace("ORDER BY", "AND id = %d ORDER BY" % self.force_row, 1)
        return None

    def _on_exec(self, entry: dict) -> None:
        self.exec_no += 1
        if self.exec_no in self.crash_at_exec:
            self._pending_crash = True   # raised at the engine's next SQL statement (main thread)
        self.emit({"e": "exec", "task": entry["task"], "prog": entry["prog"], "jumps": entry["jumps"],
                   "sig": entry["sig"], "view": entry["view"], "vh": view_hash(entry["view"])})

    # -- queue inspection (raw) ----------------------------------------------------------------
    def rows(self) -> list[dict]:
        now = datetime.now(UTC)
        out = []
        for r in self.raw.execute("SELECT * FROM queue_messages ORDER BY id"):
            locked = bool(r["locked_until"]) and datetime.fromisoformat(r["locked_until"]) > now
            delayed = datetime.fromisoformat(r["deliver_at"]) > now
            out.append({"qid": r["id"], "typ": r["message_type"], "locked": locked, "delayed": delayed,
                        "deliver_at": r["deliver_at"], "att": r["attempts"], "max": r["max_attempts"],
                        "key": self.proj.key_of(r["id"])})
        return out

    def visible(self) -> list[dict]:
        return [r for r in self.rows() if not r["locked"] and not r["delayed"] and r["att"] < r["max"]]

    # -- steps ---------------------------------------------------------------------------------
    def deliver(self, qid: int | None = None, ack: bool = True, lookup_fault: bool = False) -> bool:
        """One delivery.  threaded: on a FRESH worker thread (own thread-local connections, closed when it ends), which is
        what a pool of queue workers whose connections are recycled does: nothing a handler did may depend on a later
        statement of the same connection to become durable.  The harness waits for the thread (still one worker)."""
        if not getattr(self, "threaded", False):
            return self._deliver(qid, ack, lookup_fault)
        import threading

        box: dict = {}

        def body():
            try:
                box["r"] = self._deliver(qid, ack, lookup_fault)
            except BaseException as e:  # noqa: BLE001  (VerifCrash is a BaseException)
                box["e"] = e
            finally:
                core.close_thread_connections()

        th = threading.Thread(target=body, name="verif-worker")
        th.start()
        th.join()
        if "e" in box:
            raise box["e"]
        return box["r"]

    def _deliver(self, qid: int | None = None, ack: bool = True, lookup_fault: bool = False) -> bool:
        """poll_one + _handle_message + ack (or withheld ack / reschedule on failure)."""
        self.lookup_fault = lookup_fault
        self.force_row = qid
        self.force_hit = False
        self._dedup_seen = False
        try:
            msg = self.queue.poll_one()
        finally:
            self.force_row = None
        if qid is not None and not self.force_hit:
            raise MachineryError("poll_one SELECT not recognised by the delivery-control rewrite")
        if msg is None:
            return False
        if qid is not None and int(msg.message_id) != qid:
            raise MachineryError("poll_one returned another row than the forced one")
        self.handled += 1
        try:
            self.proc._handle_message(msg)
        except VerifCrash:
            raise
        except Exception as e:  # noqa: BLE001
            self.emit({"e": "hfail", "err": type(e).__name__})
            msg.set_error_context(e)
            self.queue.reschedule(msg, self.proc.config.retry_delay)
            return True
        if ack:
            self.queue.ack(msg)
        else:
            self.emit({"e": "noack"})
        return True

    def warp(self, qid: int) -> None:
        self.raw.execute("UPDATE queue_messages SET deliver_at = '2000-01-01T00:00:00+00:00' WHERE id = ?", (qid,))
        self.emit({"e": "warp", "id": self.proj.key_of(qid), "s": self.proj.state()})

    def expire(self, qid: int) -> None:
        # a lapsed lock is a timestamp in the past, not NULL (a predicate on `locked_until IS NULL` must not see it as free)
        self.raw.execute("UPDATE queue_messages SET locked_until = '2000-01-01T00:00:00+00:00' WHERE id = ?", (qid,))
        self.emit({"e": "expire", "id": self.proj.key_of(qid), "s": self.proj.state()})

    def sweep(self) -> None:
        self.in_sweep = True
        try:
            self.proc.run_recovery()
        except VerifCrash:
            # killed at a commit of the sweep: what it committed is durable (recovery pushes its messages in one
            # transaction per workflow) - the sweep is an event of the run, followed by the crash
            self.in_sweep = False
            self.emit({"e": "sweep", "s": self.proj.state()})
            raise
        finally:
            self.in_sweep = False
        self.emit({"e": "sweep", "s": self.proj.state()})

    def sweep_concurrent(self, at_snap=0, at_look=0) -> None:
        """A recovery sweep with handlers running while it is under way: `at_snap` messages are delivered (in queue order)
        after the sweep has read the workflow's rows and before its first queue look-up, `at_look` more after its
        look-ups and before its push transaction.  The deliveries are nested inside the sweep at those statements (the
        sweep holds no transaction there), which is what a second worker thread would do to it."""
        state = {"phase": "read", "busy": False}
        outer = Hooks.on_execute

        def deliver_some(n) -> None:
            """n: a number of deliveries in queue order, or a list of canonical message keys to deliver in that order"""
            state["busy"] = True
            self.in_sweep = False
            Hooks.on_execute = outer
            try:
                for k in (range(n) if isinstance(n, int) else n):
                    vis = self.visible()
                    if not vis:
                        break
                    if isinstance(n, int):
                        self.deliver(vis[0]["qid"])
                    else:
                        hit = [r for r in vis if r["key"] == k]
                        if not hit:
                            raise MachineryError(f"concurrent sweep: message {k} is not deliverable")
                        self.deliver(hit[0]["qid"])
            finally:
                Hooks.on_execute = hook
                self.in_sweep = True
                state["busy"] = False

        def hook(conn, sql, args):
            if not state["busy"]:
                head = sql.lstrip()[:6].upper()
                flat = " ".join(sql.split())
                if state["phase"] == "read" and "FROM queue_messages WHERE json_extract" in flat:
                    state["phase"] = "look"
                    self.emit({"e": "sweepsnap", "s": self.proj.state()})
                    deliver_some(at_snap)
                elif state["phase"] in ("read", "look") and head == "INSERT" and not conn.in_transaction:
                    if state["phase"] == "read":
                        self.emit({"e": "sweepsnap", "s": self.proj.state()})
                        deliver_some(at_snap)
                    state["phase"] = "push"
                    self.emit({"e": "sweeplook", "s": self.proj.state()})
                    deliver_some(at_look)
            return outer(conn, sql, args) if outer else None

        self.in_sweep = True
        Hooks.on_execute = hook
        try:
            self.proc.run_recovery()
        finally:
            Hooks.on_execute = outer
            self.in_sweep = False
        if state["phase"] == "read":      # nothing to look up, nothing to push: the sweep was a pure read
            self.emit({"e": "sweepsnap", "s": self.proj.state()})
            state["phase"] = "look"
        if state["phase"] == "look":      # look-ups (if any) said: everything is queued already
            self.emit({"e": "sweeplook", "s": self.proj.state()})
        self.emit({"e": "sweeppush", "s": self.proj.state()})

    def dlq_sweep(self) -> None:
        self.in_sweep = True
        try:
            self.proc._check_dlq()
        finally:
            self.in_sweep = False
        self.emit({"e": "dlqsweep", "s": self.proj.state()})

    def send_cancel(self) -> None:
        from stabilize.queue.messages import CancelWorkflow

        q = self.quiet
        self.quiet = True
        with self.store.transaction(self.queue) as txn:
            txn.push_message(CancelWorkflow(execution_type="PIPELINE", execution_id=self.wf_id,
                                            user="verif", reason="verif"))
        self.quiet = q
        self.emit({"e": "sendcancel", "s": self.proj.state()})

    def send_signal(self, stage_ref: str, persistent: bool, name: str | None = None) -> None:
        self.signals_sent = getattr(self, "signals_sent", 0) + 1
        name = name or ("x" if self.prog.get("sigSame") else str(self.signals_sent))   # the k-th signal sent is called "k"
        from stabilize.queue.messages import SignalStage

        sid = None
        for r in self.raw.execute("SELECT id FROM stage_executions WHERE ref_id = ? AND execution_id = ?", (stage_ref, self.wf_id)):
            sid = r["id"]
        q = self.quiet
        self.quiet = True
        with self.store.transaction(self.queue) as txn:
            txn.push_message(SignalStage(execution_type="PIPELINE", execution_id=self.wf_id, stage_id=sid,
                                         signal_name=name, signal_data={"v": 1}, persistent=persistent))
        self.quiet = q
        self.emit({"e": "sendsignal", "stage": stage_ref, "pers": persistent, "s": self.proj.state()})

    def send_add_instance(self, stage_ref: str) -> None:
        from stabilize.queue.messages import AddMultiInstance

        sid = None
        for r in self.raw.execute("SELECT id FROM stage_executions WHERE ref_id = ? AND execution_id = ?", (stage_ref, self.wf_id)):
            sid = r["id"]
        q = self.quiet
        self.quiet = True
        with self.store.transaction(self.queue) as txn:
            txn.push_message(AddMultiInstance(execution_type="PIPELINE", execution_id=self.wf_id, stage_id=sid,
                                              instance_context={"n": 1}))
        self.quiet = q
        self.emit({"e": "sendadd", "stage": stage_ref, "s": self.proj.state()})

    def send_cancel_region(self, region: str) -> None:
        from stabilize.queue.messages import CancelRegion

        q = self.quiet
        self.quiet = True
        with self.store.transaction(self.queue) as txn:
            txn.push_message(CancelRegion(execution_type="PIPELINE", execution_id=self.wf_id, region=region))
        self.quiet = q
        self.emit({"e": "sendregion", "region": region, "s": self.proj.state()})

    def pause(self) -> None:
        q = self.quiet
        self.quiet = True
        self.store.pause(self.wf_id, "verif")
        self.quiet = q
        self.emit({"e": "pause", "s": self.proj.state()})

    def unpause(self) -> None:
        from stabilize import Orchestrator

        q = self.quiet
        self.quiet = True
        Orchestrator(self.queue, store=self.store).unpause(self.store.retrieve(self.wf_id))
        self.quiet = q
        self.emit({"e": "unpause", "s": self.proj.state()})

    def resume_store(self) -> None:
        """The store-level operator call `store.resume(id)` (a duplicate / late resume): a no-op unless the row is PAUSED."""
        q = self.quiet
        self.quiet = True
        self.store.resume(self.wf_id)
        self.quiet = q
        self.emit({"e": "unpause", "s": self.proj.state()})

    def restart_stage(self, stage_ref: str) -> None:
        from stabilize import Orchestrator

        sid = None
        for r in self.raw.execute("SELECT id FROM stage_executions WHERE ref_id = ? AND execution_id = ?", (stage_ref, self.wf_id)):
            sid = r["id"]
        q = self.quiet
        self.quiet = True
        Orchestrator(self.queue, store=self.store).restart(self.store.retrieve(self.wf_id), sid)
        self.quiet = q
        self.emit({"e": "sendrestart", "stage": stage_ref, "s": self.proj.state()})

    def early_start(self, stage_ref: str) -> None:
        from stabilize.queue.messages import StartStage

        sid = None
        for r in self.raw.execute("SELECT id FROM stage_executions WHERE ref_id = ? AND execution_id = ?", (stage_ref, self.wf_id)):
            sid = r["id"]
        q = self.quiet
        self.quiet = True
        with self.store.transaction(self.queue) as txn:
            txn.push_message(StartStage(execution_type="PIPELINE", execution_id=self.wf_id, stage_id=sid))
        self.quiet = q
        self.emit({"e": "early", "stage": stage_ref, "s": self.proj.state()})

    def claim_sweep(self) -> None:
        q = self.quiet
        self.quiet = True
        self.store.cleanup_completed_stage_claims()
        self.quiet = q
        self.emit({"e": "claimsweep", "s": self.proj.state()})

    def bloom_reset(self) -> None:
        from stabilize.queue.dedup import get_deduplicator

        get_deduplicator().reset()
        self.emit({"e": "bloomreset"})

    def restart_clean(self) -> None:
        """Orderly process restart while idle: same loss of volatile state, recovery on start."""
        self.crash_restart()
        self.sweep()

    def crash_restart(self) -> None:
        """Called after VerifCrash propagated: drop volatile state, build a fresh worker."""
        self.crashes += 1
        self.emit({"e": "crash", "s": self.proj.state()})
        core.reset_volatile()
        self.boot()

    # -- composite drivers ---------------------------------------------------------------------
    def step_fifo(self) -> str:
        """One step of in-order delivery under virtual time (DESIGN 4.1 'Delivery control')."""
        rows = self.rows()
        if not rows:
            return "empty"
        vis = [r for r in rows if not r["locked"] and not r["delayed"] and r["att"] < r["max"]]
        if vis:
            self.deliver(None)
            return "delivered"
        poison = [r for r in rows if r["att"] >= r["max"] and not r["locked"]]
        delayed = [r for r in rows if r["delayed"] and not r["locked"] and r["att"] < r["max"]]
        if any(r["locked"] for r in rows):
            return "locked"      # every lock lapses before a wait-retry delay is allowed to elapse
        if delayed:
            r = min(delayed, key=lambda r: r["deliver_at"])
            self.warp(r["qid"])
            return "warped"
        if poison:
            self.dlq_sweep()
            return "dlq"
        return "locked"

    def drain(self, max_steps: int = 2000, expire_locked: bool = True) -> str:
        """FIFO drain to quiescence.  Returns 'quiescent' | 'steps-exhausted'."""
        for _ in range(max_steps):
            r = self.step_fifo()
            if r == "empty":
                return "quiescent"
            if r == "locked":
                if not expire_locked:
                    return "locked"
                for row in self.rows():
                    if row["locked"]:
                        self.expire(row["qid"])
        return "steps-exhausted"

    def run_protected(self, fn) -> bool:
        """Run fn(); on simulated crash restart the worker.  Returns True if a crash happened."""
        try:
            fn()
            return False
        except VerifCrash:
            self.crash_restart()
            return True

    def final(self) -> dict:
        s = self.proj.state()
        return {"state": s, "ledger": list(LEDGER.entries), "quiet": len(s["q"]) == 0}

    def as_trace(self, meta: dict | None = None) -> dict:
        return {"prog": self.prog["name"], "meta": meta or {}, "events": self.trace}


def run_fifo(prog: dict, crash_at: int | None = None, sweeps_after_crash: int = 1, tag: str = "fifo",
             max_steps: int = 400, crash_at_exec: int | None = None, late_expire: bool = False) -> tuple[dict, dict, int]:
    """Uninterrupted (or single-crash) FIFO run.  Returns (trace, final, commits).
    late_expire: after the restart the recovery sweep and its messages run BEFORE the lock of the
    interrupted message lapses (a restart is usually faster than the 60 s lock)."""
    run = Run(prog, tag)
    if late_expire:         # these runs also use a fresh worker thread per delivery (connections recycled)
        run.threaded = True
    try:
        run.start()
        if crash_at is not None:
            run.crash_at = {crash_at}
        if crash_at_exec is not None:
            run.crash_at_exec = {crash_at_exec}
        status = None
        crashed = run.run_protected(lambda: run.drain(max_steps))
        if crashed:
            if not late_expire:
                for row in run.rows():
                    if row["locked"]:
                        run.expire(row["qid"])
            for _ in range(sweeps_after_crash):
                run.sweep()
            status = run.drain(max_steps)
        else:
            status = "quiescent" if not run.rows() else "stuck"
        fin = run.final()
        fin["drain"] = status
        return run.as_trace({"crash_at": -1 if crash_at is None else crash_at,
                             "crash_at_exec": -1 if crash_at_exec is None else crash_at_exec,
                             "late_expire": late_expire, "drain": status, "execs": run.exec_no}), fin, run.commit_no
    finally:
        run.close()
