"""Component of C09 (second sentence + the processor's trust rule): the in-memory duplicate filter.

Specification: spec/Dedup.tla, root spec/MC_Dedup.tla (+ generated DedupParams.tla).  TLC decides:

 1. FilterNext, EVERY hash function (SYMMETRY over the ids): NoFalseNegative, BitsExact, AuthorityExact,
    ResetRevokes, HydrateGrants, OnlyHydrateGrants, OnlyResetRevokes.
 2. ProcNext (the processor's _handle_message at linearization-point grain), one worker thread, trust
    option off and on, every hash function up to renaming of ids and bit positions: NoRedispatch(Any),
    AuthorityCovers, SkipRule, TrustOffAlwaysChecks.  Control: with a second writer process TLC must FIND
    the violation the documentation warns about.
 3. ProcNext with two worker threads: trust off must hold; trust on is explored with the ladder of
    repairs Fix = {}, {decision}, {decision, rotation}, all: every counterexample is replayed with REAL
    threads on the real QueueProcessor._handle_message (baton scheduler parking the threads at the
    filter's and the store's calls).
 4. Binding: the hash function MD5/SHA1 induce on seed-derived ids is computed from the real class,
    checked to be one of the functions the spec quantifies over (and that mark and query use the same
    positions); TLC explores the spec for exactly these functions and prints every transition; walks
    covering the transitions are replayed on the real BloomDeduplicator (filter level: every answer,
    the bit array and the authority flag compared) and on the real processor (decision, durable check,
    rotation, hydration limit compared).  hypothesis id sets (unicode, empty string, duplicates, 10^4
    ids) are fed through the same op sequences on the default-size filter, comparing what the spec
    determines for every hash function (told ids answer True, authority flag, empty filter answers new).
"""
from __future__ import annotations

import hashlib
import itertools
import json
import os
import random
import re
import shutil
import threading
import time
from typing import Any

from . import core  # noqa: F401  (must precede any stabilize import)
from . import findings, tlc

FORMULA = "C09_Dedup"
MIDS = ["i1", "i2", "i3", "i4"]
# (expected_items, false_positive_rate) of the real class -> (M, K) of the model; Cap = expected_items
SIZES = {"s5": {"n": 2, "p": 0.35, "M": 5, "K": 2}, "s6": {"n": 3, "p": 0.40, "M": 6, "K": 2},
         "s7": {"n": 2, "p": 0.20, "M": 7, "K": 3}}


# ----------------------------------------------------------------------------------------------
# the real class
# ----------------------------------------------------------------------------------------------
def new_filter(size: dict):
    from stabilize.queue.dedup import BloomDeduplicator

    d = BloomDeduplicator(expected_items=size["n"], false_positive_rate=size["p"])
    if d._size != size["M"] or d._num_hashes != size["K"]:
        raise RuntimeError("real filter has m=%d k=%d, model expects M=%d K=%d" % (d._size, d._num_hashes, size["M"], size["K"]))
    return d


def code_fix() -> tuple:
    """Which parts of the proposed repair the code under test contains (Dedup.tla constant Fix)."""
    from stabilize.queue.dedup import BloomDeduplicator

    if hasattr(BloomDeduplicator, "definitely_new") and hasattr(BloomDeduplicator, "rotate_if_needed"):
        return ("decision", "rotation", "record")
    return ()


def real_bits(d) -> list[int]:
    return [i for i in range(d._size) if d._get_bit(i)]


def make_ids(seed: int, j: int, n: int = 4) -> list[str]:
    """Concrete ids: queue row ids are decimal strings; also uuid-like and unicode ones."""
    r = random.Random(seed * 1000003 + j)
    kind = j % 3
    if kind == 0:
        base = r.randrange(1, 10**6)
        return [str(base + i) for i in range(n)]
    if kind == 1:
        return [hashlib.sha256(("%d-%d-%d" % (seed, j, i)).encode()).hexdigest()[:26] for i in range(n)]
    return ["msg-%d-é中-%d" % (r.randrange(10**6), i) for i in range(n)]


def position_check(size: dict, cid: str) -> tuple[list[int], str | None]:
    """Positions of one id; proves that mark_seen and maybe_seen use the SAME positions."""
    d = new_filter(size)
    pos = d._get_hash_positions(cid)
    ps = sorted(set(pos))
    if len(pos) != size["K"] or not ps or any(p < 0 or p >= size["M"] for p in ps):
        return ps, "positions %r are not a non-empty <=K subset of 0..M-1" % (pos,)
    d.mark_seen(cid)
    if real_bits(d) != ps:
        return ps, "mark_seen(%r) set bits %r, _get_hash_positions gives %r" % (cid, real_bits(d), ps)
    if not d.maybe_seen(cid):
        return ps, "maybe_seen false right after mark_seen"
    for miss in ps:       # every marked position is consulted by the query ...
        e = new_filter(size)
        for q in range(size["M"]):
            if q != miss:
                e._set_bit(q)
        if e.maybe_seen(cid):
            return ps, "maybe_seen(%r) true although bit %d is clear" % (cid, miss)
    e = new_filter(size)   # ... and no other
    for q in ps:
        e._set_bit(q)
    if not e.maybe_seen(cid):
        return ps, "maybe_seen(%r) false although exactly its marked positions are set" % (cid,)
    return ps, None


# ----------------------------------------------------------------------------------------------
# TLC plumbing
# ----------------------------------------------------------------------------------------------
_PR = re.compile(r'<<"(EDGE|INIT|VIOL)", ("(?:[^"\\]|\\.)*")>>')
_TR = re.compile(r'^(?:/\\ )?j = ("(?:[^"\\]|\\.)*")', re.M)


def _workers() -> int:
    return max(2, min(16, os.cpu_count() or 4))


def tla_set(xs) -> str:
    return "{" + ", ".join(str(x) for x in xs) + "}"


def tla_h(hf: dict) -> str:
    return "(" + " @@ ".join('"%s" :> %s' % (k, tla_set(v)) for k, v in hf.items()) + ")"


def params_module(hs: list[dict]) -> str:
    lines = ["---- MODULE DedupParams ----", "EXTENDS TLC"]
    lines.append("RealH == {" + ",\n  ".join(tla_h(hf) for hf in hs) + "}")
    if hs:
        cases = " [] ".join('f = %s -> "h%d"' % (tla_h(hf), i) for i, hf in enumerate(hs))
        lines.append("HName(f) == CASE " + cases + ' [] OTHER -> "?"')
    else:
        lines.append('HName(f) == ""')
    lines.append("====")
    return "\n".join(lines) + "\n"


def cfg(size: dict, next_: str, ids: str, fixed: str, trust: bool = True, threads: int = 1, multi: bool = False,
        fix=(), invariants=(), properties=(), symmetry: bool = False, export: bool = False, alias: bool = False,
        variants=("txn", "plain", "fail")) -> str:
    c = ["CONSTANTS", "  Ids = " + ids, "  M = %d" % size["M"], "  K = %d" % size["K"], "  Cap = %d" % size["n"],
         "  Trust = " + ("TRUE" if trust else "FALSE"), "  Threads = %d" % threads,
         "  MultiWriter = " + ("TRUE" if multi else "FALSE"),
         "  Fix = {" + ", ".join('"%s"' % f for f in fix) + "}",
         "  Variants = {" + ", ".join('"%s"' % v for v in variants) + "}", "  FixedH <- " + fixed,
         "INIT " + ("ProcInit" if next_ == "ProcNext" else "Init"), "NEXT " + next_, "VIEW View"]
    if symmetry:
        c.append("SYMMETRY IdSym")
    c += ["INVARIANT " + i for i in invariants] + ["PROPERTY " + p for p in properties]
    if export:
        c += ["INVARIANT ExportInit", "ACTION_CONSTRAINT ExportEdge"]
    if alias:
        c.append("ALIAS TraceAlias")
    c.append("CHECK_DEADLOCK FALSE")
    return "\n".join(c) + "\n"


def run_tlc(tag: str, cfg_text: str, hs: list[dict], workers: int | None = None, timeout: int = 1500, coverage: bool = False):
    rd = tlc.new_rundir(tag)
    try:
        with open(os.path.join(rd, "DedupParams.tla"), "w") as fh:
            fh.write(params_module(hs))
        res = tlc.run_tlc(rd, "MC_Dedup", cfg_text, workers=workers or _workers(),
                          env={"JAVA_TOOL_OPTIONS": "-Djava.io.tmpdir=" + rd},
                          extra=(["-coverage", "1"] if coverage else []), timeout=timeout)
    finally:
        shutil.rmtree(rd, ignore_errors=True)
    return res


def tlc_broken(res) -> str | None:
    """TLC did not finish its job (a reported invariant violation is NOT a machinery failure)."""
    hard = [e for e in res.errors if "is violated" not in e and "behavior up to this point" not in e]
    if hard or ("Model checking completed" not in res.out and not res.violated):
        tail = "\n".join([ln for ln in res.out.splitlines() if "EDGE" not in ln][-20:])
        return "TLC rc=%s errors=%s\n%s" % (res.rc, hard[:3], tail)
    return None


def parse_export(out: str):
    inits, edges = [], []
    for kind, s in _PR.findall(out):
        doc = json.loads(json.loads(s))
        if kind == "INIT":
            inits.append(doc)
        elif kind == "EDGE":
            edges.append(doc)
    return inits, edges


def parse_trace(out: str) -> list[dict]:
    return [json.loads(json.loads(s)) for s in _TR.findall(out)]


FILTER_INV = ["TypeOK", "NoFalseNegative", "BitsExact", "EmptyAnswersNew", "AuthorityExact"]
FILTER_PROP = ["ResetRevokes", "OnlyHydrateGrants", "HydrateGrants", "OnlyResetRevokes"]
PROC_INV = ["TypeOK", "NoFalseNegative", "BitsExact", "SkipRule", "TrustOffAlwaysChecks"]
PROC_PROP = ["ResetRevokes", "OnlyHydrateGrants", "OnlyResetRevokes"]


# ----------------------------------------------------------------------------------------------
# hash functions up to renaming of ids and of bit positions (both are symmetries of Dedup.tla: ids and
# positions are only ever compared for equality / collected in sets / counted)
# ----------------------------------------------------------------------------------------------
def orbit_representatives(M: int, K: int, nids: int) -> list[dict]:
    subsets = [frozenset(c) for k in range(1, K + 1) for c in itertools.combinations(range(M), k)]
    perms = list(itertools.permutations(range(M)))
    seen, reps = set(), []
    for combo in itertools.combinations_with_replacement(range(len(subsets)), nids):
        ms = [subsets[i] for i in combo]
        key = tuple(sorted(tuple(sorted(s)) for s in ms))
        if key in seen:
            continue
        reps.append({MIDS[i]: sorted(ms[i]) for i in range(nids)})
        for p in perms:
            seen.add(tuple(sorted(tuple(sorted(p[x] for x in s)) for s in ms)))
    return reps


# ----------------------------------------------------------------------------------------------
# graph walks covering the exported transitions
# ----------------------------------------------------------------------------------------------
def skey(o: dict) -> str:
    return json.dumps(o, sort_keys=True)


def covering_walks(inits: list[dict], edges: list[dict], rnd: random.Random, max_len: int, budget: int,
                   priority=None, max_priority: int = 10**9) -> tuple[list[list[dict]], int, int]:
    """Greedy walks from the initial state(s) preferring unvisited edges, until `budget` edges are
    covered or all are.  Edges selected by `priority` (rare corners: hydration over capacity ...) are
    reached first, each by a shortest path from the initial state.  Returns (walks, covered, total)."""
    src = [skey(e["s"]) for e in edges]
    dst = [skey(e["t"]) for e in edges]
    out: dict[str, list[int]] = {}
    for i, k in enumerate(src):
        out.setdefault(k, []).append(i)
    unvisited = set(range(len(edges)))
    fresh_at: dict[str, set[int]] = {k: set(v) for k, v in out.items()}
    walks: list[list[dict]] = []
    total = len(edges)
    stall = 0
    init_keys = [skey(i) for i in inits]

    def take(i: int) -> None:
        if i in unvisited:
            unvisited.discard(i)
            fresh_at[src[i]].discard(i)

    if priority is not None:
        # breadth-first tree from the initial states
        parent: dict[str, int | None] = {k: None for k in init_keys}
        frontier = list(init_keys)
        while frontier:
            nxt = []
            for k in frontier:
                for i in out.get(k, []):
                    if dst[i] not in parent:
                        parent[dst[i]] = i
                        nxt.append(dst[i])
            frontier = nxt
        pri = [i for i, e in enumerate(edges) if priority(e) and src[i] in parent]
        rnd.shuffle(pri)
        done_p = 0
        for i in pri:
            if i not in unvisited or done_p >= max_priority:
                continue
            path, k = [], src[i]
            while parent[k] is not None:
                path.append(parent[k])
                k = src[parent[k]]
            path.reverse()
            walk = []
            for j in path + [i]:
                take(j)
                walk.append(edges[j])
            cur = dst[i]
            for _ in range(25):          # a short greedy tail
                fresh = fresh_at.get(cur)
                if not fresh:
                    break
                j = rnd.choice(sorted(fresh))
                take(j)
                walk.append(edges[j])
                cur = dst[j]
            walks.append(walk)
            done_p += 1
    while unvisited and (total - len(unvisited)) < budget and stall < 30:
        cur = rnd.choice(init_keys)
        walk: list[dict] = []
        before = len(unvisited)
        while len(walk) < max_len:
            fresh = fresh_at.get(cur)
            if fresh:
                i = rnd.choice(sorted(fresh))
                take(i)
                walk.append(edges[i])
                cur = dst[i]
                continue
            path = _path_to_fresh(cur, out, dst, fresh_at, 14)
            if path is None:
                break
            for j in path:
                take(j)
                walk.append(edges[j])
            cur = dst[path[-1]]
        if walk:
            walks.append(walk)
        stall = stall + 1 if len(unvisited) == before else 0
    return walks, total - len(unvisited), total


def _path_to_fresh(start: str, out: dict, dst: list[str], fresh_at: dict, depth: int):
    """Shortest edge path from `start` ending with an unvisited edge."""
    frontier = [(start, [])]
    seen = {start}
    for _ in range(depth):
        nxt = []
        for (s, path) in frontier:
            f = fresh_at.get(s)
            if f:
                return path + [min(f)]
            for i in out.get(s, []):
                t = dst[i]
                if t not in seen:
                    seen.add(t)
                    nxt.append((t, path + [i]))
        frontier = nxt
        if not frontier:
            return None
    return None


# ----------------------------------------------------------------------------------------------
# filter-level replay (single caller) on the real BloomDeduplicator
# ----------------------------------------------------------------------------------------------
def _sorted_ids(xs) -> list:
    return sorted(xs)


def filter_observe(d, ids: dict) -> dict:
    return {"bits": real_bits(d), "auth": bool(d.authoritative),
            "ans": {m: bool(d.maybe_seen(c)) for m, c in ids.items()}, "sr": bool(d.should_reset(0.7))}


def filter_expect(o: dict) -> dict:
    return {"bits": sorted(o["bits"]), "auth": o["auth"], "ans": dict(o["ans"]), "sr": o["sr"]}


def apply_filter_op(d, a: dict, ids: dict) -> None:
    op = a["op"]
    if op == "mark":
        d.mark_seen(ids[a["x"]])
    elif op == "hydrate":
        n = d.hydrate([ids[m] for m in _sorted_ids(a["S"])])
        if n != len(a["S"]):
            raise AssertionError("hydrate returned %r for %d ids" % (n, len(a["S"])))
    elif op == "reset":
        d.reset()
    elif op == "age":
        d._creation_time -= d._max_age_seconds + 10.0
    else:
        raise ValueError("filter op " + op)


def replay_filter_walk(size: dict, ids: dict, walk: list[dict]) -> dict | None:
    d = new_filter(size)
    for n, e in enumerate(walk):
        apply_filter_op(d, e["a"], ids)
        got, exp = filter_observe(d, ids), filter_expect(e["t"])
        if got != exp:
            return {"step": n, "op": e["a"], "expected": exp, "got": got}
    return None


# ----------------------------------------------------------------------------------------------
# processor-level replay with real threads (baton scheduler)
# ----------------------------------------------------------------------------------------------
class Sched:
    """Parks worker threads at instrumented calls; the main thread releases exactly one at a time."""

    def __init__(self) -> None:
        self.cv = threading.Condition()
        self.parked: dict[int, str] = {}
        self.go: set[int] = set()
        self.kill: set[int] = set()
        self.finished: dict[int, str] = {}
        self.tls = threading.local()
        self.variant: dict[int, str] = {}

    def tid(self):
        return getattr(self.tls, "tid", None)

    def point(self, label: str) -> None:
        t = self.tid()
        if t is None:
            return                      # main thread (constructor hydration etc.): not scheduled
        with self.cv:
            self.parked[t] = label
            self.cv.notify_all()
            while t not in self.go:
                self.cv.wait()
            self.go.discard(t)
            del self.parked[t]
            if t in self.kill:
                self.kill.discard(t)
                raise core.VerifCrash()

    def release(self, t: int, timeout: float = 10.0) -> str:
        """Let thread t perform the call it is parked at; returns its next park label or 'finished'."""
        with self.cv:
            if t not in self.parked:
                raise RuntimeError("thread %d is not parked" % t)
            self.go.add(t)
            self.cv.notify_all()
            ok = self.cv.wait_for(lambda: (t in self.parked and t not in self.go) or t in self.finished, timeout)
            if not ok:
                raise RuntimeError("thread %d did not reach its next point" % t)
            return self.parked.get(t, "finished")

    def wait_parked(self, t: int, timeout: float = 10.0) -> str:
        with self.cv:
            ok = self.cv.wait_for(lambda: t in self.parked or t in self.finished, timeout)
            if not ok:
                raise RuntimeError("thread %d did not start" % t)
            return self.parked.get(t, "finished")


class ParkLock:
    """Stands in for BloomDeduplicator._lock: inside hydrate() every acquisition is a scheduling point."""

    def __init__(self, sched: Sched) -> None:
        self.real = threading.Lock()
        self.sched = sched

    def __enter__(self):
        if getattr(self.sched.tls, "in_hydrate", False):
            self.sched.point("hydlock")
        self.real.acquire()
        return self

    def __exit__(self, *a):
        self.real.release()
        return False


class DedupProxy:
    def __init__(self, sched: Sched) -> None:
        object.__setattr__(self, "_s", sched)
        object.__setattr__(self, "real", None)

    def __getattr__(self, name):
        return getattr(self.real, name)

    def maybe_seen(self, mid):
        self._s.point("maybe_seen")
        return self.real.maybe_seen(mid)

    @property
    def authoritative(self):
        self._s.point("authoritative")
        return self.real.authoritative

    def should_reset(self, threshold=0.7):
        self._s.point("should_reset")
        return self.real.should_reset(threshold)

    def reset(self):
        self._s.point("reset")
        return self.real.reset()

    def hydrate(self, ids):
        ids = list(ids)
        if self._s.tid() is None:
            return self.real.hydrate(ids)
        self._s.tls.in_hydrate = True
        try:
            return self.real.hydrate(ids)
        finally:
            self._s.tls.in_hydrate = False

    def mark_seen(self, mid):
        self._s.point("mark_seen")
        return self.real.mark_seen(mid)

    # the repaired class (docs/proposed_fixes/C09-dedup-race.diff)
    def definitely_new(self, mid):
        self._s.point("definitely_new")
        return self.real.definitely_new(mid)

    def rotate_if_needed(self, threshold, load_ids):
        self._s.point("rotate")
        self._s.tls.in_rotate = True       # one critical section: no scheduling point inside
        try:
            return self.real.rotate_if_needed(threshold, load_ids)
        finally:
            self._s.tls.in_rotate = False


class StoreProxy:
    def __init__(self, sched: Sched, real) -> None:
        self._s = sched
        self.real = real

    def __getattr__(self, name):
        return getattr(self.real, name)

    def is_message_processed(self, mid):
        self._s.point("is_message_processed")
        return self.real.is_message_processed(mid)

    def get_processed_message_ids(self, limit=None):
        if not getattr(self._s.tls, "in_rotate", False):
            self._s.point("get_processed_message_ids")
        return self.real.get_processed_message_ids(limit=limit)

    def mark_message_processed(self, message_id, handler_type=None, execution_id=None):
        self._s.point("mark_message_processed")
        return self.real.mark_message_processed(message_id=message_id, handler_type=handler_type,
                                                execution_id=execution_id)


PC_OF_LABEL = {"maybe_seen": "query", "authoritative": "readauth", "is_message_processed": "check",
               "should_reset": "rot", "reset": "reset", "get_processed_message_ids": "readids",
               "handle": "handle", "mark_seen": "mark", "mark_message_processed": "markdb", "finished": "idle",
               "definitely_new": "query", "rotate": "rot"}


class ProcWorld:
    """One real process image: SqliteWorkflowStore on /dev/shm, the global BloomDeduplicator (small),
    a QueueProcessor with a stub handler; worker threads run the real _handle_message."""

    def __init__(self, size: dict, ids: dict, trust: bool) -> None:
        self.size, self.ids, self.trust = size, ids, trust
        self.fixed = bool(code_fix())
        self.rev = {c: m for m, c in ids.items()}
        self.sched = Sched()
        self.dir = core.scratch_dir("dedup")
        self.cs = "sqlite:///" + os.path.join(self.dir, "d.db")
        self.threads: dict[int, threading.Thread] = {}
        self.msg: dict[int, str] = {}
        self.dispatches: list[dict] = []
        self.committed: set[str] = set()
        self.bad: set[str] = set()
        self.bad_any: set[str] = set()
        self.hyd_left: dict[int, int] = {}
        self.errors: dict[int, str] = {}
        from stabilize import SqliteQueue, SqliteWorkflowStore
        import stabilize.queue.processor.mixins as mixins

        self.mixins = mixins
        self.orig_get = mixins.get_deduplicator
        self.proxy = DedupProxy(self.sched)
        mixins.get_deduplicator = lambda *a, **k: self.proxy
        self.store = SqliteWorkflowStore(self.cs, create_tables=True)
        self.queue = SqliteQueue(self.cs)
        self.queue._create_table()
        self.raw = core.raw_connect(os.path.join(self.dir, "d.db"))
        self.boot()

    def boot(self) -> None:
        from stabilize import QueueProcessor
        from stabilize.queue import dedup as dd
        from stabilize.queue.messages import StartWorkflow
        from stabilize.queue.processor.config import QueueProcessorConfig

        dd.reset_deduplicator()
        real = dd.get_deduplicator(expected_items=self.size["n"], false_positive_rate=self.size["p"])
        if real._size != self.size["M"] or real._num_hashes != self.size["K"]:
            raise RuntimeError("global filter size mismatch")
        real._lock = ParkLock(self.sched)
        self.proxy.__dict__["real"] = real
        cfg_ = QueueProcessorConfig.from_handler_config(None)
        cfg_.enable_lock_heartbeat = False
        cfg_.enable_deduplication = True
        cfg_.dedup_trust_negative_cache = self.trust
        self.proc = QueueProcessor(self.queue, config=cfg_, store=StoreProxy(self.sched, self.store))
        world = self

        class Stub:
            message_type = StartWorkflow

            def handle(self, message):
                world.sched.point("handle")
                t = world.sched.tid()
                v = world.sched.variant.get(t, "txn")
                mid = message.message_id
                was = world.raw.execute("SELECT 1 FROM processed_messages WHERE message_id = ?", (mid,)).fetchone() is not None
                world.dispatches.append({"t": t, "id": world.rev.get(mid, mid), "processed_before": was,
                                         "committed_before": mid in world.committed})
                if mid in world.committed:
                    world.bad.add(world.rev.get(mid, mid))
                if was:
                    world.bad_any.add(world.rev.get(mid, mid))
                if v == "txn":      # effects + processed record in one commit
                    world.store.mark_message_processed(message_id=mid, handler_type="Stub", execution_id="w")
                    world.committed.add(mid)
                elif v == "fail":
                    raise RuntimeError("scripted handler failure")

        self.proc.register_handler(Stub())
        self.StartWorkflow = StartWorkflow

    def close(self) -> None:
        for t in list(self.threads):
            self.kill_thread(t)
        self.mixins.get_deduplicator = self.orig_get
        try:
            self.raw.close()
        except Exception:  # noqa: BLE001
            pass
        core.reset_volatile()
        shutil.rmtree(self.dir, ignore_errors=True)

    # -- thread life cycle -------------------------------------------------------------------------
    def start_thread(self, t: int, mid: str) -> str:
        msg = self.StartWorkflow(execution_type="PIPELINE", execution_id="w")
        msg.message_id = self.ids[mid]
        self.msg[t] = mid
        self.sched.finished.pop(t, None)
        proc, sched, errors = self.proc, self.sched, self.errors

        def body():
            sched.tls.tid = t
            outcome = "returned"
            try:
                proc._handle_message(msg)
            except core.VerifCrash:
                outcome = "killed"
            except Exception as e:  # noqa: BLE001
                outcome = "raised:" + type(e).__name__
                errors[t] = repr(e)
            with sched.cv:
                sched.finished[t] = outcome
                sched.cv.notify_all()

        th = threading.Thread(target=body, daemon=True)
        self.threads[t] = th
        th.start()
        return self.sched.wait_parked(t)

    def kill_thread(self, t: int) -> None:
        th = self.threads.pop(t, None)
        if th is None:
            return
        with self.sched.cv:
            if t in self.sched.parked:
                self.sched.kill.add(t)
                self.sched.go.add(t)
                self.sched.cv.notify_all()
        th.join(5)
        self.msg.pop(t, None)
        self.hyd_left.pop(t, None)

    def reap(self, t: int) -> None:
        if t in self.sched.finished and t in self.threads:
            self.threads.pop(t).join(5)
            self.msg.pop(t, None)

    # -- one model step ---------------------------------------------------------------------------
    def step(self, a: dict, snap_size: int | None = None) -> str | None:
        """Perform the real counterpart of model step `a`.  Returns an error text on a control-flow
        mismatch (the real thread is not where the specification says it is)."""
        op = a["op"]
        if op == "deliver":
            lab = self.start_thread(a["t"], a["x"])
            first = "maybe_seen" if not self.fixed else ("definitely_new" if self.trust else "is_message_processed")
            return None if lab == first else "after deliver thread parked at %s" % lab
        if op == "age":
            r = self.proxy.real
            r._creation_time -= r._max_age_seconds + 10.0
            return None
        if op == "restart":
            for t in list(self.threads):
                self.kill_thread(t)
            self.boot()
            return None
        t = a["t"]
        lab = self.sched.parked.get(t)
        want = {"query": "maybe_seen", "readauth": "authoritative", "check": "is_message_processed",
                "skipdup": "is_message_processed", "rot": "should_reset", "reset": "reset",
                "readids": "get_processed_message_ids", "hydbits": "hydlock", "grant": "hydlock",
                "handle": "handle", "markseen": "mark_seen", "markdb": "mark_message_processed"}[op]
        if self.fixed:
            if op == "query":
                if not self.trust:
                    return None        # the repaired code does not consult the filter when negatives are not trusted
                want = "definitely_new"
            elif op == "rot":
                want = "rotate"
        if op == "hydbits":
            n = self.hyd_left.get(t, 0)
            if n == 0:
                return None if lab == "hydlock" else "hydbits(0): thread parked at %s" % lab
            for _ in range(n):
                if self.sched.parked.get(t) != "hydlock":
                    return "hydbits: thread parked at %s" % self.sched.parked.get(t)
                self.sched.release(t)
            self.hyd_left[t] = 0
            return None
        if lab != want:
            return "model step %s but thread %d is parked at %s" % (op, t, lab)
        if op == "handle":
            self.sched.variant[t] = a["v"]
        if op == "readids":
            # how many ids hydrate() will walk through = what the store returns now (unless over capacity)
            n = self.raw.execute("SELECT COUNT(*) FROM processed_messages").fetchone()[0]
            self.hyd_left[t] = n if n <= self.size["n"] else 0
        self.sched.release(t)
        self.reap(t)
        return None

    # -- observation --------------------------------------------------------------------------------
    def observe(self) -> dict:
        r = self.proxy.real
        pcs = {}
        for t in (1, 2):
            lab = self.sched.parked.get(t) if t in self.threads else None
            if lab is None:
                pcs[t] = "idle"
            elif lab == "hydlock":
                pcs[t] = "hyd"
            else:
                pcs[t] = PC_OF_LABEL.get(lab, lab)
        proc = sorted(self.rev.get(x[0], x[0]) for x in self.raw.execute("SELECT message_id FROM processed_messages"))
        return {"bits": real_bits(r), "auth": bool(r.authoritative), "processed": proc,
                "ans": {m: bool(r.maybe_seen(c)) for m, c in self.ids.items()},
                "sr": bool(r.should_reset(0.7)), "pc": pcs, "bad": sorted(self.bad), "badAny": sorted(self.bad_any)}


def proc_expect(o: dict, threads: int, query_is_check: bool = False) -> dict:
    pcs = {}
    for t in (1, 2):
        p = o["pc"][t - 1] if t <= threads else "idle"
        pcs[t] = "hyd" if p in ("hydbits", "grant") else ("check" if (p == "query" and query_is_check) else p)
    return {"bits": sorted(o["bits"]), "auth": o["auth"], "processed": sorted(o["processed"]), "ans": dict(o["ans"]),
            "sr": o["sr"], "pc": pcs, "bad": sorted(o["bad"]), "badAny": sorted(o["badAny"])}


def replay_proc_walk(size: dict, ids: dict, trust: bool, threads: int, steps: list[dict], compare: bool = True) -> dict:
    """steps: [{a: act, t: expected Obs after}] ; returns {mismatch|None, bad, dispatches, steps}."""
    w = ProcWorld(size, ids, trust)
    res: dict[str, Any] = {"mismatch": None, "steps": 0}
    try:
        for n, e in enumerate(steps):
            err = w.step(e["a"])
            if err:
                res["mismatch"] = {"step": n, "op": e["a"], "control": err}
                break
            res["steps"] = n + 1
            if compare and e.get("t") is not None:
                # between hydbits and grant the model has set the bits in one step, the code id by id
                got, exp = w.observe(), proc_expect(e["t"], threads, query_is_check=(w.fixed and not trust))
                if got != exp:
                    res["mismatch"] = {"step": n, "op": e["a"], "expected": exp, "got": got}
                    break
        res["bad"] = sorted(w.bad)
        res["badAny"] = sorted(w.bad_any)
        res["dispatches"] = list(w.dispatches)
        res["thread_errors"] = dict(w.errors)
    finally:
        w.close()
    return res


# ----------------------------------------------------------------------------------------------
# classification of two-thread counterexamples
# ----------------------------------------------------------------------------------------------
def classify_race(acts: list[dict]) -> str:
    """Which of the (triaged) races a trace that ends in a redispatch exhibits."""
    handles = [i for i, a in enumerate(acts) if a.get("op") == "handle"]
    if not handles:
        return "unclassified"
    last = handles[-1]
    t, x = acts[last]["t"], acts[last]["x"]
    # the violating thread's own decision steps for this delivery
    start = max(i for i in range(last) if acts[i].get("op") == "deliver" and acts[i].get("t") == t)
    own = {a["op"]: i for i, a in enumerate(acts[start:last], start) if a.get("t") == t}
    if "query" in own and "readauth" in own:
        between = acts[own["query"] + 1:own["readauth"]]
        if any(a.get("op") in ("grant", "hydbits") and a.get("t") != t for a in between):
            return "decision_toctou"
    # a grant that follows a reset of ANOTHER thread issued after the granting thread's own reset
    for i, a in enumerate(acts[:last]):
        if a.get("op") == "grant":
            g = a["t"]
            own_reset = max([j for j in range(i) if acts[j].get("op") == "reset" and acts[j].get("t") == g], default=None)
            if own_reset is not None and any(b.get("op") in ("reset", "rot") and b.get("t") != g and b.get("op") == "reset"
                                             for b in acts[own_reset + 1:i]):
                return "rotation_overlap"
    # the id was marked in the filter before a reset and recorded in the store after the hydration read
    for i, a in enumerate(acts[:last]):
        if a.get("op") == "markseen" and a.get("x") == x:
            later = acts[i + 1:last]
            ops = [(b.get("op"), b.get("t"), b.get("x")) for b in later]
            if any(o[0] in ("reset", "rot") and o[1] != a["t"] for o in ops) and any(o[0] == "markdb" and o[2] == x for o in ops):
                return "late_record"
    return "unclassified"


def dedup_trust_race(sig: dict, ctx: dict) -> bool:
    """Known finding: with dedup_trust_negative_cache=True and more than one worker thread the filter's
    rotation races with the trust decision.  Recognises only confirmed two-thread traces of the triaged kinds."""
    return (ctx.get("formula") in sig.get("formulas", [FORMULA + "_NoRedispatch_2threads"]) and ctx.get("threads", 1) >= 2
            and ctx.get("trust") is True and ctx.get("race") in sig.get("races", []) and ctx.get("confirmed") is True)


findings.PREDICATES["dedup_trust_race"] = dedup_trust_race


# ----------------------------------------------------------------------------------------------
# hypothesis id sets through the op-sequence templates
# ----------------------------------------------------------------------------------------------
def hypothesis_id_sets(seed: int, n: int) -> list[list[str]]:
    from hypothesis import HealthCheck, Phase, given, settings
    from hypothesis import seed as hseed
    from hypothesis import strategies as st

    got: list[list[str]] = []
    idst = st.one_of(st.text(max_size=12), st.integers(0, 10**9).map(str), st.just(""), st.text(alphabet="ab", max_size=3))

    @hseed(seed)
    @settings(max_examples=n, database=None, deadline=None, phases=[Phase.generate],
              suppress_health_check=list(HealthCheck))
    @given(st.lists(idst, min_size=1, max_size=60))
    def collect(xs):
        got.append(xs)

    collect()
    return got


def big_id_set(seed: int, n: int = 10**4) -> list[str]:
    r = random.Random(seed)
    out = []
    for i in range(n):
        k = i % 4
        if k == 0:
            out.append(str(i))
        elif k == 1:
            out.append("%032x" % r.getrandbits(128))
        elif k == 2:
            out.append("mü-%d-漢" % r.randrange(10**9))
        else:
            out.append(out[r.randrange(len(out))] if out else "")     # duplicates
    out[7] = ""
    return out


def replay_template(walk: list[dict], idlist: list[str], default_size: bool) -> dict | None:
    """Filter-level walk with model id i_j standing for the j-th group of concrete ids.  Compares what
    the spec determines for EVERY hash function: told => True, authority flag, empty filter => all new."""
    from stabilize.queue.dedup import BloomDeduplicator

    d = BloomDeduplicator() if default_size else BloomDeduplicator(expected_items=max(8, len(idlist)), false_positive_rate=0.01)
    groups = {m: [c for j, c in enumerate(idlist) if j % 4 == i] for i, m in enumerate(MIDS)}
    for n, e in enumerate(walk):
        a = e["a"]
        if a["op"] == "mark":
            for c in groups[a["x"]]:
                d.mark_seen(c)
        elif a["op"] == "hydrate":
            arg = [c for m in sorted(a["S"]) for c in groups[m]]
            cnt = d.hydrate(iter(arg))
            if cnt != len(arg):
                return {"step": n, "op": a, "what": "hydrate returned %r for %d ids" % (cnt, len(arg))}
        elif a["op"] == "reset":
            d.reset()
        elif a["op"] == "age":
            d._creation_time -= d._max_age_seconds + 10.0
        t = e["t"]
        if bool(d.authoritative) != t["auth"]:
            return {"step": n, "op": a, "what": "authoritative=%r, spec %r" % (d.authoritative, t["auth"])}
        for m in t["told"]:
            for c in groups[m]:
                if not d.maybe_seen(c):
                    return {"step": n, "op": a, "what": "FALSE NEGATIVE for told id %r" % (c,)}
        if not t["told"]:
            if d.items_added != 0 or any(d._bit_array):
                return {"step": n, "op": a, "what": "filter not empty although nothing told since reset"}
            for c in idlist[:50]:
                if d.maybe_seen(c):
                    return {"step": n, "op": a, "what": "empty filter reports %r as seen" % (c,)}
    return None


# ----------------------------------------------------------------------------------------------
# the component
# ----------------------------------------------------------------------------------------------
LADDER = [((), "NoRedispatch"), (("decision",), "NoRedispatch"), (("decision", "rotation"), "NoRedispatch"),
          (("decision", "rotation"), "NoRedispatchAny"), (("decision", "rotation", "record"), "NoRedispatchAny")]
ALL_PROC_INV = PROC_INV + ["AuthorityExact", "AuthorityCovers", "NoRedispatch", "NoRedispatchAny"]


def _nsub(size: dict) -> int:
    return sum(len(list(itertools.combinations(range(size["M"]), k))) for k in range(1, size["K"] + 1))


def run_component(tier: str, seed: int, corrupt: bool = False) -> dict:
    from concurrent.futures import ThreadPoolExecutor

    t0 = time.time()
    thorough = tier == "thorough"
    rnd = random.Random(seed * 104729 + 9)
    out: dict[str, Any] = {"ok": True, "machinery": None, "violations": [], "states": 0, "transitions": 0,
                           "cases_replayed": 0, "samples": [], "details": {}}
    det = out["details"]
    phase: dict[str, float] = {}
    det["phase_wall_s"] = phase

    def viol(what: str, ctx: dict, replay: dict) -> None:
        c = dict(ctx)
        c.setdefault("formula", FORMULA)
        out["violations"].append({"what": what, "ctx": c, "replay": dict(replay, component="dedup")})

    def mach(msg: str) -> dict:
        out["machinery"] = msg
        out["ok"] = False
        det["wall_s"] = round(time.time() - t0, 1)
        return out

    def account(res) -> None:
        out["states"] += res.distinct
        out["transitions"] += max(0, res.generated - res.distinct)

    s5 = SIZES["s5"]
    ids4m, ids3m = "{i1, i2, i3, i4}", "{i1, i2, i3}"
    ids4s, ids3s, ids2s = '{"i1", "i2", "i3", "i4"}', '{"i1", "i2", "i3"}', '{"i1", "i2"}'
    cfix = code_fix()          # () for the code as it is; all three parts if the proposed repair is applied
    det["code_contains_repair"] = list(cfix)
    ladder = LADDER if not cfix else [(cfix, "NoRedispatch"), (cfix, "NoRedispatchAny")]

    # ---- real hash functions of seed-derived ids (needed by several TLC jobs) ---------------------------
    t1 = time.time()
    nsets = 6 if not thorough else 24
    idsets, hs, poserr = [], [], 0
    for j in range(nsets):
        cids = make_ids(seed, j)
        hf = {}
        for m, c in zip(MIDS, cids):
            ps, err = position_check(s5, c)
            out["cases_replayed"] += 1
            if err:
                poserr += 1
                viol("hash positions of id %r: %s" % (c, err), {"kind": "positions", "id": c},
                     {"kind": "positions", "size": "s5", "id": c})
            hf[m] = ps
        idsets.append(dict(zip(MIDS, cids)))
        hs.append(hf)
    det["real_hash_functions"] = {"id_sets": nsets, "ids_checked": nsets * 4, "position_errors": poserr,
                                  "example": {"ids": idsets[0], "positions": hs[0]}}
    if poserr:
        det["wall_s"] = round(time.time() - t0, 1)
        out["ok"] = False
        return out
    ids3 = {m: idsets[0][m] for m in MIDS[:3]}
    h3 = {m: hs[0][m] for m in MIDS[:3]}
    nid_proc = 4 if thorough else 3
    reps = orbit_representatives(s5["M"], s5["K"], nid_proc)
    nproc = 1 if not thorough else 3

    # ---- all TLC jobs, run concurrently -----------------------------------------------------------------
    jobs: dict[str, tuple] = {}
    fconfigs = [("s5", ids4m, 4)] + ([("s6", ids4m, 4), ("s7", ids3m, 3)] if thorough else [])
    for (sz, idset, nid) in fconfigs:
        new_filter(SIZES[sz])          # the model's (M, K) is what the real class computes for (n, p)
        jobs["filter:" + sz] = (cfg(SIZES[sz], "FilterNext" if thorough else "FilterCore", idset, "AllH", invariants=FILTER_INV,
                                    properties=FILTER_PROP, symmetry=True), [], 8, sz == "s5")
    for trust in (True, False):
        if thorough:
            jobs["proc1:%s" % trust] = (cfg(s5, "ProcNext", ids4m, "AllH", trust=trust, symmetry=True, fix=cfix,
                                            variants=("txn",), invariants=ALL_PROC_INV, properties=PROC_PROP), [], 8, False)
        jobs["proc1reps:%s" % trust] = (cfg(s5, "ProcNext", ids4s if nid_proc == 4 else ids3s, "RealH", trust=trust, fix=cfix,
                                            invariants=ALL_PROC_INV, properties=PROC_PROP), reps, 4, trust)
    jobs["control"] = (cfg(s5, "ProcNext", ids3s, "RealH", trust=True, multi=True, fix=cfix, invariants=["NoRedispatch"]),
                       [{m: v for m, v in hs[1].items() if m != "i4"}], 2, False)
    jobs["fexp"] = (cfg(s5, "FilterNext", ids4s, "RealH", invariants=FILTER_INV, properties=FILTER_PROP, export=True), hs, 2, False)
    for hi in range(nproc):
        for trust in (True, False):
            jobs["pexp:%d:%s" % (hi, trust)] = (cfg(s5, "ProcNext", ids4s, "RealH", trust=trust, export=True, fix=cfix,
                                                    invariants=PROC_INV + ["NoRedispatch", "NoRedispatchAny"]), [hs[hi]], 2, False)
    h2 = {m: hs[0][m] for m in MIDS[:2]}
    ids2 = {m: idsets[0][m] for m in MIDS[:2]}
    for trust in (True, False):     # two threads, two ids: every transition exported for conformance walks
        jobs["pexp2:%s" % trust] = (cfg(s5, "ProcNext", ids2s, "RealH", trust=trust, threads=2, export=True, fix=cfix,
                                        variants=(("txn",) if not thorough else ("txn", "plain", "fail")),
                                        invariants=["TypeOK", "NoFalseNegative", "BitsExact"]), [h2], 2, False)
    jobs["two:off"] = (cfg(s5, "ProcNext", ids3s, "RealH", trust=False, threads=2, fix=cfix,
                           invariants=PROC_INV + ["NoRedispatch", "NoRedispatchAny"]), [h3], 4, False)
    for li, (fix, inv) in enumerate(ladder):
        jobs["two:on:%d" % li] = (cfg(s5, "ProcNext", ids3s, "RealH", trust=True, threads=2, fix=fix, invariants=[inv], alias=True),
                                  [h3], 2, False)
    if thorough:   # the unrepaired and the fully repaired model once more with four ids
        h4 = hs[0]
        jobs["two4:off"] = (cfg(s5, "ProcNext", ids4s, "RealH", trust=False, threads=2, fix=cfix,
                                invariants=["NoRedispatch", "NoRedispatchAny"]),
                            [h4], 8, False)
        jobs["two4:fixed"] = (cfg(s5, "ProcNext", ids4s, "RealH", trust=True, threads=2, fix=LADDER[-1][0],
                                  invariants=["NoRedispatch", "NoRedispatchAny"]), [h4], 8, False)

    def do(name: str):
        c, hlist, w, cov = jobs[name]
        return name, run_tlc("dd-" + re.sub(r"\W", "", name), c, hlist, workers=w, coverage=cov, timeout=1400)

    results: dict[str, Any] = {}
    with ThreadPoolExecutor(max_workers=(6 if not thorough else 4)) as ex:
        for name, res in ex.map(do, list(jobs)):
            results[name] = res
    phase["tlc_all_jobs"] = round(time.time() - t1, 1)
    for name, res in results.items():
        b = tlc_broken(res)
        if b:
            return mach("TLC job %s: %s" % (name, b))
        account(res)
    det["tlc_jobs"] = {n: {"states": r.distinct, "generated": r.generated, "wall_s": round(r.wall, 1), "violated": r.violated}
                       for n, r in results.items()}

    # ---- 1. filter level, every hash function -----------------------------------------------------------
    det["filter_exhaustive"] = []
    for (sz, idset, nid) in fconfigs:
        size, res = SIZES[sz], results["filter:" + sz]
        det["filter_exhaustive"].append({"M": size["M"], "K": size["K"], "ids": nid, "hash_functions": _nsub(size) ** nid,
                                         "states_mod_id_symmetry": res.distinct, "generated": res.generated,
                                         "violated": res.violated, "actions": (res.coverage() if sz == "s5" else None)})
        for f in res.violated:
            viol("Dedup.tla FilterNext: %s violated (M=%d K=%d) - specification-level failure" % (f, size["M"], size["K"]),
                 {"kind": "model", "formula": f}, {"kind": "model", "config": "filter", "size": sz})

    # ---- 2. processor level, one thread -----------------------------------------------------------------
    det["proc_exhaustive"] = []
    for name, res in results.items():
        if not name.startswith("proc1"):
            continue
        trust = name.endswith("True")
        scope = ("all %d hash functions of 4 ids (SYMMETRY ids), handler variant txn" % (_nsub(s5) ** 4) if name.startswith("proc1:") else
                 "%d representatives of the %d hash functions of %d ids up to renaming of ids and positions"
                 % (len(reps), _nsub(s5) ** nid_proc, nid_proc))
        det["proc_exhaustive"].append({"trust": trust, "threads": 1, "scope": scope, "states": res.distinct,
                                       "generated": res.generated, "violated": res.violated,
                                       "actions": (res.coverage() if name == "proc1reps:True" else None)})
        for f in res.violated:
            viol("Dedup.tla ProcNext (1 thread, trust=%s): %s violated" % (trust, f),
                 {"kind": "model", "formula": f, "threads": 1, "trust": trust}, {"kind": "model", "config": "proc1", "trust": trust})
    res = results["control"]
    det["control_multiwriter"] = {"found_violation": "NoRedispatch" in res.violated, "states": res.distinct}
    if "NoRedispatch" not in res.violated:
        return mach("control: TLC did not find the documented multi-writer violation; NoRedispatch may be vacuous")

    # ---- 3a. filter-level transitions for the real functions, all replayed -------------------------------
    t1 = time.time()
    res = results["fexp"]
    if res.violated:
        return mach("filter export: TLC reports %s for a real hash function although the exhaustive run passed" % res.violated)
    inits, edges = parse_export(res.out)
    if len(inits) != len(hs) or not edges:
        return mach("filter export: %d initial states / %d edges exported for %d functions (real function outside "
                    "the quantified space?)" % (len(inits), len(edges), len(hs)))
    fe = {"edges": len(edges), "covered": 0, "walks": 0, "steps": 0, "mismatches": 0}
    template_walks: list[list[dict]] = []
    for hi in range(len(hs)):
        hid = "h%d" % hi
        es = [e for e in edges if e["s"]["hid"] == hid]
        ins = [i for i in inits if i["hid"] == hid]
        walks, cov, tot = covering_walks(ins, es, rnd, 60, 10**9)
        fe["covered"] += cov
        fe["walks"] += len(walks)
        if hi == 0:
            template_walks = walks
        for wi, wk in enumerate(walks):
            if corrupt and hi == 0 and wi == 0:
                wk = json.loads(json.dumps(wk))
                wk[-1]["t"]["auth"] = not wk[-1]["t"]["auth"]
            mm = replay_filter_walk(s5, idsets[hi], wk)
            fe["steps"] += len(wk)
            out["cases_replayed"] += 1
            if mm:
                fe["mismatches"] += 1
                viol("BloomDeduplicator differs from Dedup.tla at step %d (%s) of a FilterNext walk with ids %s: spec %s, real %s"
                     % (mm["step"], json.dumps(mm["op"]), json.dumps(idsets[hi]), json.dumps(mm["expected"]), json.dumps(mm["got"])),
                     {"kind": "filter_walk", "op": mm["op"], "expected": mm["expected"], "got": mm["got"]},
                     {"kind": "filter_walk", "size": "s5", "ids": idsets[hi], "walk": wk[:mm["step"] + 1]})
    det["filter_replay"] = fe
    if template_walks:
        wk = template_walks[0][:8]
        out["samples"].append({"filter_walk": [{"op": e["a"], "spec_after": {"bits": e["t"]["bits"], "auth": e["t"]["auth"],
                                                                           "answers": e["t"]["ans"]}} for e in wk[:4]],
                               "ids": idsets[0], "positions": hs[0]})
    phase["filter_replay"] = round(time.time() - t1, 1)

    # ---- 3b. processor-level transitions (one thread), walks replayed with a real worker thread ------------
    t1 = time.time()
    pe = {"edges": 0, "covered": 0, "walks": 0, "steps": 0, "mismatches": 0, "per_config": []}
    budget = 1500 if not thorough else 8000
    for hi in range(nproc):
        for trust in (True, False):
            res = results["pexp:%d:%s" % (hi, trust)]
            inits, edges = parse_export(res.out)
            cap = s5["n"]
            walks, cov, tot = covering_walks(
                inits, edges, rnd, 150, budget, max_priority=(30 if not thorough else 150),
                priority=lambda e: (e["a"]["op"] in ("readids", "restart") and len(e["s"]["processed"]) >= cap)
                or e["a"]["op"] == "skipdup" or (e["a"]["op"] == "handle" and e["a"].get("skipped")))
            pe["edges"] += tot
            pe["covered"] += cov
            pe["walks"] += len(walks)
            mmn = 0
            for wi, wk in enumerate(walks):
                if corrupt and hi == 0 and trust and wi == 0:
                    wk = json.loads(json.dumps(wk))
                    wk[-1]["t"]["processed"] = sorted(set(wk[-1]["t"]["processed"]) ^ {"i3"})
                r = replay_proc_walk(s5, idsets[hi], trust, 1, wk)
                pe["steps"] += r["steps"]
                out["cases_replayed"] += 1
                if r["mismatch"]:
                    mmn += 1
                    mm = r["mismatch"]
                    viol("_handle_message differs from Dedup.tla ProcNext (trust=%s) at step %d (%s): %s"
                         % (trust, mm["step"], json.dumps(mm["op"]), json.dumps({k: v for k, v in mm.items() if k not in ("step", "op")})[:700]),
                         {"kind": "proc_walk", "trust": trust, "threads": 1, "mismatch": mm},
                         {"kind": "proc_walk", "size": "s5", "ids": idsets[hi], "trust": trust, "threads": 1,
                          "walk": wk[:mm["step"] + 1]})
                if r["bad"] or r["badAny"]:
                    viol("real _handle_message (1 thread, trust=%s) dispatched an already processed id: %s" % (trust, r["dispatches"][-3:]),
                         {"kind": "proc_redispatch", "trust": trust, "threads": 1},
                         {"kind": "proc_walk", "size": "s5", "ids": idsets[hi], "trust": trust, "threads": 1, "walk": wk})
            pe["mismatches"] += mmn
            pe["per_config"].append({"h": hi, "trust": trust, "edges": tot, "covered": cov, "walks": len(walks), "mismatches": mmn})
            if hi == 0 and trust and walks:
                out["samples"].append({"proc_walk": [e["a"] for e in walks[0][:14]]})
    det["proc_replay"] = pe
    phase["proc_replay"] = round(time.time() - t1, 1)

    # ---- 4. two worker threads ---------------------------------------------------------------------------
    t1 = time.time()
    two: dict[str, Any] = {"ladder": []}
    for name in ("two:off", "two4:off", "two4:fixed"):
        if name not in results:
            continue
        res = results[name]
        two[name] = {"states": res.distinct, "violated": res.violated}
        for f in res.violated:
            viol("Dedup.tla ProcNext (%s): %s violated" % (name, f), {"kind": "model", "formula": f, "threads": 2, "config": name},
                 {"kind": "model", "config": name})
    for li, (fix, inv) in enumerate(ladder):
        res = results["two:on:%d" % li]
        entry: dict[str, Any] = {"fix": list(fix), "formula": inv, "states": res.distinct, "holds": not res.violated}
        if res.violated:
            tr = parse_trace(res.out)
            if len(tr) < 2:
                return mach("two threads: could not parse TLC's error trace (fix=%s)" % (fix,))
            acts = [s["a"] for s in tr[1:]]
            race = classify_race(acts)
            entry["race"] = race
            entry["trace"] = " ".join("%s%s" % (a["op"], ("(%s)" % ",".join(str(a[k]) for k in ("t", "x", "v") if k in a))
                                                if any(k in a for k in ("t", "x")) else "") for a in acts)
            # expand the repaired model's merged steps into the code's steps, then replay with real threads
            steps = expand_fixed_trace(acts, fix, tr, s5["n"])
            r = replay_proc_walk(s5, ids3, True, 2, [{"a": a, "t": None} for a in steps], compare=False)
            out["cases_replayed"] += 1
            confirmed = bool(r["bad"]) if inv == "NoRedispatch" else bool(r["badAny"])
            entry["confirmed_on_real_threads"] = confirmed
            entry["control_mismatch"] = r["mismatch"]
            entry["real_dispatches"] = r["dispatches"][-2:]
            if inv == "NoRedispatch":
                ctx = {"kind": "two_thread_race", "formula": FORMULA + "_NoRedispatch_2threads", "threads": 2, "trust": True,
                       "race": race, "fix": list(fix), "confirmed": confirmed}
                doc = {"kind": "two_thread_trace", "size": "s5", "ids": ids3, "steps": steps, "formula": inv}
                if confirmed:
                    viol("dedup_trust_negative_cache=True with 2 worker threads: the handler of an already committed message "
                         "runs again (race '%s', %d steps; model fix set %s); confirmed with real threads on _handle_message: %s"
                         % (race, len(steps), list(fix), r["dispatches"][-1:]), ctx, doc)
                else:
                    viol("Dedup.tla (2 threads, trust on, fix=%s) violates NoRedispatch but the real-thread replay did not "
                         "reproduce it (control: %s)" % (list(fix), r["mismatch"]), dict(ctx, kind="two_thread_unconfirmed"), doc)
        two["ladder"].append(entry)
    det["two_threads"] = two
    # conformance of real two-thread interleavings: walks over the exported two-thread graph (two ids)
    t2 = {"edges": 0, "covered": 0, "walks": 0, "steps": 0, "mismatches": 0}
    for trust in (True, False):
        inits, edges = parse_export(results["pexp2:%s" % trust].out)
        walks, cov, tot = covering_walks(inits, edges, rnd, 120, 800 if not thorough else 10000,
                                         max_priority=(10 if not thorough else 100),
                                         priority=lambda e: bool(e["t"]["bad"]) and not e["s"]["bad"])
        t2["edges"] += tot
        t2["covered"] += cov
        t2["walks"] += len(walks)
        for wk in walks:
            r = replay_proc_walk(s5, ids2, trust, 2, wk)
            t2["steps"] += r["steps"]
            out["cases_replayed"] += 1
            if r["mismatch"]:
                t2["mismatches"] += 1
                mm = r["mismatch"]
                viol("_handle_message on two real threads differs from Dedup.tla ProcNext (trust=%s) at step %d (%s): %s"
                     % (trust, mm["step"], json.dumps(mm["op"]), json.dumps({k: v for k, v in mm.items() if k not in ("step", "op")})[:700]),
                     {"kind": "proc_walk", "trust": trust, "threads": 2, "mismatch": mm},
                     {"kind": "proc_walk", "size": "s5", "ids": ids2, "trust": trust, "threads": 2, "walk": wk[:mm["step"] + 1]})
    det["two_thread_conformance"] = t2
    if not two["ladder"][-1]["holds"] or (not cfix and not two["ladder"][2]["holds"]):
        viol("Dedup.tla: the proposed repair does not establish NoRedispatch with two threads",
             {"kind": "model", "formula": "fix_insufficient"}, {"kind": "model", "config": "ladder"})
    phase["two_threads_replay"] = round(time.time() - t1, 1)

    # ---- 5. hypothesis id sets through the same op sequences -----------------------------------------------
    t1 = time.time()
    hsets = hypothesis_id_sets(seed, 40 if not thorough else 400)
    hy = {"id_sets": len(hsets), "templates": 0, "runs": 0, "failures": 0, "big_set": 0}
    tmpl = template_walks[: (6 if not thorough else 40)]
    hy["templates"] = len(tmpl)
    for si, idl in enumerate(hsets):
        wk = tmpl[si % len(tmpl)]
        mm = replay_template(wk, idl, default_size=False)
        hy["runs"] += 1
        out["cases_replayed"] += 1
        if mm:
            hy["failures"] += 1
            viol("BloomDeduplicator with hypothesis ids: %s at step %d" % (mm["what"], mm["step"]),
                 {"kind": "template", "what": mm["what"]}, {"kind": "template", "ids": idl, "walk": wk, "default_size": False})
    big = big_id_set(seed)
    hy["big_set"] = len(big)
    for wk in tmpl[: (2 if not thorough else 8)]:
        mm = replay_template(wk[:12], big, default_size=True)
        hy["runs"] += 1
        out["cases_replayed"] += 1
        if mm:
            hy["failures"] += 1
            viol("BloomDeduplicator (default size) with %d ids: %s at step %d" % (len(big), mm["what"], mm["step"]),
                 {"kind": "template", "what": mm["what"]}, {"kind": "template", "ids": "big:%d" % seed, "walk": wk[:12], "default_size": True})
    det["hypothesis"] = hy
    phase["hypothesis"] = round(time.time() - t1, 1)
    det["wall_s"] = round(time.time() - t0, 1)
    out["ok"] = not out["violations"] and out["machinery"] is None
    return out


def expand_fixed_trace(acts: list[dict], fix, tr: list[dict], cap: int) -> list[dict]:
    """A step of the repaired model that merges several calls of the code -> the code's steps."""
    steps: list[dict] = []
    for i, a in enumerate(acts):
        before, after = tr[i]["o"], tr[i + 1]["o"]
        op = a.get("op")
        if op == "query" and "decision" in fix:
            t = a["t"]
            steps.append(a)
            # the code reads `authoritative` next iff trust /\ ~maybe_seen (trust is on in these runs)
            if not before["ans"][a["x"]]:
                steps.append({"op": "readauth", "t": t, "x": a["x"]})
            continue
        if op == "rot" and "rotation" in fix and before["sr"]:
            t, x = a["t"], a["x"]
            steps += [a, {"op": "reset", "t": t, "x": x}, {"op": "readids", "t": t, "x": x}]
            if len(before["processed"]) <= cap:
                steps += [{"op": "hydbits", "t": t, "x": x}, {"op": "grant", "t": t, "x": x}]
            continue
        steps.append(a)
    return steps


def replay(doc: dict) -> dict:
    k = doc.get("kind")
    size = SIZES[doc.get("size", "s5")]
    if k == "positions":
        ps, err = position_check(size, doc["id"])
        return {"ok": err is None, "positions": ps, "error": err}
    if k == "filter_walk":
        mm = replay_filter_walk(size, doc["ids"], doc["walk"])
        return {"ok": mm is None, "mismatch": mm}
    if k == "proc_walk":
        r = replay_proc_walk(size, doc["ids"], doc["trust"], doc.get("threads", 1), doc["walk"])
        return {"ok": r["mismatch"] is None and not r["bad"], "result": r}
    if k == "two_thread_trace":
        r = replay_proc_walk(size, doc["ids"], True, 2, [{"a": a, "t": None} for a in doc["steps"]], compare=False)
        return {"ok": not r["bad"], "bad": r["bad"], "dispatches": r["dispatches"], "control": r["mismatch"]}
    if k == "template":
        ids = big_id_set(int(doc["ids"].split(":")[1])) if isinstance(doc["ids"], str) else doc["ids"]
        mm = replay_template(doc["walk"], ids, doc["default_size"])
        return {"ok": mm is None, "mismatch": mm}
    return {"ok": False, "machinery": "replay kind %r needs a TLC run; re-run the check" % (k,)}


if __name__ == "__main__":
    import sys

    tier = sys.argv[1] if len(sys.argv) > 1 else "quick"
    r = run_component(tier, int(os.environ.get("VERIF_SEED", "1")), corrupt="--corrupt" in sys.argv)
    r2 = dict(r)
    r2["violations"] = [v["what"][:400] for v in r["violations"][:10]]
    print(json.dumps(r2, indent=1, default=str)[:9000])
    print("violations:", len(r["violations"]), "ok:", r["ok"])
