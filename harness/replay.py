"""Spec -> code replay (DESIGN 4.2): a behaviour of the specification (TLC counter-example or
simulated behaviour, given as its sequence of step labels) is driven through the REAL engine - the
specification chooses which message is delivered, which ack is lost, where the process is killed,
when a sweep / cancel / lock expiry / delay happens - and the recorded execution is then validated
by TLC like any other trace."""
from __future__ import annotations

import json
import re
import shutil

from . import core  # noqa: F401
from . import tlc
from .programs import oracle_tla, to_tla

LBL_RE = re.compile(r'lbl = \[\s*name \|-> "(\w+)",\s*mid \|-> <<([^>]*)>>,\s*c \|-> (TRUE|FALSE)\s*\]', re.S)


def labels_from_tlc(out: str) -> list[dict]:
    labels = []
    for m in LBL_RE.finditer(out):
        parts = [x.strip() for x in m.group(2).split(",")]
        mid = [json.loads(parts[0]), json.loads(parts[1]), json.loads(parts[2]), int(parts[3])] if len(parts) == 4 else None
        labels.append({"name": m.group(1), "mid": mid, "c": m.group(3) == "TRUE"})
    return labels


def counterexample(prog: dict, ref: dict, consts: dict, formula: str, is_action: bool, depth: int = 400) -> list[dict] | None:
    """Ask TLC (halting mode) for a behaviour of the model that violates `formula`."""
    rd = tlc.new_rundir("cex-" + prog["name"])
    try:
        extra = oracle_tla(ref["oracle"])
        extra["CheckProps"] = "{}"
        extra["MaxDepth"] = str(depth)
        cfg = tlc.cfg_text(consts, view="View", invariants=[] if is_action else [formula],
                           properties=[formula] if is_action else [], constraints=["DepthBound"])
        r = tlc.run_tlc(rd, "MC_Engine", cfg, workers=4, program_tla=to_tla(prog, extra), timeout=900)
        if "is violated" not in r.out:
            return None
        return labels_from_tlc(r.out)[1:]   # drop Init
    finally:
        shutil.rmtree(rd, ignore_errors=True)


class Diverged(Exception):
    pass


def replay_labels(prog: dict, labels: list[dict]) -> dict:
    from .driver import Run

    run = Run(prog, "replay")
    try:
        run.start()

        def qid(mid):
            run.proj._refresh_keys()
            for k, v in run.proj.keys.items():
                if v == mid:
                    return k
            raise Diverged(f"the model delivers {mid} but the real queue never contained that message")

        i = 0
        n = len(labels)
        while i < n:
            lb = labels[i]
            nm = lb["name"]
            if nm == "Poll":
                j = i + 1
                commits = 1
                execd_since_commit = False
                while j < n and labels[j]["name"] not in ("Ack", "Withhold", "Reschedule", "Crash"):
                    if labels[j]["c"]:
                        commits += 1
                        execd_since_commit = False
                    if labels[j]["name"] == "RunTaskExec":
                        execd_since_commit = True
                    j += 1
                end = labels[j]["name"] if j < n else "unfinished"
                q = qid(lb["mid"])
                if end == "Crash" or end == "unfinished":
                    if execd_since_commit:
                        run.crash_at_exec = {run.exec_no + 1}
                    else:
                        run.crash_at = {run.commit_no + commits}
                    crashed = run.run_protected(lambda: run.deliver(q))
                    run.crash_at, run.crash_at_exec = set(), set()
                    if not crashed:
                        raise Diverged("the model crashes inside a handler at a commit the real handler never reached")
                elif end == "Withhold":
                    run.deliver(q, ack=False)
                else:
                    run.deliver(q)
                i = j + 1
                continue
            if nm == "LockExpire":
                run.expire(qid(lb["mid"]))
            elif nm == "TimePasses":
                run.warp(qid(lb["mid"]))
            elif nm == "Sweep":
                run.sweep()
            elif nm == "DLQSweep":
                run.dlq_sweep()
            elif nm == "SendCancel":
                run.send_cancel()
            elif nm == "EarlyStart":
                run.early_start(lb["mid"][1])
            elif nm == "SweepSnap":
                # a sweep concurrent with the handlers: the complete deliveries the model places between its read, its
                # look-ups and its push are nested into the real sweep at those statements
                groups, cur, j = [], [], i + 1
                while j < n and labels[j]["name"] != "SweepPush":
                    x = labels[j]["name"]
                    if x == "SweepLook":
                        groups.append(cur)
                        cur = []
                    elif x == "Poll":
                        cur.append(labels[j]["mid"])
                    elif x in ("Crash", "Withhold", "LockExpire", "TimePasses", "Sweep", "SendCancel", "SendSignal", "EarlyStart"):
                        raise Diverged("a concurrent sweep interleaved with " + x + " is not replayable by the nested-delivery driver")
                    j += 1
                if j >= n or len(groups) != 1:
                    raise Diverged("incomplete concurrent sweep in the counter-example")
                groups.append(cur)
                run.sweep_concurrent(groups[0], groups[1])
                i = j + 1
                continue
            elif nm == "SendCancelRegion":
                run.send_cancel_region(lb["mid"][1])
            elif nm == "SendAddInstance":
                run.send_add_instance(lb["mid"][1])
            elif nm == "PauseWorkflow":
                run.pause()
            elif nm == "Unpause":
                run.unpause()
            elif nm == "SendRestart":
                run.restart_stage(lb["mid"][1])
            elif nm == "SendSignal":
                run.send_signal(lb["mid"][1], lb["mid"][2] == "persistent")
            elif nm == "Crash":
                pass
            else:
                raise Diverged("unexpected label outside a delivery: " + nm)
            i += 1
        return run.as_trace({"kind": "replay", "labels": len(labels)})
    finally:
        run.close()


def confirm_on_code(prog: dict, ref: dict, consts: dict, formula: str, is_action: bool, check_props,
                    depth: int = 400) -> dict:
    """Model violation -> counter-example -> replay on the real engine -> TLC validation of the recorded run.
    Returns {status: confirmed|not_reproduced|diverged|no_cex, trace?, failed?, state?}"""
    from . import tracecheck

    labels = counterexample(prog, ref, consts, formula, is_action, depth)
    if labels is None:
        return {"status": "no_cex"}
    try:
        tr = replay_labels(prog, labels)
    except Diverged as e:
        return {"status": "diverged", "why": str(e), "labels": labels}
    v = tracecheck.validate(prog, [tr], check_props=check_props, extra_program=oracle_tla(ref["oracle"]))
    if v.machinery:
        return {"status": "machinery", "why": v.machinery}
    if v.rejected:
        return {"status": "diverged", "why": "recorded replay not explained by the specification", "rejected": v.rejected[0],
                "labels": labels, "trace": tr}
    hit = [f for f in v.failed if f["formula"] == formula]
    if hit:
        return {"status": "confirmed", "trace": tr, "at": hit[0]["at"], "labels": labels,
                "state": tracecheck.state_at(tr, hit[0]["at"] + (1 if is_action else 0))}
    return {"status": "not_reproduced", "trace": tr, "labels": labels, "failed": v.failed}


def main(pid: str, path: str) -> int:
    """./check Cxx --replay file : re-run the recorded scenario on the current tree and report."""
    from . import checks_engine as CE
    from . import engine_check as ec
    from . import tracecheck
    from .scenarios import job

    doc = json.load(open(path))
    if str(doc.get("kind", "")).startswith("wfrow-"):
        from . import check_wfrow

        return check_wfrow.replay_doc(pid, doc, path)
    if str(doc.get("kind", "")).startswith("slots-"):
        from . import check_slots

        return check_slots.replay_doc(pid, doc, path)
    if str(doc.get("kind", "")).startswith("progress-"):
        from . import check_progress

        return check_progress.replay_doc(pid, doc, path)
    prog = doc["program"]
    refs = ec.references([prog])
    ref = refs[prog["name"]]
    props = [doc["formula"]] if doc.get("formula") else []
    if doc["kind"] == "oracle":
        o = ref["oracle"]
        bad = o["Ref"]["wf"] != o["Ideal"]["wf"] or any(o["Ref"]["st"].get(s) != o["Ideal"]["st"].get(s)
                                                         for s in o["Ref"]["st"] if s not in o["Racy"])
        print("in-order run", o["Ref"], "declarative outcome", o["Ideal"], "schedule-dependent stages", sorted(o["Racy"]))
        if bad:
            print(f"VIOLATION property={pid} replay={path}")
            return 1
        return 0
    if doc["kind"] == "model":
        res = confirm_on_code(prog, ref, doc["config"]["consts"], doc["formula"], doc["formula"] in CE.ACTIONS, props,
                              doc["config"].get("depth", 400))
        print("replay of model counter-example:", res["status"], res.get("why", ""))
        if res["status"] == "confirmed":
            print(f"VIOLATION property={pid} replay={path}")
            return 1
        return 0 if res["status"] in ("not_reproduced", "no_cex") else 2
    meta = doc.get("meta") or {}
    spec = meta_to_job(prog, meta)
    if spec is None:
        print("cannot rebuild the scenario from", meta)
        return 2
    traces = job(spec)
    v = tracecheck.validate(prog, traces, check_props=props, extra_program=oracle_tla(ref["oracle"]))
    if v.machinery:
        print("MACHINERY-FAILURE:", v.machinery[-2000:])
        return 2
    bad = bool(v.rejected) or any(f["formula"] == doc.get("formula") for f in v.failed)
    print("replayed", meta, "rejected", len(v.rejected), "failed", [f["formula"] for f in v.failed])
    if bad:
        print(f"VIOLATION property={pid} replay={path}")
        return 1
    return 0


def meta_to_job(prog: dict, meta: dict) -> dict | None:
    k = meta.get("kind")
    if k == "crash":
        return {"kind": "crash", "prog": prog, "points": [meta["crash_at"]], "sweeps": meta.get("sweeps", 1),
                "late_expire": meta.get("late_expire", False)}
    if k == "crash-exec":
        return {"kind": "crash", "prog": prog, "exec_points": [meta["crash_at_exec"]], "sweeps": meta.get("sweeps", 1),
                "late_expire": meta.get("late_expire", False)}
    if k == "crash2":
        return {"kind": "crash2", "prog": prog, "pairs": [(meta["k1"], meta["k2"])]}
    if k == "schedule":
        return {"kind": "schedule", "prog": prog, "seeds": [meta["seed"]], "opts": meta.get("opts", {})}
    if k and k.startswith("inject-"):
        return {"kind": "inject", "prog": prog, "what": k[7:], "at": [meta["at"]], "times": meta.get("times", 1)}   # (also region:<name>)
    if k == "redeliver":
        return {"kind": "redeliver", "prog": prog, "cases": [(meta["victim"], meta["after"])],
                "opts": {"restart": meta.get("restart", False), "reset_bloom": meta.get("reset", False),
                         "trust": meta.get("trust", False), "fault": meta.get("fault", False)}}
    if k == "operator":
        return {"kind": "operator", "prog": prog, "seeds": [meta["seed"]],
                "opts": {"pause_at": meta["pause_at"], "unpause_after": meta["unpause_after"], "restart": meta["restart"],
                         "shuffle": meta["shuffle"], "hold": meta.get("hold", ""), "restart_at": meta.get("restart_at", -1),
                         "signal_after": meta.get("signal_after", False)}}
    if k == "pollcrash":
        return {"kind": "pollcrash", "prog": prog, "cases": [meta["times"]]}
    if k == "signal-crash":
        return {"kind": "signal-crash", "prog": prog, "cases": [(meta["signal_at"], meta["crash_at"])],
                "pers": meta.get("pers", True), "late_expire": meta.get("late_expire", False)}
    if k == "cancel-crash":
        return {"kind": "cancel-crash", "prog": prog, "cases": [(meta["cancel_at"], meta["rel"])],
                "late_expire": meta.get("late_expire", False)}
    if k == "fifo":
        return {"kind": "fifo", "prog": prog}
    return None
