"""Harness core: environment, sqlite3 connection proxy, crash exception, singleton resets.

Importing this module (before `stabilize`) configures the engine through its documented
environment variables and replaces `sqlite3.connect` in THIS process by a wrapper that passes
`factory=VConn`.  stabilize's ConnectionManager calls `sqlite3.connect(...)` through the module
attribute, so every engine connection is a VConn; no change to /repo is needed.
"""
from __future__ import annotations

import os
import sys
import threading

REPO = os.environ.get("VERIF_REPO", "/repo")
# Handler configuration: only RunTaskHandler receives handler_config, every other handler reads the
# process-wide default built from the environment, so the environment is the only uniform way.
os.environ.setdefault("STABILIZE_MAX_STAGE_WAIT_RETRIES", "3")
os.environ.setdefault("STABILIZE_HANDLER_RETRY_DELAY_S", "3600")
os.environ.setdefault("STABILIZE_TASK_BACKOFF_MIN_MS", "600000")     # task back-off < handler retry delay,
os.environ.setdefault("STABILIZE_TASK_BACKOFF_MAX_MS", "1200000")    # as with the defaults (1 s < 15 s)
os.environ.setdefault("STABILIZE_HANDLER_MIN_DELAY_MS", "1")
os.environ.setdefault("STABILIZE_HANDLER_MAX_DELAY_MS", "2")
os.environ.setdefault("STABILIZE_ERROR_MIN_DELAY_MS", "1")
os.environ.setdefault("STABILIZE_ERROR_MAX_DELAY_MS", "2")
os.environ.setdefault("STABILIZE_SQLITE_BUSY_TIMEOUT_MS", "2000")
if os.path.join(REPO, "src") not in sys.path:
    sys.path.insert(0, os.path.join(REPO, "src"))

import logging  # noqa: E402
import sqlite3  # noqa: E402

if not os.environ.get("VERIF_ENGINE_LOG"):
    logging.disable(logging.CRITICAL)

ORIG_CONNECT = sqlite3.connect


class VerifCrash(BaseException):
    """Simulated process kill.  BaseException: passes every `except Exception` of the engine."""


class Hooks:
    """Process-wide hook points consulted by VConn.  A driver installs callables here."""

    on_commit = None    # f(conn) after a real commit that closed an open transaction
    on_execute = None   # f(conn, sql, params) -> replacement sql or None, before a statement
    on_rollback = None
    enabled = True


class VConn(sqlite3.Connection):
    def commit(self):  # noqa: D102
        was = self.in_transaction
        super().commit()
        if was and Hooks.enabled and Hooks.on_commit is not None:
            Hooks.on_commit(self)

    def rollback(self):  # noqa: D102
        was = self.in_transaction
        super().rollback()
        if was and Hooks.enabled and Hooks.on_rollback is not None:
            Hooks.on_rollback(self)

    def execute(self, sql, *args):  # noqa: D102
        if Hooks.enabled and Hooks.on_execute is not None:
            new = Hooks.on_execute(self, sql, args)
            if new is not None:
                sql = new
        return super().execute(sql, *args)


_by_thread: dict = {}      # thread ident -> weak references to the engine connections opened on that thread


def _connect(*a, **kw):
    import weakref

    kw.setdefault("factory", VConn)
    c = ORIG_CONNECT(*a, **kw)
    if isinstance(c, VConn):
        _by_thread.setdefault(threading.get_ident(), []).append(weakref.ref(c))
    return c


def close_thread_connections() -> None:
    """Called by a harness worker thread before it ends: its connections go away the way a dying worker's do
    (an open transaction is rolled back by SQLite), without going through the hooks."""
    prev = Hooks.enabled
    Hooks.enabled = False
    try:
        for r in _by_thread.pop(threading.get_ident(), []):
            c = r()
            if c is not None:
                try:
                    c.close()
                except Exception:
                    pass
    finally:
        Hooks.enabled = prev


sqlite3.connect = _connect


def raw_connect(path: str) -> sqlite3.Connection:
    """A plain connection the engine knows nothing about (harness reads / time control)."""
    c = ORIG_CONNECT(path, timeout=5, isolation_level=None, check_same_thread=False)
    c.row_factory = sqlite3.Row
    return c


_shared = {}


def shared_resilience():
    """One bulkhead manager / circuit factory per harness process (they own thread pools)."""
    if not _shared:
        from stabilize.resilience.bulkheads import TaskBulkheadManager
        from stabilize.resilience.circuits import WorkflowCircuitFactory
        from stabilize.resilience.config import ResilienceConfig

        cfg = ResilienceConfig.from_env()
        _shared["b"] = TaskBulkheadManager(cfg)
        _shared["c"] = WorkflowCircuitFactory(cfg)
    return _shared["b"], _shared["c"]


def reset_volatile(dedup_items: int = 2000) -> None:
    """Drop everything a killed process loses (DESIGN 2.2)."""
    from stabilize import RunTaskHandler
    from stabilize.persistence.connection import ConnectionManager, SingletonMeta
    from stabilize.queue.dedup import get_deduplicator, reset_deduplicator
    from stabilize.resilience.cancellation import reset_cancellation_state

    prev = Hooks.enabled
    Hooks.enabled = False
    try:
        SingletonMeta.reset(ConnectionManager)
    finally:
        Hooks.enabled = prev
    reset_deduplicator()
    get_deduplicator(expected_items=dedup_items)  # small filter: ~2 ms/message instead of ~36 ms
    RunTaskHandler._executing_tasks.clear()
    reset_cancellation_state()
    try:
        from stabilize.events import reset_event_bus, reset_event_migrator, reset_event_recorder

        reset_event_bus()
        reset_event_recorder()
        reset_event_migrator()
    except Exception:
        pass
    try:
        from stabilize.events.txn_scope import abort_store_transaction

        abort_store_transaction()
    except Exception:
        pass


def scratch_dir(tag: str) -> str:
    import tempfile

    base = "/dev/shm" if os.path.isdir("/dev/shm") else os.environ.get("TMPDIR", "/var/tmp")
    return tempfile.mkdtemp(prefix=f"verif-{tag}-", dir=base)


_tls = threading.local()
