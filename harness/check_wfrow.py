"""Two workers on the (unversioned) workflow row - binding of spec/WfRow.tla.

Scenario "complete": CompleteWorkflow (every stage finished) vs an operator's CancelWorkflow (C06: a completed status
is final).  Scenario "start": StartWorkflow vs CancelWorkflow on a NOT_STARTED workflow (C17: the cancel flag stays).
TLC explores WfRow.tla (action properties CompletedIsFinal, FlagStays, invariant CancelAccepted) and exports every
reachable and every terminal (row, pushed) pair; EVERY interleaving of the two real handler threads at
write-transaction grain is executed under the baton scheduler of check_race; after every step the workflow row and the
messages pushed so far must be a reachable pair of the specification, at the end a terminal one."""
from __future__ import annotations

import itertools
import json
import os
import re
import shutil
import threading

from . import core
from .core import Hooks
from . import tlc
from . import programs as PR
from .check_race import Baton
from .evidence import Reporter


def cfg_module(scenario: str, nstages: int, ninitial: int) -> str:
    return "\n".join(["---- MODULE WfRowCfg ----", 'Scenario == "%s"' % scenario, "NStages == %d" % nstages,
                      "NInitial == %d" % ninitial, "===="]) + "\n"


def explore(rd: str, cfgmod: str) -> dict:
    os.makedirs(rd, exist_ok=True)
    with open(os.path.join(rd, "WfRowCfg.tla"), "w") as fh:
        fh.write(cfgmod)
    cfg = "\n".join(["SPECIFICATION Spec", "INVARIANT CancelAccepted", "PROPERTY CompletedIsFinal", "PROPERTY FlagStays",
                     "CONSTRAINT Seen", "CHECK_DEADLOCK FALSE"]) + "\n"
    r = tlc.run_tlc(rd, "MC_WfRow", cfg, workers=1, extra=["-continue"])
    reach, term = [], []
    for m in re.finditer(r'<<\s*"WFROW",\s*"((?:[^"\\]|\\.)*)",\s*"(live|terminal)"\s*>>', r.out, re.S):
        d = json.loads(m.group(1).encode().decode("unicode_escape"))
        if d not in reach:
            reach.append(d)
        if m.group(2) == "terminal" and d not in term:
            term.append(d)
    return {"reach": reach, "terminal": term, "violated": sorted(set(r.violated)), "distinct": r.distinct,
            "generated": r.generated, "ok": r.ok, "out": r.out}


def program() -> dict:
    return PR.P("wfrow", [PR.S("a"), PR.S("b", ["a"])])


def prepare(scenario: str, basedir: str) -> tuple[str, dict]:
    from .driver import Run

    prog = program()
    run = Run(prog, "wfrow-prep", keep=True)
    run.start()
    if scenario == "complete":
        for _ in range(200):
            rows = run.rows()
            if len(rows) == 1 and rows[0]["typ"] == "CompleteWorkflow":
                break
            run.deliver(rows[0]["qid"])
    run.send_cancel()
    rows = run.rows()
    state = run.proj.state()
    db = os.path.join(basedir, scenario + ".db")
    run.raw.close()
    run.raw = None
    Hooks.on_commit = Hooks.on_execute = None
    core.reset_volatile()
    shutil.copy(run.db, db)
    shutil.rmtree(run.dir, ignore_errors=True)
    return db, {"rows": rows, "state": state, "prog": prog}


def view(raw, base_ids: set) -> dict:
    r = raw.execute("SELECT status, is_canceled FROM pipeline_executions WHERE id = 'W-wfrow'").fetchone()
    pushed = {"CancelStage": 0, "CompleteWorkflow": 0, "StartStage": 0}
    for m in raw.execute("SELECT qid, typ FROM verif_qlog"):
        if m["qid"] not in base_ids and m["typ"] in pushed:
            pushed[m["typ"]] += 1
    return {"row": {"status": r["status"], "canceled": bool(r["is_canceled"])}, "pushed": pushed}


def run_schedule(basedb: str, scenario: str, rows: list[dict], prog: dict, sched: list[int], reach, term) -> dict:
    from stabilize import QueueProcessor, SqliteQueue, SqliteWorkflowStore, TaskRegistry
    from stabilize.queue.processor.config import QueueProcessorConfig
    from .vtask import VerifTask
    from .programs import task_class_name, register_builder

    d = core.scratch_dir("wfrow")
    db = os.path.join(d, "w.db")
    shutil.copy(basedb, db)
    cs = "sqlite:///" + db
    core.reset_volatile()
    baton = Baton()
    Hooks.on_commit = None
    Hooks.on_execute = baton.on_execute
    raw = core.raw_connect(db)
    try:
        register_builder(prog)
        store = SqliteWorkflowStore(cs, create_tables=False)
        queue = SqliteQueue(cs)
        reg = TaskRegistry()
        for sd in prog["stages"]:
            for td in sd["tasks"]:
                reg.register(task_class_name(td["name"]), VerifTask(td["name"]))
        b, c = core.shared_resilience()
        cfg = QueueProcessorConfig.from_handler_config(None)
        cfg.enable_lock_heartbeat = False
        proc = QueueProcessor(queue, config=cfg, store=store, task_registry=reg, bulkhead_manager=b, circuit_factory=c)
        first = {1: next(r for r in rows if r["typ"] == ("CompleteWorkflow" if scenario == "complete" else "StartWorkflow")),
                 2: next(r for r in rows if r["typ"] == "CancelWorkflow")}
        base_ids = {x["qid"] for x in raw.execute("SELECT qid FROM verif_qlog")}
        msgs = {}
        for w in (1, 2):
            raw.execute("UPDATE queue_messages SET deliver_at = '2999-01-01T00:00:00+00:00' WHERE id != ?", (first[w]["qid"],))
            raw.execute("UPDATE queue_messages SET deliver_at = '2000-01-01T00:00:00+00:00' WHERE id = ?", (first[w]["qid"],))
            m = queue.poll_one()
            if m is None or int(m.message_id) != first[w]["qid"]:
                raise RuntimeError("could not poll the racing message")
            msgs[w] = m
        store._get_connection().commit()
        threads = []
        for w in (1, 2):
            def body(w=w):
                proc._handle_message(msgs[w])
                queue.ack(msgs[w])
            t = threading.Thread(target=baton.run_worker, args=(w, body), daemon=True)
            threads.append(t)
            t.start()
        with baton.cv:
            baton.cv.wait_for(lambda: len(baton.parked) == 2, 10)
        bad = None
        done_sched = []
        last = view(raw, base_ids)
        for w in sched + [1] * 30 + [2] * 30:
            if w in baton.finished:
                continue
            baton.step(w)
            done_sched.append(w)
            last = view(raw, base_ids)
            if last not in reach and bad is None:
                bad = {"kind": "unreachable", "view": last, "after": list(done_sched)}
            if len(baton.finished) == 2:
                break
        for t in threads:
            t.join(5)
        errs = {w: repr(e) for w, e in baton.errors.items()}
        if bad is None and last not in term:
            bad = {"kind": "not-terminal", "view": last, "after": list(done_sched)}
        if errs and bad is None:
            bad = {"kind": "error", "view": last, "after": list(done_sched), "error": str(errs)}
        return {"schedule": done_sched, "final": last, "bad": bad}
    finally:
        with baton.cv:
            baton.turn = None
        for w in (1, 2):
            if w not in baton.finished:
                try:
                    for _ in range(60):
                        if baton.step(w, 5) == "finished":
                            break
                except Exception:
                    pass
        Hooks.on_execute = None
        raw.close()
        core.reset_volatile()
        shutil.rmtree(d, ignore_errors=True)


def _job(args):
    import time

    time.sleep = lambda _s: None      # threads run under the baton: real back-off sleeps only slow the replay
    basedb, scenario, rows, prog, scheds, reach, term = args
    return [run_schedule(basedb, scenario, rows, prog, s, reach, term) for s in scheds]


def component(rep: Reporter, tier: str, seed: int, scenarios=("complete", "start")) -> dict:
    import concurrent.futures as cf
    import multiprocessing as mp

    base = core.scratch_dir("wfrowbase")
    states = transitions = replayed = 0
    info, samples = [], []
    try:
        for scenario in scenarios:
            db, prep = prepare(scenario, base)
            st = prep["state"]["st"]
            nstages = len([s for s, v in st.items() if v["status"] not in ("SUCCEEDED", "TERMINAL", "CANCELED", "SKIPPED",
                                                                            "FAILED_CONTINUE", "STOPPED")])
            ninitial = len([s for s in prep["prog"]["stages"] if not s["req"]])
            ex = explore(os.path.join(base, scenario), cfg_module(scenario, nstages, ninitial))
            states += ex["distinct"]
            transitions += ex["generated"]
            if not ex["ok"] or ex["violated"]:
                rep.violation(f"WfRow.tla ({scenario}): {ex['violated'] or 'TLC failed: ' + ex['out'][-600:]}",
                              {"formula": (ex["violated"] or ["TLC"])[0], "state": None, "program": prep["prog"], "source": "wfrow-model"},
                              {"kind": "wfrow-model", "scenario": scenario})
                continue
            r0 = run_schedule(db, scenario, prep["rows"], prep["prog"], [], ex["reach"], ex["terminal"])
            n1 = sum(1 for w in r0["schedule"] if w == 1)
            n2 = sum(1 for w in r0["schedule"] if w == 2)
            scheds = []
            for pos in itertools.combinations(range(n1 + n2), n1):
                s = [2] * (n1 + n2)
                for p in pos:
                    s[p] = 1
                scheds.append(s)
            finals = []
            jobs = [(db, scenario, prep["rows"], prep["prog"], scheds[i:i + 10], ex["reach"], ex["terminal"])
                    for i in range(0, len(scheds), 10)]
            with cf.ProcessPoolExecutor(max_workers=int(os.environ.get("VERIF_NPROC", "16")), mp_context=mp.get_context("spawn")) as pool:
                for res in pool.map(_job, jobs):
                    for r in res:
                        replayed += 1
                        if r["final"] not in finals:
                            finals.append(r["final"])
                        if r["bad"]:
                            rep.violation(f"workflow-row race ({scenario}), schedule {r['bad']['after']}: row / pushed messages "
                                          f"{json.dumps(r['bad']['view'])} are "
                                          f"{'not reachable' if r['bad']['kind'] == 'unreachable' else 'not terminal'} in WfRow.tla "
                                          f"{r['bad'].get('error', '')}",
                                          {"formula": "CONFORMANCE", "state": None, "program": prep["prog"], "source": "wfrow-race"},
                                          {"kind": "wfrow-race", "scenario": scenario, "schedule": r["bad"]["after"],
                                           "mismatch": r["bad"]})
            info.append({"scenario": scenario, "model_states": ex["distinct"], "steps": [n1, n2], "interleavings": len(scheds),
                         "reachable": len(ex["reach"]), "terminal": ex["terminal"], "finals_on_code": finals,
                         "terminal_not_seen_on_code": [t for t in ex["terminal"] if t not in finals]})
            if scheds:
                samples.append({"scenario": scenario, "schedule": scheds[len(scheds) // 2]})
    finally:
        shutil.rmtree(base, ignore_errors=True)
    return {"states": states, "transitions": transitions, "replayed": replayed, "configs": info, "samples": samples}


def replay_doc(pid: str, doc: dict, path: str) -> int:
    base = core.scratch_dir("wfrowreplay")
    try:
        scenario = doc["scenario"]
        db, prep = prepare(scenario, base)
        st = prep["state"]["st"]
        nstages = len([s for s, v in st.items() if v["status"] not in ("SUCCEEDED", "TERMINAL", "CANCELED", "SKIPPED",
                                                                        "FAILED_CONTINUE", "STOPPED")])
        ex = explore(os.path.join(base, "tlc"), cfg_module(scenario, nstages, len([s for s in prep["prog"]["stages"] if not s["req"]])))
        if doc.get("kind") == "wfrow-model":
            print("WfRow.tla:", ex["violated"])
            return 1 if ex["violated"] else 0
        r = run_schedule(db, scenario, prep["rows"], prep["prog"], list(doc["schedule"]), ex["reach"], ex["terminal"])
        print("schedule", r["schedule"], "-> final", r["final"], r["bad"] or "")
        if r["bad"]:
            print(f"VIOLATION property={pid} replay={path}")
            return 1
        return 0
    finally:
        shutil.rmtree(base, ignore_errors=True)
