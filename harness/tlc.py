"""Running TLC / parsing its output."""
from __future__ import annotations

import json
import os
import re
import shutil
import subprocess
import time

from . import core

SPEC_DIR = os.path.join(os.path.dirname(os.path.dirname(os.path.abspath(__file__))), "spec")
JAVA_CP = "/opt/veriftools/tla/tla2tools.jar:/opt/veriftools/tla/CommunityModules-deps.jar"

DEFAULT_CONSTS = {
    "MaxCrashes": 0, "MaxWithhold": 0, "MaxSweeps": 0, "MaxCancels": 0, "MaxSignals": 0, "MaxEarly": 0, "MaxPauses": 0, "MaxRestarts": 0, "MaxRegions": 0, "MaxFaults": 0, "MaxAdds": 0,
    "MaxStageWait": 3, "MaxAttempts": 10, "AnyOrder": "TRUE", "EnvBetween": "FALSE", "FixRetry": "FALSE", "TrustNegative": "FALSE", "SplitSweep": "FALSE",
}


def cfg_text(consts: dict, init: str = "Init", next_: str = "Next", invariants=(), properties=(),
             constraints=(), action_constraints=(), view: str | None = None, postcondition: str | None = None,
             deadlock: bool = False, symmetry: str | None = None) -> str:
    c = dict(DEFAULT_CONSTS)
    c.update(consts)
    lines = ["CONSTANTS"] + [f"  {k} = {v}" for k, v in c.items()]
    lines += [f"INIT {init}", f"NEXT {next_}"]
    for i in invariants:
        lines.append(f"INVARIANT {i}")
    for p in properties:
        lines.append(f"PROPERTY {p}")
    for p in constraints:
        lines.append(f"CONSTRAINT {p}")
    for p in action_constraints:
        lines.append(f"ACTION_CONSTRAINT {p}")
    if view:
        lines.append(f"VIEW {view}")
    if postcondition:
        lines.append(f"POSTCONDITION {postcondition}")
    lines.append("CHECK_DEADLOCK " + ("TRUE" if deadlock else "FALSE"))
    return "\n".join(lines) + "\n"


class TLCResult:
    def __init__(self, rc: int, out: str, wall: float) -> None:
        self.rc = rc
        self.out = out
        self.wall = wall
        self.generated = self.distinct = self.depth = 0
        m = re.search(r"(\d+) states generated, (\d+) distinct states found", out)
        if m:
            self.generated, self.distinct = int(m.group(1)), int(m.group(2))
        m = re.search(r"The depth of the complete state graph search is (\d+)", out)
        if m:
            self.depth = int(m.group(1))
        self.violated = re.findall(r"Invariant (\S+) is violated", out)
        self.violated += re.findall(r"Action property (\S+) is violated", out)
        if "Temporal properties were violated" in out:
            self.violated.append("<temporal>")
        self.postcondition_failed = "Evaluating postcondition" in out or "postcondition" in out.lower() and "false" in out.lower()
        self.errors = [ln for ln in out.splitlines() if ln.startswith("Error:")]
        self.ok = (rc == 0 and not self.violated and not self.errors)

    def coverage(self) -> dict[str, int]:
        """action name -> number of distinct states it produced (needs -coverage)."""
        cov = {}
        for m in re.finditer(r"<(\w+) line \d+, col \d+ to line \d+, col \d+ of module (\w+)>: (\d+):(\d+)", self.out):
            cov[m.group(1)] = cov.get(m.group(1), 0) + int(m.group(4))
        return cov

    def printed(self, tag: str) -> list[str]:
        return [ln for ln in self.out.splitlines() if tag in ln]


def run_tlc(rundir: str, root: str, cfg: str, workers: int | str = 1, env: dict | None = None,
            timeout: int = 1800, extra: list[str] | None = None, program_tla: str | None = None,
            copy: list[str] = ()) -> TLCResult:
    os.makedirs(rundir, exist_ok=True)
    for f in [root + ".tla", *copy]:
        shutil.copy(os.path.join(SPEC_DIR, f), os.path.join(rundir, f))
    if program_tla is not None:
        with open(os.path.join(rundir, "Program.tla"), "w") as fh:
            fh.write(program_tla)
    with open(os.path.join(rundir, root + ".cfg"), "w") as fh:
        fh.write(cfg)
    cmd = ["java", "-XX:+UseParallelGC", "-Xmx8g", f"-DTLA-Library={SPEC_DIR}", "-cp", JAVA_CP, "tlc2.TLC",
           "-workers", str(workers), "-metadir", os.path.join(rundir, "states"), "-noGenerateSpecTE",
           "-config", root + ".cfg"] + (extra or []) + [root]
    e = dict(os.environ)
    e.update(env or {})
    t = time.time()
    try:
        p = subprocess.run(cmd, cwd=rundir, env=e, capture_output=True, text=True, timeout=timeout)
        out, rc = p.stdout + p.stderr, p.returncode
    except subprocess.TimeoutExpired as ex:
        out = (ex.stdout or b"").decode() if isinstance(ex.stdout, bytes) else (ex.stdout or "")
        out += "\nError: TLC timed out"
        rc = 124
    return TLCResult(rc, out, time.time() - t)


def new_rundir(tag: str) -> str:
    return core.scratch_dir("tlc-" + tag)


def write_traces(path: str, traces: list[dict]) -> None:
    with open(path, "w") as fh:
        json.dump(traces, fh)
