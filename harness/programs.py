"""Workload family: programs = (DAG, control-flow settings, task scripts).

A program is a plain JSON-able dict; `build_workflow` turns it into the real Workflow object,
`to_tla` into the literal TLA+ module `Program.tla` that Engine.tla EXTENDS (one source, two images).

Stage dict:  ref, req[], tasks[task], join in AND|OR|DISCRIMINATOR|N_OF_M|MULTI_MERGE, thr,
             cof (continuePipelineOnFailure), failp (failPipeline), mutex, choice,
             before[stage-ref], after[stage-ref] (synthetic children created by the builder),
             parent ("" for top level; synthetic children are listed as ordinary stage dicts
             with parent/owner set and are NOT stored initially), owner in ""|BEFORE|AFTER,
             enabled (stageEnabled: True/False/None)
Task dict:   name, k in ok|terminal|poll|transient|transientNoCtx|jump|suspend, n, target, out{}
"""
from __future__ import annotations

import json
from typing import Any

INF = 99


def T(name: str, k: str = "ok", n: int = 0, target: str = "", out: dict | None = None) -> dict:
    return {"name": name, "k": k, "n": n, "target": target, "out": out or {}}


def S(ref: str, req=(), tasks=None, join="AND", thr=0, cof=False, failp=True, mutex="", choice="",
      parent="", owner="", enabled=None, ctx=None, region="", split=None, lazy=False, milestone=None, midyn=False, instk=0) -> dict:
    if tasks is None:
        tasks = [T(f"{ref}.1")]
    return {"ref": ref, "req": sorted(req), "tasks": tasks, "join": join, "thr": thr, "cof": cof,
            "failp": failp, "mutex": mutex, "choice": choice, "parent": parent, "owner": owner,
            "enabled": enabled, "ctx": ctx or {}, "region": region, "split": dict(split or {}), "lazy": lazy, "milestone": list(milestone or []), "midyn": midyn, "instk": instk}


def P(name: str, stages: list[dict], max_jumps: int = -1, **kw) -> dict:
    d = {"name": name, "stages": stages, "maxJumps": max_jumps}
    d.update(kw)
    return d


# ----------------------------------------------------------------------------------------------
# Core family: one program per behaviour class of the C01 quantifier (DESIGN 6.1)
# ----------------------------------------------------------------------------------------------

def core_family() -> list[dict]:
    fam = []
    fam.append(P("chain2", [S("a"), S("b", ["a"])]))
    fam.append(P("diamond", [S("a"), S("b", ["a"]), S("c", ["a"]), S("d", ["b", "c"])]))
    fam.append(P("multitask", [S("a", tasks=[T("a.1"), T("a.2"), T("a.3")]), S("b", ["a"])]))
    fam.append(P("termchain", [S("a"), S("b", ["a"], tasks=[T("b.1", "terminal")]), S("c", ["b"])]))
    fam.append(P("cof", [S("a", tasks=[T("a.1", "terminal")], cof=True), S("b", ["a"])]))
    fam.append(P("poll", [S("a", tasks=[T("a.1", "poll", 2)]), S("b", ["a"])]))
    fam.append(P("transient", [S("a", tasks=[T("a.1", "transient", 2)]), S("b", ["a"])]))
    fam.append(P("fanout", [S("a"), S("b", ["a"]), S("c", ["a"])]))
    fam.append(P("failbranch", [S("a"), S("b", ["a"], tasks=[T("b.1", "terminal")]),
                                 S("c", ["a"], tasks=[T("c.1"), T("c.2")]), S("d", ["b", "c"])]))
    fam.append(P("firstof", [S("a"), S("b", ["a"]), S("c", ["a"]),
                              S("d", ["b", "c"], join="DISCRIMINATOR")]))
    fam.append(P("quorum", [S("a"), S("b", ["a"]), S("c", ["a"]), S("e", ["a"]),
                             S("d", ["b", "c", "e"], join="N_OF_M", thr=2)]))
    fam.append(P("selfloop", [S("a", tasks=[T("a.1", "jump", 2, "a")]), S("b", ["a"])]))
    fam.append(P("cycle2", [S("a"), S("b", ["a"], tasks=[T("b.1", "jump", 1, "a")]), S("c", ["b"])]))
    return fam


def with_outputs(prog: dict) -> dict:
    """every task publishes an output key, so what a downstream task sees is observable (C01 data clause)"""
    for s in prog["stages"]:
        for t in s["tasks"]:
            if not t["out"]:
                t["out"] = {"o_" + t["name"].replace(".", "_"): t["name"]}
    return prog


def by_name(name: str) -> dict:
    for p in all_programs():
        if p["name"] == name:
            return p
    raise KeyError(name)


def extra_family() -> list[dict]:
    fam = []
    fam.append(P("single", [S("a")]))
    fam.append(P("twocomp", [S("a"), S("b")]))
    fam.append(P("stopped", [S("a"), S("b", ["a"], tasks=[T("b.1", "terminal")], failp=False),
                              S("c", ["a"])]))
    fam.append(P("multimerge", [S("a"), S("b", ["a"]), S("c", ["a"]),
                                 S("d", ["b", "c"], join="MULTI_MERGE")]))
    fam.append(P("quorumfail", [S("a"), S("b", ["a"], tasks=[T("b.1", "terminal")]), S("c", ["a"]),
                                 S("e", ["a"]), S("d", ["b", "c", "e"], join="N_OF_M", thr=2)]))
    fam.append(P("firstoffail", [S("a"), S("b", ["a"], tasks=[T("b.1", "terminal")]),
                                  S("c", ["a"], tasks=[T("c.1"), T("c.2")]),
                                  S("d", ["b", "c"], join="DISCRIMINATOR")]))
    fam.append(P("transientinf", [S("a", tasks=[T("a.1", "transient", INF)]), S("b", ["a"])]))
    fam.append(P("jumpforever", [S("a", tasks=[T("a.1", "jump", INF, "a")]), S("b", ["a"])],
                 max_jumps=2))
    fam.append(P("pollmid", [S("a", tasks=[T("a.1"), T("a.2", "poll", 1), T("a.3")])]))
    fam.append(P("termmid", [S("a", tasks=[T("a.1"), T("a.2", "terminal"), T("a.3")]),
                              S("b", ["a"])]))
    fam.append(P("disabled", [S("a"), S("b", ["a"], enabled=False), S("c", ["b"])]))
    fam.append(P("expired", [S("a"), S("b", ["a"], enabled="expired"), S("c", ["b"]), S("d", ["a"], tasks=[T("d.1", "poll", 1)])]))
    fam.append(P("wfexpired", [S("a"), S("b", ["a"])], wfExpired=True))
    return fam


def halt_family() -> list[dict]:
    """a NON-last task of a stage halts (terminal / stops its branch only), with and without a parallel branch"""
    fam = []
    fam.append(P("termfirst", [S("a", tasks=[T("a.1", "terminal"), T("a.2")]), S("b", ["a"])]))
    fam.append(P("stopfirst", [S("r"), S("x", ["r"], failp=False, tasks=[T("x.1", "terminal"), T("x.2")]),
                               S("y", ["r"], tasks=[T("y.1", "poll", 2)]), S("z", ["x", "y"])]))
    return fam


def lazy_family() -> list[dict]:
    """stages whose tasks are built by the stage's builder at planning time (no task rows before the plan commit):
    the claim -> plan crash window is repaired by the zombie re-plan"""
    fam = []
    fam.append(P("lazy1", [S("a", lazy=True, tasks=[T("a.1"), T("a.2")])]))
    fam.append(P("lazychain", [S("a"), S("b", ["a"], lazy=True, tasks=[T("b.1"), T("b.2")]), S("c", ["b"])]))
    fam.append(P("lazyjoin", [S("a"), S("b", ["a"], lazy=True), S("c", ["a"]), S("d", ["b", "c"], lazy=True)]))
    fam.append(P("lazyfail", [S("a", lazy=True), S("b", ["a"], lazy=True, tasks=[T("b.1", "terminal")]), S("c", ["a"])]))
    return fam


def split_family() -> list[dict]:
    """OR-split (WCP-6) with and without the paired OR-join (WCP-7)"""
    fam = []
    # a splits to b (yes) / c (no) / d (no condition), OR-join j over b, c, d
    fam.append(P("orsplit", [S("a", split={"b": True, "c": False}), S("b", ["a"]), S("c", ["a"]), S("d", ["a"]),
                             S("j", ["b", "c", "d"], join="OR")]))
    # nothing activated: the first downstream is; AND-join below (a skipped branch counts as continuable)
    fam.append(P("ornone", [S("a", split={"b": False, "c": False}), S("b", ["a"]), S("c", ["a"]), S("j", ["b", "c"])]))
    # the activated branch fails: the OR-join must not run; the skipped branch has its own downstream
    fam.append(P("orfail", [S("a", split={"b": True, "c": False}), S("b", ["a"], tasks=[T("b.1", "terminal")]), S("c", ["a"]),
                            S("e", ["c"]), S("j", ["b", "c"], join="OR")]))
    # two OR-joins fed by one split, two tasks in the activated branch
    fam.append(P("ortwo", [S("a", split={"b": True, "c": True, "d": False}), S("b", ["a"], tasks=[T("b.1"), T("b.2")]), S("c", ["a"]),
                           S("d", ["a"]), S("j", ["b", "d"], join="OR"), S("k", ["c", "d"], join="OR")]))
    return fam


def mi_family() -> list[dict]:
    """WCP-15: instances added to a running multi-instance stage (declared here, created by AddMultiInstance)"""
    fam = []
    fam.append(P("midyn", [S("a"), S("w", ["a"], midyn=True, tasks=[T("w.1", "poll", 2)]), S("z", ["w"]),
                           S("w_instance_1", ["w"], tasks=[], instk=1), S("w_instance_2", ["w"], tasks=[], instk=2),
                           S("w_instance_3", ["w"], tasks=[], instk=3)]))
    return fam


def milestone_family() -> list[dict]:
    """WCP-18: a stage enabled only while its milestone stage is RUNNING (whether it runs or is skipped depends on the schedule)"""
    fam = []
    fam.append(P("milestone", [S("a"), S("m", ["a"], tasks=[T("m.1", "poll", 2)]), S("x", ["a"], milestone=["m", "RUNNING"]),
                               S("y", ["x"])]))
    fam.append(P("milestonelate", [S("a"), S("m", ["a"]), S("b", ["a"], tasks=[T("b.1", "poll", 1)]),
                                   S("x", ["b"], milestone=["m", "RUNNING"]), S("y", ["x", "m"])]))
    return fam


def region_family() -> list[dict]:
    """programs with a cancel region (WCP-25): CancelRegion is injected by the drivers"""
    fam = []
    fam.append(P("regionpar", [S("a"), S("b", ["a"], region="r", tasks=[T("b.1"), T("b.2")]), S("c", ["a"], region="r"),
                               S("d", ["a"], tasks=[T("d.1"), T("d.2")])]))
    fam.append(P("regionlast", [S("a"), S("b", ["a"], region="r", tasks=[T("b.1"), T("b.2")])]))
    fam.append(P("regionjoin", [S("a"), S("b", ["a"], region="r", tasks=[T("b.1"), T("b.2")]), S("c", ["a"]),
                                S("e", ["b", "c"])]))
    return fam


def operator_family() -> list[dict]:
    """programs for the operator actions pause / unpause / restart"""
    fam = []
    fam.append(P("pausepar", [S("a", tasks=[T("a.1"), T("a.2", "terminal")]), S("b", tasks=[T("b.1"), T("b.2")])]))
    fam.append(P("pausechain", [S("a", tasks=[T("a.1"), T("a.2")]), S("b", ["a"])]))
    fam.append(P("restartjump", [S("a", tasks=[T("a.1", "jumpafter", 1, "c")]), S("b", ["a"]), S("c", ["b"])]))
    fam.append(P("restartplain", [S("a"), S("b", ["a"]), S("c", ["a"])]))
    return fam


def control_family() -> list[dict]:
    """suspending tasks (signals), mutex pairs, deferred-choice groups"""
    fam = []
    fam.append(P("susp", [S("a"), S("w", ["a"], tasks=[T("w.1", "suspend")]), S("z", ["w"])]))
    fam.append(P("suspmulti", [S("w", tasks=[T("w.1"), T("w.2", "suspend"), T("w.3")]), S("z", ["w"])]))
    fam.append(P("susp2", [S("w", tasks=[T("w.1", "suspend", 2)]), S("z", ["w"])]))     # needs two approvals
    # every signal carries the same name and payload (two people sending "approve"): distinct signals, equal content
    fam.append(P("suspsame", [S("a"), S("w", ["a"], tasks=[T("w.1", "suspend")]), S("z", ["w"])], sigSame=True))
    fam.append(P("suspside", [S("a"), S("w", ["a"], tasks=[T("w.1", "suspend")]), S("x", ["a"]), S("z", ["w", "x"])]))
    fam.append(P("mutex2", [S("a"), S("b", ["a"], mutex="m"), S("c", ["a"], mutex="m"), S("d", ["b", "c"])]))
    fam.append(P("mutex3", [S("b", mutex="m", tasks=[T("b.1"), T("b.2")]), S("c", mutex="m"), S("e", mutex="m")]))
    fam.append(P("mutexfail", [S("a"), S("b", ["a"], mutex="m", tasks=[T("b.1", "terminal")]), S("c", ["a"], mutex="m")]))
    # a mutex holder that suspends (waits for a signal) is alive but not RUNNING: only the claim row keeps its sibling out
    fam.append(P("mutexsusp", [S("b", mutex="m", tasks=[T("b.1", "suspend")]), S("c", mutex="m", tasks=[T("c.1"), T("c.2")])]))
    fam.append(P("choice2", [S("a"), S("b", ["a"], choice="g"), S("c", ["a"], choice="g"), S("d", ["b"]), S("e", ["c"])]))
    fam.append(P("choice3", [S("b", choice="g"), S("c", choice="g"), S("e", choice="g", tasks=[T("e.1"), T("e.2")])]))
    # builder-built tasks: a claimed stage has no task rows until its plan commit, so a kill in between leaves a zombie
    # whose redelivered StartStage goes through the claim transaction (and its claim rows) a second time
    fam.append(P("choicelazy", [S("a"), S("b", ["a"], choice="g", lazy=True), S("c", ["a"], choice="g", lazy=True), S("d", ["b"])]))
    fam.append(P("mutexlazy", [S("b", mutex="m", lazy=True, tasks=[T("b.1"), T("b.2")]), S("c", mutex="m", lazy=True)]))
    return fam


def all_programs() -> list[dict]:
    return [with_outputs(p) for p in core_family() + extra_family() + control_family() + synthetic_family()
            + operator_family() + region_family() + split_family() + lazy_family() + halt_family() + milestone_family() + mi_family()]


# ----------------------------------------------------------------------------------------------
# Real Workflow object
# ----------------------------------------------------------------------------------------------

def task_class_name(tname: str) -> str:
    return "vt_" + tname.replace(".", "_")


def build_workflow(prog: dict):
    from stabilize import StageExecution, TaskExecution, Workflow
    from stabilize.models.stage import JoinType

    stages = []
    for i, sd in enumerate(prog["stages"]):
        if sd["parent"] or sd.get("instk"):
            continue  # synthetic children are created by the builder at plan time, instances by AddMultiInstance
        ctx: dict[str, Any] = {"_script": {t["name"]: t for t in sd["tasks"]}}
        ctx.update(sd.get("ctx") or {})
        if sd["cof"]:
            ctx["continuePipelineOnFailure"] = True
        if not sd["failp"]:
            ctx["failPipeline"] = False
        if sd["enabled"] is not None and sd["enabled"] != "expired":
            ctx["stageEnabled"] = sd["enabled"]
        if any(t["k"] == "verify" for t in sd["tasks"]):
            ctx["verification"] = {"type": "callable", "callable": "vverif", "max_retries": 99, "retry_delay_seconds": 900}
        tasks = []
        for j, td in enumerate(sd["tasks"]):
            te = TaskExecution.create(name=td["name"], implementing_class=task_class_name(td["name"]),
                                      stage_start=(j == 0), stage_end=(j == len(sd["tasks"]) - 1))
            # deterministic, creation-ordered ids (ULID order inside one millisecond is random)
            te.id = "T%03d%03d-%s" % (i, j, td["name"])
            tasks.append(te)
        if sd.get("lazy"):      # tasks are built by the registered StageDefinitionBuilder at planning time
            ctx["_lazy"] = True
            tasks = []
        kw: dict[str, Any] = {}
        if sd["join"] != "AND":
            kw["join_type"] = JoinType[sd["join"]]
            kw["join_threshold"] = sd["thr"]
        if sd["enabled"] == "expired":       # the start window lapsed long ago (epoch milliseconds)
            kw["start_time_expiry"] = 1
        if sd["mutex"]:
            kw["mutex_key"] = sd["mutex"]
        if sd["choice"]:
            kw["deferred_choice_group"] = sd["choice"]
        if sd.get("region"):
            kw["cancel_region"] = sd["region"]
        if sd.get("midyn"):          # WCP-15: instances may be added while it runs
            from stabilize.models.multi_instance import MultiInstanceConfig

            kw["mi_config"] = MultiInstanceConfig(allow_dynamic=True)
        if sd.get("milestone"):      # WCP-18: [milestone stage ref, required status]
            kw["milestone_ref_id"], kw["milestone_status"] = sd["milestone"]
        if sd.get("split"):     # OR-split (WCP-6): constant conditions, their values are the program's data
            from stabilize.models.stage import SplitType

            kw["split_type"] = SplitType.OR
            kw["split_conditions"] = {d: ("1 == 1" if v else "1 == 2") for d, v in sd["split"].items()}
        st = StageExecution(ref_id=sd["ref"], type="verif", name=sd["ref"], context=ctx,
                            requisite_stage_ref_ids=set(sd["req"]), tasks=tasks, **kw)
        st.id = "S%03d-%s" % (i, sd["ref"])
        stages.append(st)
    wctx = {}
    if prog.get("maxJumps", -1) >= 0:
        wctx["_max_jumps"] = prog["maxJumps"]
    wf = Workflow.create(application="verif", name=prog["name"], stages=stages, context=wctx)
    wf.id = "W-" + prog["name"]
    if prog.get("wfExpired"):
        wf.start_time_expiry = 1
    return wf


def build_decoy(prog: dict):
    """An OLDER, finished workflow stored in the same database: same stage ref_ids and task names as the program, but no
    prerequisites at all, everything SUCCEEDED.  It takes no part in the run (recovery ignores finished workflows); any
    query of the engine that forgets to scope by execution then reads the decoy's rows first."""
    from stabilize import StageExecution, TaskExecution, Workflow
    from stabilize.models.status import WorkflowStatus

    stages = []
    for i, sd in enumerate(prog["stages"]):
        if sd["parent"]:
            continue
        tasks = []
        for j, td in enumerate(sd["tasks"]):
            te = TaskExecution.create(name=td["name"], implementing_class=task_class_name(td["name"]),
                                      stage_start=(j == 0), stage_end=(j == len(sd["tasks"]) - 1))
            te.id = "A%03d%03d-%s" % (i, j, td["name"])      # sorts before the real ids
            te.status = WorkflowStatus.SUCCEEDED
            tasks.append(te)
        st = StageExecution(ref_id=sd["ref"], type="verif", name=sd["ref"], context={"decoy": True}, tasks=tasks)
        st.id = "A%03d-%s" % (i, sd["ref"])
        st.status = WorkflowStatus.SUCCEEDED
        stages.append(st)
    wf = Workflow.create(application="verif", name=prog["name"] + "-decoy", stages=stages, context={})
    wf.id = "A-decoy-" + prog["name"]
    wf.status = WorkflowStatus.SUCCEEDED
    return wf


# ----------------------------------------------------------------------------------------------
# Synthetic before / after children: created at plan time by a registered StageDefinitionBuilder
# ----------------------------------------------------------------------------------------------
CURRENT = {"prog": None}


def make_child(sd: dict):
    from stabilize import StageExecution, TaskExecution

    ctx = {"_script": {t["name"]: t for t in sd["tasks"]}}
    ctx.update(sd.get("ctx") or {})
    if sd["cof"]:
        ctx["continuePipelineOnFailure"] = True
    if not sd["failp"]:
        ctx["failPipeline"] = False
    tasks = []
    for j, td in enumerate(sd["tasks"]):
        te = TaskExecution.create(name=td["name"], implementing_class=task_class_name(td["name"]),
                                  stage_start=(j == 0), stage_end=(j == len(sd["tasks"]) - 1))
        te.id = "TK%03d-%s" % (j, td["name"])
        tasks.append(te)
    return StageExecution(ref_id=sd["ref"], type="verif", name=sd["ref"], context=ctx, tasks=tasks,
                          requisite_stage_ref_ids=set(sd["req"]))     # (prerequisites among the siblings: chained children)


def register_builder(prog: dict) -> None:
    from stabilize.stages.builder import StageDefinitionBuilder, get_default_factory

    CURRENT["prog"] = prog

    class VerifBuilder(StageDefinitionBuilder):
        @property
        def type(self) -> str:
            return "verif"

        def _kids(self, stage, owner):
            pr = CURRENT["prog"] or {"stages": []}
            return [sd for sd in pr["stages"] if sd["parent"] == stage.ref_id and sd["owner"] == owner]

        def build_tasks(self, stage):
            from stabilize import TaskExecution

            if not stage.context.get("_lazy"):
                return []
            names = list((stage.context.get("_script") or {}).keys())
            out = []
            for j, n in enumerate(names):
                te = TaskExecution.create(name=n, implementing_class=task_class_name(n), stage_start=(j == 0),
                                          stage_end=(j == len(names) - 1))
                te.id = "TL%03d-%s" % (j, n)     # creation-ordered ids (tasks are read back ORDER BY id)
                out.append(te)
            return out

        def before_stages(self, stage, graph) -> None:
            for sd in self._kids(stage, "BEFORE"):
                graph.add(make_child(sd))

        def after_stages(self, stage, graph) -> None:
            for sd in self._kids(stage, "AFTER"):
                graph.add(make_child(sd))

    get_default_factory().register(VerifBuilder())


def synthetic_family() -> list[dict]:
    fam = []
    fam.append(P("before1", [S("a"), S("p", ["a"]), S("z", ["p"]), S("p.b1", parent="p", owner="BEFORE")]))
    fam.append(P("before2", [S("p", tasks=[T("p.1"), T("p.2")]), S("z", ["p"]),
                             S("p.b1", parent="p", owner="BEFORE"), S("p.b2", parent="p", owner="BEFORE", tasks=[T("p.b2.1"), T("p.b2.2")])]))
    fam.append(P("after1", [S("p"), S("z", ["p"]), S("p.a1", parent="p", owner="AFTER")]))
    fam.append(P("beforeafter", [S("a"), S("p", ["a"]), S("x", ["a"]), S("z", ["p", "x"]),
                                 S("p.b1", parent="p", owner="BEFORE"), S("p.a1", parent="p", owner="AFTER")]))
    fam.append(P("beforefail", [S("p"), S("z", ["p"]), S("p.b1", parent="p", owner="BEFORE", tasks=[T("p.b1.1", "terminal")])]))
    fam.append(P("afterfail", [S("p"), S("z", ["p"]), S("p.a1", parent="p", owner="AFTER", tasks=[T("p.a1.1", "terminal")])]))
    # chained children: the second before-stage waits for the first, the second after-stage for the (failing) first
    fam.append(P("beforechain", [S("p", tasks=[T("p.1"), T("p.2")]), S("z", ["p"]), S("p.b1", parent="p", owner="BEFORE"),
                                 S("p.b2", ["p.b1"], parent="p", owner="BEFORE", tasks=[T("p.b2.1"), T("p.b2.2")])]))
    fam.append(P("afterchain", [S("p"), S("z", ["p"]), S("p.a1", parent="p", owner="AFTER", tasks=[T("p.a1.1", "terminal")]),
                                S("p.a2", ["p.a1"], parent="p", owner="AFTER")]))
    fam.append(P("afterchainok", [S("p"), S("z", ["p"]), S("p.a1", parent="p", owner="AFTER"),
                                  S("p.a2", ["p.a1"], parent="p", owner="AFTER")]))
    # a continue-on-failure parent with two parallel after-stages, the failing one finishes first
    fam.append(P("aftercof2", [S("p", cof=True), S("q", ["p"]), S("p.a1", parent="p", owner="AFTER", tasks=[T("p.a1.1", "terminal")]),
                               S("p.a2", parent="p", owner="AFTER", tasks=[T("p.a2.1", "poll", 1)])]))
    fam.append(P("siblingfail", [S("a"), S("bad", ["a"], tasks=[T("bad.1"), T("bad.2", "terminal")]),
                                 S("dep", ["a"]), S("dep.b1", parent="dep", owner="BEFORE", tasks=[T("dep.b1.1"), T("dep.b1.2")])]))
    return fam


# ----------------------------------------------------------------------------------------------
# TLA+ image
# ----------------------------------------------------------------------------------------------

def tla_value(v: Any) -> str:
    if isinstance(v, bool):
        return "TRUE" if v else "FALSE"
    if isinstance(v, int):
        return str(v)
    if isinstance(v, str):
        return json.dumps(v)
    if v is None:
        return '"none"'
    if isinstance(v, (list, tuple)):
        return "<<" + ", ".join(tla_value(x) for x in v) + ">>"
    if isinstance(v, (set, frozenset)):
        return "{" + ", ".join(tla_value(x) for x in sorted(v)) + "}"
    if isinstance(v, dict):
        if not v:
            return "<<>>"
        return "(" + " @@ ".join(f"{json.dumps(k)} :> {tla_value(x)}" for k, x in v.items()) + ")"
    raise TypeError(v)


def tla_program(prog: dict) -> dict:
    """The record Engine.tla reads (all stage-indexed functions have domain = all stage refs)."""
    st = prog["stages"]
    refs = [s["ref"] for s in st]
    tasks_of = {s["ref"]: [t["name"] for t in s["tasks"]] for s in st}
    beh = {}
    stage_of = {}
    for s in st:
        for t in s["tasks"]:
            # (verify: a verifier answering RETRY n times = a transient failure without context update)
            beh[t["name"]] = {"k": {"jump2": "jump", "verify": "transientNoCtx", "sleep": "ok", "pollR": "poll"}.get(t["k"], t["k"]), "n": t["n"], "target": t["target"],
                              "targets": t["target"].split(",") if t["target"] else [""]}
            stage_of[t["name"]] = s["ref"]
    return {
        "name": prog["name"],
        "stages": refs,
        "req": {s["ref"]: set(s["req"]) for s in st},
        "join": {s["ref"]: s["join"] for s in st},
        "thr": {s["ref"]: s["thr"] for s in st},
        "tasks": tasks_of,
        "beh": beh,
        "stageOf": stage_of,
        "cof": {s["ref"]: s["cof"] for s in st},
        "failp": {s["ref"]: s["failp"] for s in st},
        "mutex": {s["ref"]: s["mutex"] for s in st},
        "region": {s["ref"]: s.get("region", "") for s in st},
        "split": {s["ref"]: dict(s.get("split") or {}) for s in st},
        "midyn": {s["ref"]: bool(s.get("midyn")) for s in st},
        "instk": {s["ref"]: int(s.get("instk") or 0) for s in st},
        "msref": {s["ref"]: (s.get("milestone") or ["", ""])[0] for s in st},
        "msstatus": {s["ref"]: (s.get("milestone") or ["", ""])[1] for s in st},
        "choice": {s["ref"]: s["choice"] for s in st},
        "parent": {s["ref"]: s["parent"] for s in st},
        "owner": {s["ref"]: s["owner"] for s in st},
        "enabled": {s["ref"]: ("none" if s["enabled"] is None else "expired" if s["enabled"] == "expired" else ("yes" if s["enabled"] else "no"))
                    for s in st},
        "lazy": {s["ref"]: bool(s.get("lazy")) for s in st},
        "sigSame": bool(prog.get("sigSame")),
        "wfExpired": bool(prog.get("wfExpired")),
        "maxJumps": prog.get("maxJumps", -1) if prog.get("maxJumps", -1) >= 0 else 10,
    }


DEFAULT_ORACLE = {"Ref": '[wf |-> "", st |-> <<>>]', "Ideal": '[wf |-> "", st |-> <<>>]', "Racy": "{}",
                  "ExecMax": "<<>>", "RefViews": "<<>>", "CheckProps": "{}", "MaxDepth": "400"}


def oracle_tla(ref: dict) -> dict:
    """reference() record -> raw TLA+ definitions for Program.tla"""
    return {"Ref": "[wf |-> %s, st |-> %s]" % (tla_value(ref["Ref"]["wf"]), tla_value(ref["Ref"]["st"])),
            "Ideal": "[wf |-> %s, st |-> %s]" % (tla_value(ref["Ideal"]["wf"]), tla_value(ref["Ideal"]["st"])),
            "Racy": tla_value(set(ref["Racy"])),
            "ExecMax": tla_value(ref["ExecMax"]),
            "RefViews": tla_value({k: set(v) for k, v in ref.get("RefViews", {}).items()})}


def to_tla(prog: dict, extra: dict | None = None) -> str:
    rec = tla_program(prog)
    ex = dict(DEFAULT_ORACLE)
    ex.update(extra or {})
    extra = ex
    fields = ",\n   ".join(f"{k} |-> {tla_value(v)}" for k, v in rec.items())
    out = ["---- MODULE Program ----", "EXTENDS TLC", f"P == [\n   {fields} ]"]
    for k, v in (extra or {}).items():
        out.append(f"{k} == {v}")  # raw TLA+ text
    out.append("====")
    return "\n".join(out) + "\n"
