"""C16 "A stage sees exactly its ancestors' outputs, the nearest ancestor winning".

Specification: spec/DataFlow.tla (merge rule + Kahn order transcribed from the code, the declarative
property, a planner/engine state machine), roots spec/MC_DataFlow.tla and spec/Trace_DataFlow.tla.
Everything that decides is TLC:

 1. a seeded generator makes random DAG programs (<= 6 stages, 2-3 randomly overlapping output keys,
    scalar and list valued, own-context overrides, one- and two-task stages) and backward jump-loop
    programs whose outputs CHANGE per iteration (the task tags every value with producer, key and
    the ordinal of the producing execution);
 2. MC_DataFlow explores every program: every stage order, every tie-break of Kahn's queue (= every
    iteration order of the Python sets in get_merged_ancestor_outputs), every loop iteration; the
    theorems of DataFlow (every topological merge order gives an allowed view; candidates are exact;
    path-ordered keys have one value; the code's order is topological) are invariants; every view the
    model predicts a task can be handed is exported, judged by the declarative property without halting;
 3. every program is run on the REAL engine (SqliteWorkflowStore, SqliteQueue, QueueProcessor
    handlers) in order and under many random delivery schedules, in worker processes with different
    PYTHONHASHSEEDs (the set-iteration order is part of the schedule); the context each task execution
    was handed is recorded;
 4. Trace_DataFlow validates every recorded run: conformance with the model run "as the code"
    (C_* formulas) and the declarative property (NoForeignKeys, AllAncestorKeys, OwnWins,
    NearestWins, ListsAccumulate); in addition every recorded view must be one of the views step 2
    predicted for that (program, stage, execution ordinal);
 5. the reducer half of C16 is harness/comp_reducers.py (run in a separate process, folded in).

The Python side generates, drives, records, projects values into the spec's encoding, and compares
sets TLC produced; it never evaluates the property itself.
"""
from __future__ import annotations

import concurrent.futures as cf
import json
import os
import random
import shutil
import subprocess
import sys
import time
from typing import Any

from . import core  # noqa: F401  (must precede any stabilize import)
from . import evidence, findings, tlc
from .programs import P, S, T

PID = "C16"
NPROC = int(os.environ.get("VERIF_NPROC", "16"))
ROOT = os.path.dirname(os.path.dirname(os.path.abspath(__file__)))
PROP_FORMULAS = ("NoForeignKeys", "AllAncestorKeys", "OwnWins", "NearestWins", "ListsAccumulate")
STALE_FORMULAS = ("NearestWins", "ListsAccumulate", "NoForeignKeys")
KEY_POOL = [("x", "s"), ("y", "s"), ("l", "l"), ("z", "l")]


# ----------------------------------------------------------------------------------------------
# known finding: predicate (reads TLC's diagnostic, does not judge)
# ----------------------------------------------------------------------------------------------
def stale_after_rearm(sig: dict, ctx: dict) -> bool:
    """A stage that a backward jump re-armed (its task runs for the 2nd, 3rd.. time: n >= 1) is handed,
    under a key, an item that one of its ancestors produced in an EARLIER execution than that
    ancestor's latest one (TLC's `Stale` diagnostic), and the run conforms to the model that stores the
    merged ancestor values in the stage context (no C_* failure at that event)."""
    if ctx.get("formula") not in sig["formulas"]:
        return False
    if ctx.get("source") == "reducers":
        return False
    prog = ctx.get("program") or {}
    has_back_jump = any(t["k"] == "jump" and t["n"] >= 1 for s in prog.get("stages", []) for t in s["tasks"])
    return bool(has_back_jump and ctx.get("stale") is True and int(ctx.get("n", 0)) >= 1
                and not ctx.get("conformance_failed", False))


findings.PREDICATES["c16_stale_after_rearm"] = stale_after_rearm


# ----------------------------------------------------------------------------------------------
# programs
# ----------------------------------------------------------------------------------------------
def TT(name: str, k: str = "ok", n: int = 0, target: str = "", df: dict | None = None) -> dict:
    t = T(name, k, n, target)
    t["df"] = df or {}      # key -> {"when": "always"|"first", "dup": bool}
    return t


def own_value(ref: str, key: str, kind: str, dup: bool) -> Any:
    a = "%s.%s.own" % (ref, key)
    return a if kind == "s" else ([a, "dup"] if dup else [a])


def _tasks(rng: random.Random, ref: str, keys: list[tuple[str, str]], loop: bool, p_prod: float) -> list[dict]:
    ntask = 2 if rng.random() < 0.25 else 1
    out = []
    for j in range(ntask):
        df = {}
        for k, kind in keys:
            if rng.random() < p_prod:
                df[k] = {"when": "first" if (loop and rng.random() < 0.2) else "always",
                         "dup": bool(kind == "l" and rng.random() < 0.5)}
        out.append(TT("%s.%d" % (ref, j + 1), df=df))
    return out


def _own(rng: random.Random, ref: str, keys: list[tuple[str, str]], p: float) -> dict:
    return {k: own_value(ref, k, kind, rng.random() < 0.5) for k, kind in keys if rng.random() < p}


def _pick_keys(rng: random.Random) -> list[tuple[str, str]]:
    n = rng.choice([2, 3, 3])
    while True:
        ks = rng.sample(KEY_POOL, n)
        if any(kind == "s" for _, kind in ks):
            return sorted(ks)


def gen_free(rng: random.Random, idx: int) -> dict:
    """Loop-free DAG: chain / diamond / fan-in / random requisite sets."""
    keys = _pick_keys(rng)
    n = rng.randint(2, 6)
    refs = list("abcdef")[:n]
    shape = rng.choice(["chain", "diamond", "fanin", "random", "random", "random"])
    req: dict[str, list[str]] = {r: [] for r in refs}
    if shape == "chain":
        for i in range(1, n):
            req[refs[i]] = [refs[i - 1]]
    elif shape == "diamond" and n >= 4:
        mids = refs[1:n - 1]
        for m in mids:
            req[m] = [refs[0]]
        req[refs[-1]] = mids
    elif shape == "fanin" and n >= 3:
        req[refs[-1]] = refs[:n - 1] if rng.random() < 0.5 else rng.sample(refs[:n - 1], max(2, (n - 1) // 2 + 1))
    else:
        shape = "random"
        for i in range(1, n):
            k = rng.choice([0, 1, 1, 2, 2, 3])
            req[refs[i]] = rng.sample(refs[:i], min(i, k))
    p_prod = rng.choice([0.35, 0.5, 0.7])
    stages = [S(r, req[r], tasks=_tasks(rng, r, keys, False, p_prod), ctx=_own(rng, r, keys, 0.15)) for r in refs]
    for sd in stages:                  # a stage that ends FAILED_CONTINUE (its last task fails, the workflow goes on):
        if rng.random() < 0.2:         # what it produced counts like the outputs of a succeeded stage
            sd["tasks"][-1]["fc"] = True
            sd["cof"] = True
    if rng.random() < 0.25:
        rng.shuffle(stages)            # storage order need not be topological
    return P("f%03d" % idx, stages, df=True, kind=dict(keys), shape=shape)


def gen_loop(rng: random.Random, idx: int) -> dict:
    """pre* -> target -> body* -> source(jumps back to target n times) -> post*; the loop body is closed."""
    keys = _pick_keys(rng)
    budget = rng.randint(2, 6)
    names = iter("abcdef")
    npre = rng.choice([0, 0, 1, 1, 2]) if budget >= 3 else 0
    body_kind = rng.choice(["direct", "chain", "chain", "pair"])
    nmid = {"direct": 0, "chain": 1, "pair": 2}[body_kind]
    while 2 + npre + nmid > budget and nmid > 0:
        body_kind, nmid = "direct", 0
    while 2 + npre + nmid > budget and npre > 0:
        npre -= 1
    npost = min(rng.choice([0, 1, 1]), 6 - (2 + npre + nmid))
    pre = [next(names) for _ in range(npre)]
    tgt = next(names)
    mids = [next(names) for _ in range(nmid)]
    src = next(names)
    post = [next(names) for _ in range(npost)]
    p_prod = rng.choice([0.5, 0.7, 0.85])
    stages = []
    for i, r in enumerate(pre):
        rq = [pre[0]] if i == 1 and rng.random() < 0.5 else []
        stages.append(S(r, rq, tasks=_tasks(rng, r, keys, True, p_prod), ctx=_own(rng, r, keys, 0.1)))
    stages.append(S(tgt, rng.sample(pre, rng.randint(0, len(pre))), tasks=_tasks(rng, tgt, keys, True, p_prod),
                    ctx=_own(rng, tgt, keys, 0.1)))
    for i, r in enumerate(mids):
        rq = [tgt] if (body_kind == "pair" or i == 0) else [mids[i - 1]]
        stages.append(S(r, rq, tasks=_tasks(rng, r, keys, True, p_prod), ctx=_own(rng, r, keys, 0.1)))
    njump = rng.choice([1, 1, 2])
    stasks = _tasks(rng, src, keys, True, p_prod)
    stasks[-1]["k"], stasks[-1]["n"], stasks[-1]["target"] = "jump", njump, tgt
    stages.append(S(src, (mids if body_kind == "pair" else mids[-1:]) or [tgt], tasks=stasks, ctx=_own(rng, src, keys, 0.1)))
    for r in post:
        rq = [src] + (rng.sample(pre, 1) if pre and rng.random() < 0.4 else [])
        stages.append(S(r, rq, tasks=_tasks(rng, r, keys, True, p_prod), ctx=_own(rng, r, keys, 0.15)))
    return P("j%03d" % idx, stages, df=True, kind=dict(keys), shape="loop-" + body_kind)


def fixed_programs() -> list[dict]:
    """Hand-written members: the design-time probe (a -> m -> b -> c, b jumps back to a twice), a diamond
    with a key written on both branches (not path-ordered) and one written on the path, the chain
    a -> b plus an isolated producer (Kahn's FIFO never lets the isolated stage win)."""
    kd = {"x": "s", "y": "s", "l": "l"}
    al = {"when": "always", "dup": True}
    a = {"when": "always", "dup": False}
    probe = P("jprobe", [S("a", tasks=[TT("a.1", df={"x": a, "l": al})]),
                         S("m", ["a"], tasks=[TT("m.1", df={"y": a})]),
                         S("b", ["m"], tasks=[TT("b.1", "jump", 2, "a", df={"y": a})]),
                         S("c", ["b"], ctx={"x": own_value("c", "x", "s", False)})],
              df=True, kind=kd, shape="loop-chain")
    diamond = P("fdiamond", [S("a", tasks=[TT("a.1", df={"x": a, "y": a, "l": al})]),
                             S("b", ["a"], tasks=[TT("b.1", df={"x": a, "l": al})]),
                             S("c", ["a"], tasks=[TT("c.1", df={"x": a, "l": a}), TT("c.2", df={"y": a})]),
                             S("d", ["b", "c"], ctx={"l": own_value("d", "l", "l", True)})],
                df=True, kind=kd, shape="diamond")
    side = P("fside", [S("a", tasks=[TT("a.1", df={"x": a})]), S("b", ["a"], tasks=[TT("b.1", df={"x": a, "l": a})]),
                       S("c", tasks=[TT("c.1", df={"x": a, "l": al})]), S("d", ["b", "c"])],
             df=True, kind=kd, shape="side")
    fc = P("ffailc", [S("a", tasks=[TT("a.1", df={"x": a, "l": al})]),
                      S("b", ["a"], tasks=[dict(TT("b.1", df={"x": a, "y": a, "l": a}), fc=True)], cof=True),
                      S("c", ["b"], tasks=[TT("c.1", df={"l": a})]), S("d", ["c"])],
           df=True, kind=kd, shape="failed-continue")
    return [probe, diamond, side, fc]


def all_dags(n: int) -> list[dict[str, list[str]]]:
    """Every DAG over n stages listed in a topological order (requisites = any subset of the earlier stages)."""
    refs = list("abcdef")[:n]
    out: list[dict[str, list[str]]] = [{}]
    for i, r in enumerate(refs):
        nxt = []
        for g in out:
            for mask in range(1 << i):
                h = dict(g)
                h[r] = [refs[j] for j in range(i) if mask >> j & 1]
                nxt.append(h)
        out = nxt
    return out


def gen_exhaustive(nmax: int) -> list[dict]:
    """Bounded-exhaustive family: EVERY DAG over <= nmax stages x one key (scalar or list) x per stage
    {nothing, produces it, sets it in its own context, both}.  For nmax = 4 the 4-stage members vary
    production on the first three stages and the own context of the last one only (the views of the
    earlier stages are those of the 3-stage members)."""
    progs = []
    for n in range(2, nmax + 1):
        refs = list("abcdef")[:n]
        for gi, g in enumerate(all_dags(n)):
            for kind, key in (("s", "x"), ("l", "l")):
                if n <= 3:
                    pats = range(4 ** n)
                    dec = lambda pat, i: (pat >> (2 * i)) & 3          # noqa: E731
                else:
                    pats = range(2 ** (n - 1) * 2)
                    dec = lambda pat, i: ((pat >> i) & 1) if i < n - 1 else 2 * ((pat >> (n - 1)) & 1)   # noqa: E731
                for pat in pats:
                    stages = []
                    for i, r in enumerate(refs):
                        c = dec(pat, i)
                        df = {key: {"when": "always", "dup": True}} if c & 1 else {}
                        ctx = {key: own_value(r, key, kind, True)} if c & 2 else {}
                        stages.append(S(r, g[r], tasks=[TT(r + ".1", df=df)], ctx=ctx))
                    progs.append(P("e%d_%d_%s%d" % (n, gi, kind, pat), stages, df=True, kind={key: kind}, shape="exh%d" % n))
    return progs


def gen_programs(seed: int, n_free: int, n_loop: int, exhaustive: int = 0) -> list[dict]:
    rng = random.Random(seed * 1000003 + 16)
    progs = fixed_programs()
    if exhaustive >= 2:
        progs += gen_exhaustive(exhaustive)
    progs += [gen_free(rng, i) for i in range(n_free)]
    progs += [gen_loop(rng, i) for i in range(n_loop)]
    return progs


def is_loop(prog: dict) -> bool:
    return any(t["k"] == "jump" for s in prog["stages"] for t in s["tasks"])


def to_val(v: Any) -> dict:
    """Python value -> the spec's Val record (projection; unexpected shapes become kind 'o')."""
    if isinstance(v, str):
        return {"t": "s", "v": [v]}
    if isinstance(v, list) and all(isinstance(x, str) for x in v):
        return {"t": "l", "v": list(v)}
    return {"t": "o", "v": [json.dumps(v, sort_keys=True, default=str)]}


def tla_case(prog: dict) -> dict:
    """The record G of DataFlow.tla."""
    st = prog["stages"]
    return {
        "name": prog["name"],
        "stages": [s["ref"] for s in st],
        "req": {s["ref"]: list(s["req"]) for s in st},
        "tasks": {s["ref"]: [t["name"] for t in s["tasks"]] for s in st},
        "kind": dict(prog["kind"]),
        "prod": {t["name"]: {k: {"when": d["when"], "dup": bool(d["dup"])} for k, d in (t.get("df") or {}).items()}
                 for s in st for t in s["tasks"]},
        "own": {s["ref"]: {k: to_val(v) for k, v in (s.get("ctx") or {}).items()} for s in st},
        "jump": {t["name"]: {"target": t["target"], "n": t["n"]} for s in st for t in s["tasks"] if t["k"] == "jump"},
    }


# ----------------------------------------------------------------------------------------------
# driving the real engine (worker processes; one PYTHONHASHSEED each)
# ----------------------------------------------------------------------------------------------
def _engine_classes():
    from stabilize import TaskResult

    from .driver import Run
    from .programs import task_class_name
    from .vtask import LEDGER, LEDGER_LOCK, VerifTask, user_view

    class DFTask(VerifTask):
        """Scripted task whose outputs are tagged with producer, key and the ordinal of this execution."""

        def execute(self, stage):
            ctx = stage.context
            script = ctx["_script"][self.tname]
            jumps = int(ctx.get("_jump_count", 0))
            with LEDGER_LOCK:
                n = LEDGER.count(self.tname)
                entry = {"task": self.tname, "prog": 0, "jumps": jumps, "sig": False, "view": user_view(ctx),
                         "n": n, "stage": stage.ref_id}
                LEDGER.entries.append(entry)
            if LEDGER.on_exec is not None:
                LEDGER.on_exec(entry)
            if script["k"] == "jump" and jumps < script["n"]:
                return TaskResult.jump_to(script["target"])
            kinds = ctx["_kinds"]
            out = {}
            for k, d in (script.get("df") or {}).items():
                if d["when"] == "first" and n > 0:
                    continue
                atom = "%s.%s.%d" % (stage.ref_id, k, n)
                out[k] = atom if kinds[k] == "s" else ([atom, "dup"] if d["dup"] else [atom])
            if script.get("fc"):      # the stage ends FAILED_CONTINUE, with outputs
                return TaskResult.failed_continue("scripted failure", outputs=out)
            return TaskResult.success(outputs=out)

    class DFRun(Run):
        def boot(self):
            from stabilize.queue.dedup import get_deduplicator, reset_deduplicator

            reset_deduplicator()
            get_deduplicator(expected_items=300)     # < 100 messages per run; fill_ratio() is O(filter size) per message
            super().boot()
            regs = {id(h.task_registry): h.task_registry for h in self.proc._handlers.values()
                    if hasattr(h, "task_registry")}
            if not regs:
                raise RuntimeError("no task registry found on the handlers")
            for reg in regs.values():
                for sd in self.prog["stages"]:
                    for td in sd["tasks"]:
                        reg._tasks[task_class_name(td["name"])] = DFTask(td["name"])

        def _on_commit(self, conn):      # no per-commit projection needed here: only executions are recorded
            if not self.quiet:
                self.commit_no += 1

        def _on_exec(self, entry):
            self.exec_no += 1
            self.emit({"e": "exec", "stage": entry["stage"], "task": entry["task"], "n": entry["n"],
                       "jumps": entry["jumps"], "view": entry["view"]})

        def emit(self, ev):
            if not self.quiet and ev.get("e") == "exec":
                self.trace.append(ev)

    return DFRun


def engine_prog(prog: dict) -> dict:
    """The program as build_workflow wants it (+ the key kinds in every stage context, `_`-prefixed)."""
    p = json.loads(json.dumps(prog))
    for s in p["stages"]:
        s["ctx"] = dict(s.get("ctx") or {})
        s["ctx"]["_kinds"] = prog["kind"]
    return p


def run_one(prog: dict, job: dict) -> dict:
    """One run of the real engine: 'fifo' or a seeded random delivery schedule."""
    DFRun = _engine_classes()
    run = DFRun(engine_prog(prog), "df")
    steps = 0
    try:
        run.start()
        if job["kind"] == "fifo":
            status = run.drain()
        else:
            rng = random.Random(job["seed"])
            pw = job.get("p_withhold", 0.0)
            status = "steps-exhausted"
            while steps < 1500:
                steps += 1
                rows = run.rows()
                if not rows:
                    status = "quiescent"
                    break
                vis = [r for r in rows if not r["locked"] and not r["delayed"] and r["att"] < r["max"]]
                locked = [r for r in rows if r["locked"]]
                if locked and (not vis or rng.random() < 0.25):
                    run.expire(rng.choice(locked)["qid"])
                    continue
                if vis:
                    run.deliver(rng.choice(vis)["qid"], ack=rng.random() >= pw)
                    continue
                delayed = [r for r in rows if r["delayed"] and not r["locked"] and r["att"] < r["max"]]
                if delayed:
                    run.warp(min(delayed, key=lambda r: r["deliver_at"])["qid"])
                    continue
                status = "stuck"
                break
        wf = run.proj.state()["wf"]["status"]
        import stabilize

        return {"prog": prog["name"], "job": job, "events": [dict(e) for e in run.trace], "wf": wf, "drain": status,
                "src": os.path.dirname(stabilize.__file__)}
    finally:
        run.close()


def worker_main(inp: str, outp: str) -> int:
    spec = json.load(open(inp))
    res = []
    deadline = spec.get("deadline")
    for prog, job in spec["items"]:
        job = dict(job, hashseed=spec["hashseed"])
        if deadline and time.time() > deadline:      # wall-clock budget of the tier: the rest is reported as skipped
            res.append({"prog": prog["name"], "job": job, "skipped": True})
            continue
        try:
            res.append(run_one(prog, job))
        except Exception as e:  # noqa: BLE001
            import traceback

            res.append({"prog": prog["name"], "job": job, "error": "%s: %s\n%s" % (type(e).__name__, e, traceback.format_exc()[-1500:])})
    with open(outp, "w") as fh:
        json.dump(res, fh)
    return 0


def run_engine_jobs(items: list[tuple[dict, dict]], hashseeds: list[int], workdir: str, repo_src: str | None = None,
                    deadline: float | None = None) -> list[dict]:
    """items are dealt round-robin to one worker process per hash seed."""
    chunks: dict[int, list] = {h: [] for h in hashseeds}
    for i, it in enumerate(items):
        chunks[hashseeds[i % len(hashseeds)]].append(it)

    def launch(h: int) -> list[dict]:
        if not chunks[h]:
            return []
        inp = os.path.join(workdir, "jobs-%d.json" % h)
        outp = os.path.join(workdir, "res-%d.json" % h)
        with open(inp, "w") as fh:
            json.dump({"hashseed": h, "items": chunks[h], "deadline": deadline}, fh)
        env = dict(os.environ)
        env["PYTHONHASHSEED"] = str(h)
        if repo_src:
            env["VERIF_REPO"] = os.path.dirname(repo_src)
        p = subprocess.run([sys.executable, "-m", "harness.check_dataflow", "--worker", inp, outp], cwd=ROOT, env=env,
                           capture_output=True, text=True, timeout=3000)
        if p.returncode != 0 or not os.path.exists(outp):
            return [{"error": "worker %d failed rc=%s: %s" % (h, p.returncode, (p.stdout + p.stderr)[-1500:])}]
        return json.load(open(outp))

    out: list[dict] = []
    with cf.ThreadPoolExecutor(max_workers=NPROC) as ex:
        for r in ex.map(launch, hashseeds):
            out.extend(r)
    return out


# ----------------------------------------------------------------------------------------------
# TLC
# ----------------------------------------------------------------------------------------------
def _cfg(init: str, next_: str, store_merged: bool = True, merge_order: str = "kahn", own_wins: bool = True,
         invariants=(), action_constraints=(), post: str = "Export") -> str:
    lines = ["CONSTANTS", "  StoreMerged = %s" % ("TRUE" if store_merged else "FALSE"),
             '  MergeOrder = "%s"' % merge_order, "  OwnWins = %s" % ("TRUE" if own_wins else "FALSE"),
             "INIT " + init, "NEXT " + next_]
    lines += ["INVARIANT " + i for i in invariants]
    lines += ["ACTION_CONSTRAINT " + a for a in action_constraints]
    lines += ["POSTCONDITION " + post, "CHECK_DEADLOCK FALSE"]
    return "\n".join(lines) + "\n"


THEOREMS = ("TypeOK", "ThmKahnIsTopological", "ThmEveryOrderAllowed", "ThmCodeOrdersAllowed", "ThmCandidatesExact",
            "ThmStepwise")


def _fix_view(v: Any) -> dict:
    return v if isinstance(v, dict) else {}      # the empty function is serialised as []


def canon(view: dict) -> str:
    return json.dumps({k: [view[k]["t"], list(view[k]["v"])] for k in sorted(view)})


class TlcOut:
    def __init__(self) -> None:
        self.doc: dict = {}
        self.res: tlc.TLCResult | None = None
        self.fail: str | None = None


def _tlc(root: str, cfg: str, cases: list[dict], tag: str, coverage: bool = False, timeout: int = 1500) -> TlcOut:
    o = TlcOut()
    rd = tlc.new_rundir(tag)
    try:
        cf_ = os.path.join(rd, "cases.json")
        of_ = os.path.join(rd, "out.json")
        with open(cf_, "w") as fh:
            json.dump(cases, fh)
        r = tlc.run_tlc(rd, root, cfg, workers=1, env={"DF_CASES": cf_, "DF_OUT": of_}, timeout=timeout,
                        extra=(["-coverage", "1"] if coverage else []))
        o.res = r
        if r.violated:
            o.fail = "%s: invariant %s violated (the specification contradicts itself):\n%s" % (root, r.violated, r.out[-2500:])
        elif r.errors or r.rc != 0 or not os.path.exists(of_):
            o.fail = "%s did not complete (rc=%s): %s\n%s" % (root, r.rc, "\n".join(r.errors[:3]), r.out[-2500:])
        else:
            o.doc = json.load(open(of_))
        return o
    finally:
        shutil.rmtree(rd, ignore_errors=True)


def model_check(cases: list[dict], store_merged: bool, invariants=THEOREMS, merge_order: str = "kahn",
                own_wins: bool = True, batch: int = 12, par: int = 8, coverage_first: bool = False) -> dict:
    """-> {obs: {(ci, stage, n): set(canon view)}, failed: [..], states, generated, fail, coverage}"""
    idx = list(range(len(cases)))
    groups = [idx[i:i + batch] for i in range(0, len(idx), batch)]
    cfg = _cfg("MCInit", "MCNext", store_merged, merge_order, own_wins, invariants, ["Observe"])
    out = {"obs": {}, "failed": [], "states": 0, "generated": 0, "fail": None, "coverage": {}, "wall": 0.0}

    def one(gi_g):
        gi, g = gi_g
        return g, _tlc("MC_DataFlow", cfg, [{"prog": cases[i]} for i in g], "dfmc", coverage=(coverage_first and gi == 0))

    with cf.ThreadPoolExecutor(max_workers=par) as ex:
        for g, o in ex.map(one, list(enumerate(groups))):
            if o.res is not None:
                out["states"] += o.res.distinct
                out["generated"] += o.res.generated
                out["wall"] += o.res.wall
                for k, v in o.res.coverage().items():
                    out["coverage"][k] = out["coverage"].get(k, 0) + v
            if o.fail:
                out["fail"] = out["fail"] or o.fail
                continue
            for ob in o.doc["obs"]:
                out["obs"].setdefault((g[ob["c"] - 1], ob["s"], ob["n"]), set()).add(canon(_fix_view(ob["view"])))
            for f in o.doc["failed"]:
                out["failed"].append({"ci": g[f["c"] - 1], "s": f["s"], "n": f["n"], "f": f["f"], "k": f["k"],
                                      "stale": f["stale"]})
    return out


def validate_runs(cases: list[dict], runs: list[list[dict]], batch_events: int = 2500, par: int = 8,
                  store_merged: bool = True) -> dict:
    """runs[ci] = list of run dicts (events with projected views).  -> {failed: [...], done: set, states, fail}"""
    groups: list[list[tuple[int, list[int]]]] = []
    cur: list[tuple[int, list[int]]] = []
    size = 0
    for ci in range(len(cases)):
        ridx = [i for i, r in enumerate(runs[ci]) if r["events"]]
        if not ridx:
            continue
        cur.append((ci, ridx))
        size += sum(len(runs[ci][i]["events"]) for i in ridx)
        if size >= batch_events:
            groups.append(cur)
            cur, size = [], 0
    if cur:
        groups.append(cur)
    cfg = _cfg("TInit", "TNext", store_merged)
    out = {"failed": [], "done": set(), "states": 0, "generated": 0, "fail": None, "wall": 0.0, "batches": len(groups)}

    def one(g):
        doc = [{"prog": cases[ci], "runs": [{"events": runs[ci][i]["events"]} for i in ridx]} for ci, ridx in g]
        return g, _tlc("Trace_DataFlow", cfg, doc, "dftr")

    with cf.ThreadPoolExecutor(max_workers=par) as ex:
        for g, o in ex.map(one, groups):
            if o.res is not None:
                out["states"] += o.res.distinct
                out["generated"] += o.res.generated
                out["wall"] += o.res.wall
            if o.fail:
                out["fail"] = out["fail"] or o.fail
                continue
            for c, r in o.doc["done"]:
                ci, ridx = g[c - 1]
                out["done"].add((ci, ridx[r - 1]))
            for f in o.doc["failed"]:
                ci, ridx = g[f["c"] - 1]
                out["failed"].append({"ci": ci, "ri": ridx[f["r"] - 1], "l": f["l"], "s": f["s"], "n": f["n"],
                                      "f": f["f"], "k": f["k"], "stale": f["stale"]})
    return out


def project_run(r: dict) -> dict:
    return {"events": [{"stage": e["stage"], "task": e["task"], "n": e["n"], "jumps": e["jumps"],
                        "view": {k: to_val(v) for k, v in e["view"].items()}} for e in r["events"]],
            "job": r["job"], "wf": r.get("wf"), "drain": r.get("drain")}


# ----------------------------------------------------------------------------------------------
# reducers component (separate process: it drives the engine in-process)
# ----------------------------------------------------------------------------------------------
def _reducers_job(tier: str, seed: int) -> dict:
    try:
        from . import comp_reducers
    except ImportError:
        return {"absent": True}
    try:
        return json.loads(json.dumps(comp_reducers.run_component(tier, seed), default=str))
    except Exception as e:  # noqa: BLE001
        import traceback

        return {"ok": False, "machinery": "comp_reducers crashed: %s: %s\n%s" % (type(e).__name__, e, traceback.format_exc()[-1500:]),
                "violations": [], "states": 0, "transitions": 0, "cases_replayed": 0, "samples": []}


# ----------------------------------------------------------------------------------------------
# the check
# ----------------------------------------------------------------------------------------------
TIERS = {
    "quick": {"n_free": 60, "n_loop": 36, "scheds": 7, "hashseeds": 16, "mc_batch": 40, "exhaustive": 2,
              "trace_batch": 2500, "engine_budget_s": 55},
    "thorough": {"n_free": 400, "n_loop": 250, "scheds": 24, "hashseeds": 64, "mc_batch": 60, "exhaustive": 4,
                 "trace_batch": 8000, "engine_budget_s": 720},
}


def run(pid: str, tier: str, seed: int, corrupt: bool = False, repo_src: str | None = None,
        with_reducers: bool = True, sizes: dict | None = None) -> int:
    t0 = time.time()
    rep = evidence.Reporter(pid)
    if os.environ.get("VERIF_C16_PROPOSED"):      # development aid: also honour docs/findings_C16.json (not yet merged)
        have = {f["id"] for f in rep.findings}
        with open(os.path.join(ROOT, "docs", "findings_C16.json")) as fh:
            rep.findings += [f for f in json.load(fh) if f["id"] not in have and f["property"] == pid]
    cfgt = dict(TIERS["thorough" if tier == "thorough" else "quick"])
    cfgt.update(sizes or {})
    progs = gen_programs(seed, cfgt["n_free"], cfgt["n_loop"], cfgt.get("exhaustive", 0))
    cases = [tla_case(p) for p in progs]
    if repo_src:        # a mutated scratch copy of the engine: the spawned reducer process must import it too
        os.environ["VERIF_REPO"] = os.path.dirname(repo_src)
    import multiprocessing as mp

    pool = cf.ProcessPoolExecutor(max_workers=1, mp_context=mp.get_context("spawn")) if with_reducers else None
    red_future = pool.submit(_reducers_job, tier, seed) if pool else None
    work = core.scratch_dir("df-work")
    cov: dict[str, Any] = {"exhaustive": False}
    nviol_total = 0
    try:
        # -- engine runs ---------------------------------------------------------------------------
        rng = random.Random(seed * 7907 + 3)
        items = [(p, {"kind": "fifo"}) for p in progs]
        rng.shuffle(items)                 # in-order runs of every program first, then the schedules in random order
        scheds = []
        for p in progs:
            for j in range(1 if str(p.get("shape", "")).startswith("exh") else cfgt["scheds"]):
                scheds.append((p, {"kind": "sched", "seed": rng.randrange(1 << 30), "p_withhold": 0.0 if j % 3 else 0.15}))
        rng.shuffle(scheds)
        items += scheds
        deadline = t0 + cfgt["engine_budget_s"]
        hashseeds = [(seed * 131 + 17 * i) % 4294967295 for i in range(cfgt["hashseeds"])]
        te = time.time()
        # engine workers and the model checker run side by side
        with cf.ThreadPoolExecutor(max_workers=3) as tp:
            f_eng = tp.submit(run_engine_jobs, items, hashseeds, work, repo_src, deadline)
            f_mc = tp.submit(model_check, cases, True, THEOREMS, "kahn", True, cfgt["mc_batch"], 5, True)
            f_ideal = tp.submit(model_check, cases, False, ("TypeOK",), "kahn", True, cfgt["mc_batch"], 3, False)
            results = f_eng.result()
            mc = f_mc.result()
            ideal = f_ideal.result()
        t_engine = time.time() - te
        name_ix = {p["name"]: i for i, p in enumerate(progs)}
        runs: list[list[dict]] = [[] for _ in progs]
        cov["engine_src"] = sorted({r["src"] for r in results if "src" in r})
        skipped = 0
        for r in results:
            if "error" in r:
                rep.machinery_failure("engine run failed: " + r["error"])
                continue
            if r.get("skipped"):
                skipped += 1
                continue
            runs[name_ix[r["prog"]]].append(project_run(r))
        if corrupt:        # binding demonstration: one recorded value replaced by the value of a farther ancestor
            _corrupt(progs, runs)
        for m, nm in ((mc, "as-code"), (ideal, "ideal")):
            if m["fail"]:
                rep.machinery_failure("model checking (%s): %s" % (nm, m["fail"]))
        # -- trace validation ------------------------------------------------------------------------
        tt = time.time()
        tv = validate_runs(cases, runs, cfgt.get("trace_batch", 2500), par=max(2, NPROC // 2))
        variant = "as the code (StoreMerged = TRUE)"
        conf_model = mc          # the model variant the engine is compared with (predicted views / predicted failures)
        if not tv["fail"] and any(f["f"] == "C_View" for f in tv["failed"]):
            # the engine does not store merged ancestor values as own context any more (proposed fix applied?):
            # the runs must then conform to the other variant of the model, throughout
            tv2 = validate_runs(cases, runs, cfgt.get("trace_batch", 2500), par=max(2, NPROC // 2), store_merged=False)
            if not tv2["fail"] and not any(f["f"].startswith("C_") for f in tv2["failed"]):
                tv2["states"] += tv["states"]
                tv2["generated"] += tv["generated"]
                tv, conf_model = tv2, ideal
                variant = "own context kept apart (StoreMerged = FALSE)"
        t_trace = time.time() - tt
        cov["conformance_model"] = variant
        if tv["fail"]:
            rep.machinery_failure("trace validation: " + tv["fail"])
        nruns = sum(1 for rs in runs for r in rs if r["events"])
        if not tv["fail"] and len(tv["done"]) != nruns:
            rep.machinery_failure("trace validation consumed %d of %d runs" % (len(tv["done"]), nruns))
        # -- spec -> code: every recorded view must be one the model (run as the code) predicted --------
        predicted = conf_model["obs"]
        seen_pred: set = set()
        unpredicted = []
        nobs = 0
        for ci, rs in enumerate(runs):
            firsts = {s["ref"]: s["tasks"][0]["name"] for s in progs[ci]["stages"]}
            for ri, r in enumerate(rs):
                for li, e in enumerate(r["events"]):
                    nobs += 1
                    if firsts.get(e["stage"]) != e["task"]:
                        continue
                    key = (ci, e["stage"], e["n"])
                    cv = canon(e["view"])
                    if cv in predicted.get(key, ()):
                        seen_pred.add((key, cv))
                    else:
                        unpredicted.append((ci, ri, li + 1))
        # -- classification ----------------------------------------------------------------------------
        conf_at = {(f["ci"], f["ri"], f["l"]) for f in tv["failed"] if f["f"].startswith("C_")}
        byform: dict[str, int] = {}
        stale_hits = 0
        occurrences: dict[tuple, int] = {}
        for f in tv["failed"]:
            byform[f["f"]] = byform.get(f["f"], 0) + 1
            dk = (f["ci"], f["s"], f["n"], f["f"], f["k"], f["stale"], (f["ci"], f["ri"], f["l"]) in conf_at)
            occurrences[dk] = occurrences.get(dk, 0) + 1
        reported: set = set()
        for f in tv["failed"]:
            dk = (f["ci"], f["s"], f["n"], f["f"], f["k"], f["stale"], (f["ci"], f["ri"], f["l"]) in conf_at)
            if dk in reported:       # one report per distinct (program, stage, execution, formula, key)
                continue
            reported.add(dk)
            p = progs[f["ci"]]
            r = runs[f["ci"]][f["ri"]]
            ev = r["events"][f["l"] - 1]
            what = "%s: program %s (%s) run %s: stage %s execution #%d was handed %s under key %r; formula %s false%s" % (
                PID, p["name"], p.get("shape"), json.dumps(r["job"]), f["s"], f["n"],
                json.dumps(ev["view"].get(f["k"])) if f["k"] else json.dumps(ev["view"]), f["k"], f["f"],
                " (stale: value of an earlier loop iteration)" if f["stale"] else "") + " [same failure in %d runs]" % occurrences[dk]
            ctx = {"formula": f["f"], "program": p, "source": "trace", "stage": f["s"], "n": f["n"], "key": f["k"],
                   "stale": f["stale"], "conformance_failed": (f["ci"], f["ri"], f["l"]) in conf_at, "job": r["job"]}
            before = sum(rep.known_hits.values())
            rep.violation(what, ctx, {"kind": "trace", "program": p, "job": r["job"], "formula": f["f"], "stage": f["s"],
                                      "n": f["n"], "key": f["k"], "corrupt": bool(corrupt)})
            stale_hits += sum(rep.known_hits.values()) - before
        for (ci, ri, l_) in unpredicted[:50]:
            r = runs[ci][ri]
            ev = r["events"][l_ - 1]
            rep.violation("%s: program %s run %s: view of stage %s execution #%d is not among the views MC_DataFlow predicts: %s"
                          % (PID, progs[ci]["name"], json.dumps(r["job"]), ev["stage"], ev["n"], json.dumps(ev["view"])),
                          {"formula": "PredictedView", "program": progs[ci], "source": "trace", "stage": ev["stage"],
                           "n": ev["n"], "stale": False, "job": r["job"]},
                          {"kind": "trace", "program": progs[ci], "job": r["job"], "formula": "PredictedView",
                           "stage": ev["stage"], "n": ev["n"], "key": "", "corrupt": bool(corrupt)})
        # model-level failures: in the ideal model none may exist; in the as-code model they are the
        # predictions of the stale reads (reported through the traces that confirm them)
        for f in ideal["failed"][:20]:
            p = progs[f["ci"]]
            rep.violation("%s: MC_DataFlow (ideal planner) predicts %s false for stage %s execution #%d key %r of program %s"
                          % (PID, f["f"], f["s"], f["n"], f["k"], p["name"]),
                          {"formula": f["f"], "program": p, "source": "model-ideal", "stage": f["s"], "n": f["n"], "stale": False},
                          {"kind": "model", "program": p, "store_merged": False, "formula": f["f"]})
        mc_fail_keys = {(f["ci"], f["s"], f["n"], f["f"], f["k"]) for f in conf_model["failed"]}
        tr_fail_keys = {(f["ci"], f["s"], f["n"], f["f"], f["k"]) for f in tv["failed"] if not f["f"].startswith("C_")}
        first_task = {(ci, s["ref"]): s["tasks"][0]["name"] for ci, p in enumerate(progs) for s in p["stages"]}
        mc_nonstale = [f for f in mc["failed"] if not (f["stale"] and f["n"] >= 1)]
        for f in mc_nonstale[:20]:
            p = progs[f["ci"]]
            rep.violation("%s: MC_DataFlow (planner as the code) predicts %s false for stage %s execution #%d key %r of program %s"
                          % (PID, f["f"], f["s"], f["n"], f["k"], p["name"]),
                          {"formula": f["f"], "program": p, "source": "model", "stage": f["s"], "n": f["n"], "stale": f["stale"]},
                          {"kind": "model", "program": p, "store_merged": True, "formula": f["f"]})
        # -- reducers ----------------------------------------------------------------------------------
        red = None
        if red_future is not None:
            try:
                red = red_future.result(timeout=1500)
            except Exception as e:  # noqa: BLE001
                red = {"ok": False, "machinery": "comp_reducers process failed: %r" % (e,), "violations": [], "states": 0,
                       "transitions": 0, "cases_replayed": 0, "samples": []}
            if red.get("absent"):
                red = None
        if red is not None:
            if red.get("machinery"):
                rep.machinery_failure("reducers component: " + str(red["machinery"]))
            for v in red.get("violations", []):
                c = dict(v.get("ctx") or {})
                c.setdefault("formula", "C16_Reducers")
                c["source"] = "reducers"
                rep.violation(v["what"], c, v["replay"])
        # -- evidence ----------------------------------------------------------------------------------
        nloop = sum(1 for p in progs if is_loop(p))
        wf_status: dict[str, int] = {}
        for rs in runs:
            for r in rs:
                wf_status[str(r.get("wf"))] = wf_status.get(str(r.get("wf")), 0) + 1
        npred = sum(len(v) for v in predicted.values())
        multi = sum(1 for v in predicted.values() if len(v) > 1)
        states = mc["states"] + ideal["states"] + tv["states"] + (red["states"] if red else 0)
        gen = mc["generated"] + ideal["generated"] + tv["generated"]
        samples = _samples(progs, runs, tv)
        cov.update({
            "states": states,
            "transitions": gen + (red["transitions"] if red else 0),
            "traces_validated_against_impl": len(tv["done"]) + (red["cases_replayed"] if red else 0),
            "programs": len(progs), "loop_programs": nloop, "shapes": _count(p.get("shape") for p in progs),
            "engine_runs": nruns, "engine_runs_skipped_wall_budget": skipped, "schedules_per_program": cfgt["scheds"] + 1, "schedules_per_exhaustive_program": 2,
            "exhaustive_family": ("every DAG over <= %d stages x one key x per-stage {-, produces, own, both}: %d programs"
                                  % (cfgt.get("exhaustive", 0), sum(1 for p in progs if str(p.get("shape", "")).startswith("exh")))), "hash_seeds": len(hashseeds),
            "observations_checked": nobs, "workflow_final_status": wf_status,
            "trace_validation": {"runs_consumed": len(tv["done"]), "states": tv["states"], "batches": tv["batches"],
                                 "tlc_wall_s": round(tv["wall"], 1), "false_formulas": byform},
            "model_checking": {"as_code": {"states": mc["states"], "generated": mc["generated"], "tlc_wall_s": round(mc["wall"], 1),
                                           "theorems": list(THEOREMS), "predicted_views": npred,
                                           "observation_points": len(predicted), "points_with_several_views": multi,
                                           "predicted_failures": len(mc["failed"]),
                                           "predicted_failures_not_stale": len(mc_nonstale),
                                           "action_coverage_first_batch": mc["coverage"]},
                               "ideal": {"states": ideal["states"], "generated": ideal["generated"],
                                         "predicted_failures": len(ideal["failed"])}},
            "spec_to_code": {"predicted_views_observed_on_engine": len(seen_pred), "predicted_views": npred,
                             "engine_views_not_predicted": len(unpredicted),
                             "trace_failures_predicted_by_model": len(tr_fail_keys & mc_fail_keys),
                             "trace_failures_not_predicted": len(tr_fail_keys - mc_fail_keys),
                             "model_failures_confirmed_on_engine": len(mc_fail_keys & tr_fail_keys),
                             "model_failures_not_observed": len(mc_fail_keys - tr_fail_keys)},
            "known_finding_hits": dict(rep.known_hits),
            "reducers_component": ({k: red.get(k) for k in ("ok", "states", "transitions", "cases_replayed")}
                                   | {"violations": len(red.get("violations", [])), "details": red.get("details")}
                                   if red else "not available"),
            "samples": samples + ((red.get("samples") or [])[:3] if red else []),
            "engine_and_mc_wall_s": round(t_engine, 1), "trace_validation_wall_s": round(t_trace, 1),
        })
        del first_task
        nviol_total = len(rep.violations)
        print("%s %s: %d programs (%d with a jump loop), %d engine runs, %d observations, TLC states %d, "
              "%d predicted views (%d seen on the engine), false formulas %s, wall %.1fs"
              % (pid, tier, len(progs), nloop, nruns, nobs, states, npred, len(seen_pred), json.dumps(byform), time.time() - t0))
    finally:
        shutil.rmtree(work, ignore_errors=True)
        if pool:
            pool.shutdown(wait=False, cancel_futures=True)
    rc = rep.finish()
    if states_ok(cov):
        evidence.write_evidence(pid, tier, seed, "model_checking", cov, time.time() - t0, violations=nviol_total,
                                assumptions=["every stage succeeds; AND joins; one backward jump loop per program with a closed body",
                                             "schedules: in-order and random delivery order, acks withheld with p=0.15 in a third of them; no crashes",
                                             "set-iteration order varied through PYTHONHASHSEED of the worker processes"])
    return rc


def states_ok(cov: dict) -> bool:
    return bool(cov.get("states", 0) >= 1 and cov.get("transitions", 0) >= 1)


def _count(it) -> dict:
    d: dict[str, int] = {}
    for x in it:
        d[str(x)] = d.get(str(x), 0) + 1
    return d


def _samples(progs, runs, tv) -> list:
    out = []
    for ci in (0, 1, min(5, len(progs) - 1)):
        if runs[ci]:
            r = runs[ci][0]
            out.append({"program": {"name": progs[ci]["name"], "req": {s["ref"]: s["req"] for s in progs[ci]["stages"]},
                                    "produces": {t["name"]: sorted(t.get("df") or {}) for s in progs[ci]["stages"] for t in s["tasks"]},
                                    "own": {s["ref"]: s.get("ctx") for s in progs[ci]["stages"] if s.get("ctx")}},
                        "job": r["job"],
                        "executions": [{"task": e["task"], "n": e["n"], "view": {k: (v["v"][0] if v["t"] == "s" else v["v"])
                                                                               for k, v in e["view"].items()}}
                                       for e in r["events"][:8]],
                        "false_formulas": [[f["s"], f["n"], f["f"], f["k"]] for f in tv["failed"]
                                           if f["ci"] == ci and f["ri"] == 0][:6]})
    return out


def _corrupt(progs, runs) -> None:
    """Replace, in one recorded FIFO run of the diamond, the value d saw under the path-ordered key y
    (written by a and by c.2: c wins) by a's value."""
    for ci, p in enumerate(progs):
        if p["name"] == "fdiamond":
            for r in runs[ci]:
                for e in r["events"]:
                    if e["stage"] == "d":
                        e["view"]["y"] = {"t": "s", "v": ["a.y.0"]}
                        return


# ----------------------------------------------------------------------------------------------
# replay
# ----------------------------------------------------------------------------------------------
def replay(pid: str, path: str) -> int:
    doc = json.load(open(path))
    if doc.get("component") == "reducers":
        from . import comp_reducers

        r = comp_reducers.replay(doc)
        print("replay (reducers):", json.dumps(r, default=str)[:1500])
        if r.get("machinery"):
            return 2
        if not r.get("ok"):
            print(f"VIOLATION property={pid} replay={path}")
            return 1
        return 0
    prog = doc["program"]
    case = tla_case(prog)
    if doc["kind"] == "model":
        m = model_check([case], doc["store_merged"], THEOREMS if doc["store_merged"] else ("TypeOK",), batch=1, par=1)
        if m["fail"]:
            print("MACHINERY-FAILURE:", m["fail"][-2000:])
            return 2
        bad = [f for f in m["failed"] if f["f"] == doc["formula"] and not (doc["store_merged"] and f["stale"] and f["n"] >= 1)]
        print("model replay: %d states, failures %s" % (m["states"], json.dumps(m["failed"])[:800]))
        if bad:
            print(f"VIOLATION property={pid} replay={path}")
            return 1
        return 0
    work = core.scratch_dir("df-replay")
    try:
        job = dict(doc["job"])
        h = int(job.pop("hashseed", 0))
        res = run_engine_jobs([(prog, job)], [h], work)
    finally:
        shutil.rmtree(work, ignore_errors=True)
    if not res or "error" in res[0]:
        print("MACHINERY-FAILURE:", (res[0]["error"] if res else "no result")[-2000:])
        return 2
    runs = [[project_run(res[0])]]
    if doc.get("corrupt"):
        _corrupt([prog], runs)
    tv = validate_runs([case], runs, par=1)
    if tv["fail"]:
        print("MACHINERY-FAILURE:", tv["fail"][-2000:])
        return 2
    for e in runs[0][0]["events"]:
        print("  exec %-5s #%d jumps=%d view=%s" % (e["task"], e["n"], e["jumps"],
                                                  json.dumps({k: (v["v"][0] if v["t"] == "s" else v["v"]) for k, v in e["view"].items()})))
    print("false formulas:", json.dumps([[f["s"], f["n"], f["f"], f["k"], "stale" if f["stale"] else ""] for f in tv["failed"]]))
    if doc["formula"] == "PredictedView":
        m = model_check([case], True, THEOREMS, batch=1, par=1)
        bad = m["fail"] is None and any(
            canon(e["view"]) not in m["obs"].get((0, e["stage"], e["n"]), ()) for e in runs[0][0]["events"]
            if e["task"] == next(s["tasks"][0]["name"] for s in prog["stages"] if s["ref"] == e["stage"]))
    else:
        bad = any(f["f"] == doc["formula"] and f["s"] == doc["stage"] and f["k"] == doc["key"] for f in tv["failed"])
    if bad:
        print(f"VIOLATION property={pid} replay={path}")
        return 1
    print("not reproduced")
    return 0


def selftest(seed: int = 1) -> dict:
    """Mutants of the MODEL: the theorems must fail when the planner of DataFlow.tla merges descendants
    first or lets ancestors override the own context (shows the invariants are not vacuous)."""
    cases = [tla_case(p) for p in gen_programs(seed, 12, 6)]
    res = {}
    for name, mo, ow in (("baseline", "kahn", True), ("merge order reversed", "reversed", True), ("own context not winning", "kahn", False)):
        m = model_check(cases, False, THEOREMS, merge_order=mo, own_wins=ow, batch=40, par=1)
        res[name] = {"states": m["states"], "theorem_violated": (m["fail"] or "")[:120].replace("\n", " ")}
    return res


if __name__ == "__main__":
    if len(sys.argv) >= 4 and sys.argv[1] == "--worker":
        sys.exit(worker_main(sys.argv[2], sys.argv[3]))
    import argparse

    ap = argparse.ArgumentParser()
    ap.add_argument("--tier", default="quick")
    ap.add_argument("--corrupt", action="store_true", help="binding demonstration: falsify one recorded value")
    ap.add_argument("--repo-src", default=None, help="<copy>/src of a mutated scratch copy of the engine")
    ap.add_argument("--no-reducers", action="store_true")
    ap.add_argument("--replay", default=None)
    ap.add_argument("--selftest", action="store_true", help="model mutants must break the theorems")
    a = ap.parse_args()
    if a.selftest:
        print(json.dumps(selftest(), indent=1))
        sys.exit(0)
    if a.replay:
        sys.exit(replay(PID, a.replay))
    sys.exit(run(PID, a.tier, int(os.environ.get("VERIF_SEED", "1")), corrupt=a.corrupt, repo_src=a.repo_src,
                 with_reducers=not a.no_reducers))
