"""The Engine-based property checks.  Each check =
  (a) TLC model checking of Engine + the property formulas on small constants,
  (b) enumerating / sampling drivers on the REAL engine, every recorded execution validated by TLC
      against Engine (Trace_Engine) with the same formulas evaluated in every state.
Verdicts are TLC's; Python drives, records, projects and matches known findings."""
from __future__ import annotations

import json
import random
import time

from . import engine_check as ec
from . import programs as PR
from . import replay
from .evidence import Reporter, write_evidence
from .tracecheck import state_at

SYN = [p["name"] for p in PR.synthetic_family()]
CORE = [p["name"] for p in PR.core_family()]
EXTRA = [p["name"] for p in PR.extra_family()]


def chunks(xs, n):
    xs = list(xs)
    return [xs[i:i + n] for i in range(0, len(xs), n)]


# ----- program families per property ---------------------------------------------------------------
def transient_family() -> list[dict]:
    fam = []
    for k in (0, 1, 3, 8, 9, 10, 12):
        fam.append(PR.P(f"tr{k}", [PR.S("a", tasks=[PR.T("a.1", "transient", k)]), PR.S("b", ["a"])]))
    fam.append(PR.P("trnc3", [PR.S("a", tasks=[PR.T("a.1", "transientNoCtx", 3)]), PR.S("b", ["a"])]))
    # a stage verifier answering RETRY (TransientVerificationError) k times: same path as a transient error without progress
    # a RetryableTask (total timeout 20 s, counted from ITS start) behind a task that takes 21 s of wall-clock time
    fam.append(PR.P("retryable2", [PR.S("a", tasks=[PR.T("a.1", "sleep", 21), PR.T("a.2", "pollR", 1)]), PR.S("b", ["a"])]))
    fam.append(PR.P("vfy1", [PR.S("a", tasks=[PR.T("a.1", "verify", 1)]), PR.S("b", ["a"])]))
    fam.append(PR.P("vfy3", [PR.S("a"), PR.S("b", ["a"], tasks=[PR.T("b.1", "verify", 3)]), PR.S("c", ["b"])]))
    fam.append(PR.P("trnc12", [PR.S("a", tasks=[PR.T("a.1", "transientNoCtx", 12)]), PR.S("b", ["a"])]))
    fam.append(PR.P("trmid", [PR.S("a", tasks=[PR.T("a.1"), PR.T("a.2", "transient", 2), PR.T("a.3")])]))
    fam.append(PR.P("trlast", [PR.S("a", tasks=[PR.T("a.1"), PR.T("a.2", "transient", 11)], cof=True),
                               PR.S("b", ["a"])]))
    fam.append(PR.P("poll4", [PR.S("a", tasks=[PR.T("a.1", "poll", 4)]), PR.S("b", ["a"])]))
    fam.append(PR.P("pollfirst", [PR.S("a", tasks=[PR.T("a.1", "poll", 2), PR.T("a.2")])]))
    return fam


def loop_family() -> list[dict]:
    S, T, P = PR.S, PR.T, PR.P
    fam = []
    for mj in (0, 1, 3):
        for n in sorted({0, 1, mj, mj + 1, mj + 2}):
            fam.append(P(f"self_m{mj}_n{n}", [S("a", tasks=[T("a.1", "jump", n, "a")]), S("b", ["a"])], max_jumps=mj))
    for n in (0, 1, 2, 4):
        fam.append(P(f"cyc2_n{n}", [S("a"), S("b", ["a"], tasks=[T("b.1", "jump", n, "a")]), S("c", ["b"])],
                     max_jumps=2))
    fam.append(P("cyc3", [S("a"), S("b", ["a"]), S("c", ["b"], tasks=[T("c.1", "jump", 2, "a")]), S("d", ["c"])]))
    fam.append(P("cyc4mid", [S("a"), S("b", ["a"]), S("c", ["b"]), S("d", ["c"], tasks=[T("d.1", "jump", 1, "b")]),
                             S("e", ["d"])]))
    # loop with a side branch and a fan-in: x is outside the loop, j joins the loop exit and x
    fam.append(P("loopfanin", [S("a"), S("x", ["a"]), S("b", ["a"]), S("c", ["b"], tasks=[T("c.1", "jump", 2, "b")]),
                               S("j", ["c", "x"])]))
    # forward jump over a diamond: a jumps to e, bypassing b, c, d
    fam.append(P("fwd", [S("a", tasks=[T("a.1", "jump", 1, "e")]), S("b", ["a"]), S("c", ["a"]), S("d", ["b", "c"]),
                         S("e", ["d"])]))
    # two different jump targets: e jumps to the fan-in t first, then to the common ancestor r
    fam.append(P("twotargets", [S("r"), S("a", ["r"]), S("b0", ["r"]), S("b", ["b0"], tasks=[T("b.1", "poll", 1)]),
                                S("t", ["a", "b"]), S("e", ["t"], tasks=[T("e.1", "jump2", 2, "t,r")])]))
    # forward jump landing next to a join that has another prerequisite on the bypassed side ("router", "chord")
    fam.append(P("fwdrouter", [S("a", tasks=[T("a.1", "jump", 1, "b")]), S("b", ["a"]), S("c", ["a"]), S("d", ["b", "c"])]))
    fam.append(P("fwdchord", [S("a", tasks=[T("a.1", "jump", 1, "d")]), S("b", ["a"]), S("d", ["b"]), S("c", ["a"]),
                              S("e", ["d", "c"])]))
    fam.append(P("fwdside", [S("a", tasks=[T("a.1", "jump", 1, "d")]), S("b", ["a"]), S("c", ["b"]), S("d", ["c"]),
                             S("y", ["a"])]))
    # the store order of the stages is NOT a dependency order (Workflow.create accepts any listing)
    fam.append(P("cyc4rev", [S("d", ["c"], tasks=[T("d.1", "jump", 1, "a")]), S("c", ["b"]), S("b", ["a"]), S("a")]))
    fam.append(P("cyc4mix", [S("a"), S("c", ["b"]), S("b", ["a"]), S("d", ["c"], tasks=[T("d.1", "jump", 2, "a")]), S("e", ["d"])]))
    return fam


def join_family() -> list[dict]:
    S, T, P = PR.S, PR.T, PR.P
    fam = [PR.by_name(n) for n in ("diamond", "firstof", "quorum", "multimerge", "failbranch", "quorumfail",
                                   "firstoffail", "termchain", "disabled", "fanout", "expired", "wfexpired")]
    fam.append(P("firstofslow", [S("a"), S("b", ["a"], tasks=[T("b.1", "poll", 1)]), S("c", ["a"]),
                                 S("d", ["b", "c"], join="DISCRIMINATOR")]))
    fam.append(P("quorumall", [S("a"), S("b", ["a"]), S("c", ["a"]), S("d", ["b", "c"], join="N_OF_M", thr=2)]))
    # a quorum join one of whose branches is re-armed by a jump loop after it was counted (the join is outside the loop)
    fam.append(P("quorumloop", [S("t"), S("a", ["t"]), S("k", ["a"], tasks=[T("k.1", "jump", 1, "t")]),
                                S("b", tasks=[T("b.1", "suspend")]), S("c", tasks=[T("c.1", "poll", 6)]),
                                S("j", ["a", "b", "c"], join="N_OF_M", thr=2)]))      # b finishes when it is signalled
    fam.append(P("firstofallfail", [S("a"), S("b", ["a"], tasks=[T("b.1", "terminal")]),
                                    S("c", ["a"], tasks=[T("c.1", "terminal")]),
                                    S("d", ["b", "c"], join="DISCRIMINATOR")]))
    fam.append(P("quorumimpossible", [S("a"), S("b", ["a"], tasks=[T("b.1", "terminal")]),
                                      S("c", ["a"], tasks=[T("c.1", "terminal")]), S("e", ["a"]),
                                      S("d", ["b", "c", "e"], join="N_OF_M", thr=2)]))
    fam.append(P("mmfail", [S("a"), S("b", ["a"], tasks=[T("b.1", "terminal")]), S("c", ["a"]),
                            S("d", ["b", "c"], join="MULTI_MERGE")]))
    fam.append(P("deep", [S("a"), S("b", ["a"]), S("c", ["a"], tasks=[T("c.1", "terminal")], cof=True),
                          S("d", ["b", "c"]), S("e", ["d"]), S("f", ["d", "a"]), S("g", ["e", "f"])]))
    return fam


def random_dags(seed: int, n: int) -> list[dict]:
    """Random DAGs up to 7 stages, every join type, failing and succeeding branches."""
    rng = random.Random(seed)
    fam = []
    for i in range(n):
        k = rng.randint(3, 7)
        refs = [chr(ord("a") + j) for j in range(k)]
        stages = []
        for j, r in enumerate(refs):
            req = [u for u in refs[:j] if rng.random() < 0.45]
            join, thr = "AND", 0
            if len(req) >= 2 and rng.random() < 0.5:
                join = rng.choice(["DISCRIMINATOR", "N_OF_M", "MULTI_MERGE"])
                thr = rng.randint(1, len(req)) if join == "N_OF_M" else 0
            kind = rng.choices(["ok", "terminal", "poll", "transient"], [6, 2, 1, 1])[0]
            ntasks = rng.choice([1, 1, 2])
            tasks = [PR.T(f"{r}.{m + 1}", kind if m == 0 else "ok", 1 if kind in ("poll", "transient") else 0)
                     for m in range(ntasks)]
            stages.append(PR.S(r, req, tasks=tasks, join=join, thr=thr,
                               cof=(kind == "terminal" and rng.random() < 0.4)))
        fam.append(PR.P(f"rnd{seed}_{i}", stages))
    return fam


# ----- check plans -----------------------------------------------------------------------------------
def plan(pid: str, tier: str, seed: int) -> dict:
    quick = tier != "thorough"
    core = [PR.by_name(n) for n in CORE]
    extra = [PR.by_name(n) for n in EXTRA if n != "transientinf"]
    if pid == "C01":
        progs = core + [PR.by_name(n) for n in (("before1", "after1", "siblingfail") if quick else SYN)] + ([] if quick else extra) \
            + [p for p in PR.lazy_family() if not quick or p["name"] in ("lazychain", "lazyfail")] \
            + ([] if quick else PR.split_family()) + PR.mi_family()
        return dict(
            progs=progs, props=["C01_SameOutcome", "C01_ExecBound", "C01_NothingStranded", "C01_SameData", "C01_InstanceNotLost"],
            jobs=lambda refs: [
                {"kind": "crash", "prog": p, "points": pts, "sweeps": 1}
                for p in progs for pts in chunks(range(1, refs[p["name"]]["commits"] + 1), 24)
            ] + [   # the restart (and its recovery sweep) is faster than the 60 s lock of the interrupted message
                {"kind": "crash", "prog": p, "points": pts, "sweeps": 1, "late_expire": True}
                for p in progs for pts in chunks(range(1, refs[p["name"]]["commits"] + 1, 2 if quick else 1), 24)
            ] + [   # killed right after a task executed, before its result was recorded
                {"kind": "crash", "prog": p, "exec_points": list(range(1, refs[p["name"]]["execs"] + 1)), "sweeps": 1,
                 "late_expire": le}
                for p in progs for le in (False, True)
            ] + ([] if quick else [
                {"kind": "crash2", "prog": p, "pairs": pr}
                for p in core for pr in chunks(
                    [(k1, k2) for k1 in range(1, refs[p["name"]]["commits"] + 1, 3) for k2 in (0, 1, 2, 3, 5, 8, 13)], 30)
            ]),
            mc=[(n, {"MaxCrashes": 1, "AnyOrder": "FALSE"}, {}) for n in ("chain2", "diamond", "selfloop", "poll")]
               + [(n, {"MaxCrashes": 1, "AnyOrder": "TRUE"}, {}) for n in ("chain2", "termchain")]
               + [("lazychain", {"MaxCrashes": 1, "AnyOrder": "FALSE"}, {}), ("lazy1", {"MaxCrashes": 2, "AnyOrder": "TRUE"}, {}),
                  ("midyn", {"MaxCrashes": 1, "AnyOrder": "FALSE", "MaxAdds": 1}, {}),
                  # start-window expiry: a kill at any point of a workflow that must never start / a stage that is skipped
                  ("wfexpired", {"MaxCrashes": 1, "AnyOrder": "FALSE"}, {}), ("expired", {"MaxCrashes": 1, "AnyOrder": "FALSE"}, {})]
               + ([] if quick else [(n, {"MaxCrashes": 2, "AnyOrder": "FALSE", "MaxSweeps": 1}, {}) for n in
                                    ("chain2", "diamond", "failbranch", "firstof", "cycle2")]),
        )
    if pid == "C02":
        progs = core + extra + [PR.by_name(n) for n in SYN] + PR.split_family() + PR.lazy_family() + PR.halt_family() \
            + PR.milestone_family() + PR.mi_family()
        nseed = 24 if quick else 400
        return dict(
            progs=progs, props=["C02_SameOutcome", "C02_StartOnce", "C02_NoReexec", "C02_ExecExact", "C01_SameData"],
            jobs=lambda refs: [{"kind": "schedule", "prog": p, "seeds": s, "opts": {"p_withhold": 0.2}}
                               for p in progs for s in chunks(range(seed * 1000, seed * 1000 + nseed), 12)]
                              # one message type of one stage overtaken by everything else (a whole branch finishing, down to its
                              # CompleteWorkflow, before a sibling's StartStage arrives, a CompleteTask before its JumpToStage, ...)
                              + [{"kind": "inject", "prog": p, "what": "add:w", "at": at, "times": t}     # WCP-15: instances added at any step
                                 for p in progs if p["name"] == "midyn" for t in (1, 2)
                                 for at in chunks(range(1, refs[p["name"]]["steps"] + 2), 12)]
                              + straggler_jobs(progs, seed, ("StartStage", "CompleteStage", "CompleteWorkflow") if quick else
                                               ("StartStage", "StartTask", "RunTask", "CompleteTask", "CompleteStage", "JumpToStage",
                                                "SkipStage", "ContinueParentStage", "CompleteWorkflow")),
            mc=[(n, {"AnyOrder": "TRUE", "MaxWithhold": 1}, {}) for n in ("chain2", "diamond", "selfloop", "failbranch")]
               + [("chain2", {"AnyOrder": "TRUE", "MaxWithhold": 2}, {}), ("orsplit", {"AnyOrder": "TRUE"}, {}),
                  ("ornone", {"AnyOrder": "TRUE", "MaxWithhold": 1}, {})]
               + ([] if quick else [("orsplit", {"AnyOrder": "TRUE", "MaxWithhold": 1}, {}), ("orfail", {"AnyOrder": "TRUE", "MaxWithhold": 1}, {})])
               + ([] if quick else [(n, {"AnyOrder": "TRUE", "MaxWithhold": 2}, {"depth": 60}) for n in
                                    ("diamond", "cycle2", "firstof", "multitask", "poll", "transient", "fanout")]),
        )
    if pid == "C03":
        # jump programs: "the only exception is the explicit target of a jump" (the bypass flag must be consumed)
        progs = join_family() + [PR.by_name("selfloop"), PR.by_name("cycle2")] + \
                [p for p in loop_family() if p["name"] in ("loopfanin", "cyc3", "fwd", "twotargets")] + \
                PR.split_family() + PR.milestone_family() + random_dags(seed, 6 if quick else 100)
        nseed = 12 if quick else 50
        return dict(
            progs=progs, props=["C03_StartsOnlyWhenAllowed", "C03_ExecOnlyStarted", "C03_NoRunBelowHalt"],
            jobs=lambda refs: [{"kind": "schedule", "prog": p, "seeds": s, "opts": {"p_withhold": 0.15, "early": 3}}
                               for p in progs for s in chunks(range(seed * 1000, seed * 1000 + nseed), 12)]
                              # a branch that finishes exactly when told to (it waits for a signal): at every step of the run
                              + [{"kind": "schedule", "prog": p, "seeds": [seed * 1000 + at],
                                  "opts": {"p_withhold": 0.0, "fifo_after": 0, "signal_at": at}}
                                 for p in progs if p["name"] == "quorumloop" for at in range(1, 60)],
            mc=[(p, {"AnyOrder": "TRUE", "MaxEarly": 1}, {}) for p in
                ("diamond", "firstof", "quorumall", "multimerge", "failbranch", "firstofallfail", "mmfail")]
               + [("orsplit", {"AnyOrder": "FALSE", "MaxEarly": 2}, {}), ("milestone", {"AnyOrder": "TRUE", "MaxEarly": 1}, {}),
                  ("milestonelate", {"AnyOrder": "TRUE"}, {})]
               + ([] if quick else [("orfail", {"AnyOrder": "TRUE", "MaxEarly": 1}, {})])
               # (MaxEarly 2 + MaxWithhold 1 exceeds 30 M states on the quorum programs: one of the two there, both on the small ones)
               + ([] if quick else [(p, {"AnyOrder": "TRUE", "MaxEarly": 2, "MaxWithhold": 1}, {"depth": 70}) for p in ("diamond", "firstof")]
                  + [(p, {"AnyOrder": "TRUE", "MaxEarly": 2}, {"depth": 70}) for p in ("quorum", "quorumfail", "quorumimpossible", "deep")]
                  + [(p, {"AnyOrder": "TRUE", "MaxEarly": 1, "MaxWithhold": 1}, {"depth": 60}) for p in ("quorum", "quorumfail")]),
        )
    if pid == "C05":
        progs = [p for p in core + extra if p["name"] != "stopped"] + [PR.by_name(n) for n in SYN] + \
                [p for p in join_family() if p["name"] in ("firstofslow", "firstofallfail", "quorumimpossible", "mmfail", "deep")] + \
                PR.region_family() + PR.split_family() + PR.halt_family() + PR.milestone_family()
        # (failPipeline = false ends a workflow SUCCEEDED with the branch STOPPED by explicit design - DESIGN 6.2: outside C05)
        progs = [p for p in progs if all(s["failp"] for s in p["stages"])]
        nseed = 20 if quick else 300
        return dict(
            progs=progs, props=["C05_QuietMeansDone", "C05_SucceededIsHonest", "C05_FailureReported",
                                "C05_NoRunningInFinished"],
            jobs=lambda refs: [{"kind": "schedule", "prog": p, "seeds": s, "opts": {"p_withhold": 0.2}}
                               for p in progs for s in chunks(range(seed * 1000, seed * 1000 + nseed), 10)]
                              # cancel regions (WCP-25): a CancelRegion before every delivery step, in order and shuffled
                              + [{"kind": "inject", "prog": p, "what": "region:r", "at": at}
                                 for p in progs if p["name"].startswith("region")
                                 for at in chunks(range(1, refs[p["name"]]["steps"] + 2), 12)]
                              + [{"kind": "schedule", "prog": p, "seeds": [seed * 1000 + at * 7 + i],
                                  "opts": {"p_withhold": 0.1, "region_at": at}}
                                 for p in progs if p["name"].startswith("region")
                                 for at in range(1, refs[p["name"]]["steps"] + 2, 2 if quick else 1)
                                 for i in range(1 if quick else 4)],
            mc=[(n, {"AnyOrder": "TRUE", "MaxWithhold": 1}, {}) for n in
                (("failbranch", "termchain", "cof", "selfloop") if quick else
                 ("failbranch", "firstoffail", "termchain", "cof", "selfloop", "mmfail"))]
               + [("regionlast", {"AnyOrder": "TRUE", "MaxRegions": 1}, {}), ("regionjoin", {"AnyOrder": "FALSE", "MaxRegions": 1}, {})]
               + ([] if quick else [("regionjoin", {"AnyOrder": "TRUE", "MaxRegions": 1}, {}),
                                    ("regionlast", {"AnyOrder": "TRUE", "MaxRegions": 2, "MaxWithhold": 1}, {})])
               + [(n, {"AnyOrder": "TRUE"}, {}) for n in ("firstoffail", "mmfail", "quorumfail")]
               + ([] if quick else [(n, {"AnyOrder": "TRUE", "MaxWithhold": 2}, {"depth": 70}) for n in
                                    ("quorumfail", "firstof", "quorumimpossible", "cycle2")]),
            # concurrency slots ("... or explicitly waiting for a concurrency slot"): spec/Slots.tla, one worker model-checked
            # incl. liveness, two workers: every interleaving of the racing handlers executed on real threads and compared
            # with the specification's reachable / terminal status assignments
            component=lambda rep: slots_component(rep, tier, seed),
        )
    if pid == "C06":
        progs = core + extra + [PR.by_name(n) for n in ("before2", "beforeafter", "afterfail", "siblingfail",
                                                        "pausepar", "pausechain", "restartjump", "restartplain", "susp")] + PR.region_family()
        nseed = 10 if quick else 100
        return dict(
            progs=progs, props=["C06_Legal", "C06_CompletedIsFinal"],
            jobs=lambda refs: [{"kind": "schedule", "prog": p, "seeds": s, "opts": {"p_withhold": 0.2, "early": 2}}
                               for p in progs for s in chunks(range(seed * 1000, seed * 1000 + nseed), 10)]
                              + [{"kind": "crash", "prog": p, "points": pts}
                                 for p in progs
                                 for pts in chunks(range(1, refs[p["name"]]["commits"] + 1, 3 if quick else 1), 24)]
                              + [{"kind": "inject", "prog": p, "what": "cancel", "at": at}
                                 for p in core for at in chunks(range(1, refs[p["name"]]["steps"] + 1, 2), 12)]
                              + [{"kind": "inject", "prog": p, "what": "region:r", "at": at}
                                 for p in progs if p["name"].startswith("region")
                                 for at in chunks(range(1, refs[p["name"]]["steps"] + 2), 12)]
                              + [   # operator actions: pause before every step then unpause (resumes delivered in any order),
                                    # restart of a finished stage (the only legal resurrection besides a jump)
                                 {"kind": "operator", "prog": p, "seeds": [seed * 1000 + at * 3 + v],
                                  "opts": {"pause_at": at, "unpause_after": ua, "shuffle": sh}}
                                 for p in progs if p["name"] in ("pausepar", "pausechain", "diamond", "failbranch")
                                 for at in range(2, refs[p["name"]]["steps"] + 1, 1 if not quick else 2)
                                 for v, (ua, sh) in enumerate([(1, False), (4, True), (9, True)])]
                              + [{"kind": "operator", "prog": p, "seeds": [seed * 1000 + at],     # a straggling ResumeStage
                                  "opts": {"pause_at": at, "unpause_after": 99, "shuffle": False, "hold": h}}
                                 for p in progs if p["name"] in ("pausepar", "diamond", "failbranch")
                                 for at in range(2, refs[p["name"]]["steps"] + 1) for h in [s["ref"] for s in p["stages"]][:3]]
                              + [   # an operator restart of a stage at ANY step: running, suspended (then signalled), paused, not started
                                 {"kind": "operator", "prog": p, "seeds": [seed * 1000 + at],
                                  "opts": {"restart": rs, "restart_at": at, "shuffle": False, "signal_after": True, "pause_at": pa}}
                                 for p in progs if p["name"] in ("susp", "pausechain", "chain2")
                                 for rs in [s["ref"] for s in p["stages"]][:2]
                                 for pa in ((-1, 4) if p["name"] == "pausechain" else (-1,))
                                 for at in range(2, refs[p["name"]]["steps"] + 3, 2 if quick else 1)]
                              + [{"kind": "operator", "prog": p, "seeds": [seed * 1000 + i], "opts": {"restart": rs, "shuffle": i > 0}}
                                 for p in progs if p["name"] in ("restartjump", "restartplain", "diamond", "termchain")
                                 for rs in ("a", "b") for i in range(3)],
            mc=[("diamond", {"AnyOrder": "TRUE", "MaxEarly": 1}, {}), ("selfloop", {"AnyOrder": "TRUE", "MaxWithhold": 1}, {}),
                ("failbranch", {"AnyOrder": "TRUE"}, {}), ("chain2", {"AnyOrder": "FALSE", "MaxCrashes": 1, "MaxCancels": 1}, {}),
                ("cycle2", {"AnyOrder": "FALSE", "MaxCrashes": 1}, {}),
                ("pausepar", {"AnyOrder": "FALSE", "MaxPauses": 1}, {}), ("pausechain", {"AnyOrder": "TRUE", "MaxPauses": 1}, {}),
                ("restartjump", {"AnyOrder": "TRUE", "MaxRestarts": 1}, {}),
                ("chain2", {"AnyOrder": "TRUE", "MaxRestarts": 1, "MaxPauses": 1}, {"depth": 60})]
               + ([] if quick else [("diamond", {"AnyOrder": "TRUE", "MaxWithhold": 1, "MaxEarly": 1}, {}),
                                    ("pausepar", {"AnyOrder": "TRUE", "MaxPauses": 1}, {}),
                                    ("restartplain", {"AnyOrder": "FALSE", "MaxRestarts": 2, "MaxCrashes": 1}, {}),
                                    ("failbranch", {"AnyOrder": "TRUE", "MaxWithhold": 1, "MaxCancels": 1}, {"depth": 60})]),
            # two workers on the unversioned workflow row (spec/WfRow.tla, scenario "complete"): every interleaving of the two real
            # handlers executed under the baton scheduler, row + pushed messages compared with the specification after every step
            component=lambda rep: wfrow_component(rep, tier, seed, "complete"),
        )
    if pid == "C09":
        progs = [PR.by_name(n) for n in (("chain2", "diamond", "poll", "selfloop", "failbranch") if quick else CORE)]
        return dict(
            progs=progs, props=["C09_NoRehandle", "C02_NoReexec", "C02_StartOnce"],
            component=lambda rep: dedup_component(rep, tier, seed),
            jobs=lambda refs: [
                {"kind": "redeliver", "prog": p, "cases": cs, "opts": o}
                for p in progs
                for o in ({}, {"restart": True}, {"reset_bloom": True}, {"trust": True}, {"trust": True, "restart": True},
                          {"trust": True, "reset_bloom": True}, {"fault": True}, {"fault": True, "restart": True})
                for cs in chunks([(v, a) for v in range(1, refs[p["name"]]["steps"] + 1)
                                  for a in ((0, 3) if quick else (0, 1, 2, 5, 9))], 16)],
            mc=[(n, {"AnyOrder": "TRUE", "MaxWithhold": 2, "MaxCrashes": 1}, {"depth": 45}) for n in ("chain2",)]
               + [(n, {"AnyOrder": "FALSE", "MaxWithhold": 2, "MaxCrashes": 1}, {}) for n in ("chain2", "diamond")],
        )
    if pid == "C10":
        progs = core + [PR.by_name(n) for n in ("before2", "beforechain", "after1", "lazychain")] + PR.halt_family() + ([] if quick else extra + PR.lazy_family()[2:])
        return dict(
            progs=progs, props=["C10_SweepHarmless", "C10_NoExtraExec", "C02_StartOnce", "C01_SameOutcome"],
            jobs=lambda refs: [{"kind": "inject", "prog": p, "what": "sweep", "at": at, "times": t}
                               for p in progs for t in (1, 2)
                               for at in chunks(range(1, refs[p["name"]]["steps"] + 2), 12)]
                              # a sweep CONCURRENT with the handlers: n1 deliveries between its read and its queue look-ups,
                              # n2 more before its push (nested into the real sweep at those statements)
                              + [{"kind": "inject", "prog": p, "what": f"sweepc:{n1}:{n2}", "at": at}
                                 for p in progs for (n1, n2) in (((1, 0), (0, 1), (3, 3)) if quick else
                                                                ((1, 0), (0, 1), (2, 1), (1, 2), (3, 3), (6, 0), (0, 6), (5, 5)))
                                 for at in chunks(range(1, refs[p["name"]]["steps"] + 2), 12)]
                              + [{"kind": "crash", "prog": p, "points": pts, "sweeps": 2}
                                 for p in progs
                                 for pts in chunks(range(1, refs[p["name"]]["commits"] + 1, 4 if quick else 1), 24)]
                              + ([] if quick else
                                 [{"kind": "schedule", "prog": p, "seeds": s,
                                   "opts": {"p_withhold": 0.15, "p_sweep": 0.15, "max_sweeps": 4}}
                                  for p in progs for s in chunks(range(seed * 1000, seed * 1000 + 100), 10)]),
            mc=[(n, {"AnyOrder": "TRUE", "MaxSweeps": 1}, {}) for n in ("chain2", "diamond", "selfloop", "firstof")]
               + [(n, {"AnyOrder": "FALSE", "MaxSweeps": 2, "EnvBetween": "TRUE"}, {}) for n in ("chain2", "diamond", "poll")]
               + [(n, {"AnyOrder": "FALSE", "MaxSweeps": 1, "SplitSweep": "TRUE"}, {}) for n in ("chain2", "diamond", "selfloop", "before2", "poll")]
               + [("chain2", {"AnyOrder": "TRUE", "MaxSweeps": 1, "SplitSweep": "TRUE"}, {})]
               + ([] if quick else [(n, {"AnyOrder": "TRUE", "MaxSweeps": 1, "SplitSweep": "TRUE"}, {}) for n in ("diamond", "multitask", "firstof")]
                  + [("chain2", {"AnyOrder": "FALSE", "MaxSweeps": 2, "SplitSweep": "TRUE", "EnvBetween": "TRUE"}, {})]),
        )
    if pid == "C14":
        progs = transient_family()
        nseed = 6 if quick else 60
        return dict(
            progs=progs, props=["C14_Bounded", "C14_ProgressKept", "C14_ProgressExact", "C05_QuietMeansDone"],
            jobs=lambda refs: [{"kind": "schedule", "prog": p, "seeds": s, "opts": {"p_withhold": 0.1}}
                               for p in progs for s in chunks(range(seed * 1000, seed * 1000 + nseed), 6)]
                              + ([] if quick else [{"kind": "crash", "prog": p, "points": pts}
                                                   for p in progs
                                                   for pts in chunks(range(1, refs[p["name"]]["commits"] + 1, 2), 24)]),
            extra_jobs=lambda refs: [   # the RunTask message itself is delivered 1..9 times without being handled (worker
                # killed right after the poll), then the task fails transiently: the budget counts those deliveries
                {"kind": "pollcrash", "prog": p, "cases": [k for k in (1, 5, 7, 8, 9)]}
                for p in progs if p["name"] in ("tr1", "tr3", "trnc3")],
            mc=[(n, {"AnyOrder": "TRUE", "MaxWithhold": 1}, {}) for n in ("tr1", "tr3", "trnc3", "poll4", "trmid")]
               + [(n, {"AnyOrder": "FALSE"}, {}) for n in ("tr8", "tr9", "tr12", "trnc12", "trlast")]
               # the intended design (retry row carries the attempt count) satisfies the bound
               + [(n, {"AnyOrder": "FALSE", "FixRetry": "TRUE"}, {"intended": True}) for n in ("tr9", "tr12", "trnc12")],
            ref_as_trace=True,
            # a second worker writes the stage row while the failing task body runs: spec/Progress.tla, every
            # interleaving replayed on real handler threads
            component=lambda rep: progress_component(rep, tier, seed),
        )
    if pid == "C15":
        progs = loop_family()
        nseed = 3 if quick else 60
        return dict(
            progs=progs, props=["C15_JumpBudget", "C15_RearmExact", "C15_OncePerIteration", "C05_QuietMeansDone",
                                "C02_SameOutcome", "C02_ExecExact"],
            jobs=lambda refs: [{"kind": "schedule", "prog": p, "seeds": s, "opts": {"p_withhold": 0.0, "fifo_after": 0}}
                               for p in progs for s in ([seed],)]
                              + [{"kind": "schedule", "prog": p, "seeds": s, "opts": {"p_withhold": 0.1}}
                                 for p in progs for s in chunks(range(seed * 1000, seed * 1000 + nseed), 6)],
            mc=[(n, {"AnyOrder": "TRUE"}, {}) for n in ("self_m1_n3", "self_m3_n3", "cyc2_n4", "cyc3", "loopfanin", "fwd")]
               + [(n, {"AnyOrder": "TRUE", "MaxWithhold": 1}, {"depth": 80}) for n in ("self_m1_n1", "cyc2_n1")],
            ref_as_trace=True,
        )
    if pid == "C17":
        progs = core + [PR.by_name(n) for n in ("before1", "beforeafter")] + ([] if quick else extra)
        return dict(
            progs=progs, props=["C17_NoStartAfterCancel", "C17_CancelCompletes", "C05_QuietMeansDone"],
            jobs=lambda refs: [{"kind": "inject", "prog": p, "what": "cancel", "at": at}
                               for p in progs for at in chunks(range(1, refs[p["name"]]["steps"] + 2), 12)]
                              + [{"kind": "schedule", "prog": p, "seeds": [seed * 1000 + c],
                                  "opts": {"p_withhold": 0.1, "cancel_at": c}}
                                 for p in progs for c in range(1, refs[p["name"]]["steps"] + 2, 1 if not quick else 2)]
                              # the fanned-out CancelStage of one stage (or the CompleteWorkflow) arrives last: everything that was
                              # already queued for that stage is handled under the cancel flag first
                              + straggler_jobs(progs, seed, ("CancelStage", "CompleteWorkflow") if quick else
                                               ("CancelStage", "CompleteWorkflow", "RunTask", "CompleteTask", "CompleteStage"),
                                               every=lambda p: [{"cancel_at": c} for c in range(2, refs[p["name"]]["steps"] + 1,
                                                                                              3 if quick else 1)])
                              # a kill inside / right after the CancelWorkflow handler (its flag commit and its fan-out transaction are
                              # two commits) and the CancelStage handlers that follow, then restart + recovery
                              + [{"kind": "cancel-crash", "prog": p, "late_expire": le,
                                  "cases": [(ca, rel) for ca in range(1, refs[p["name"]]["steps"] + 1, 3 if quick else 1)
                                            for rel in range(1, 7 if quick else 13)]}
                                 for p in progs[:6 if quick else len(progs)] for le in (False, True)],
            mc=[(n, {"AnyOrder": "TRUE", "MaxCancels": 1}, {}) for n in ("chain2", "multitask", "poll")]
               + [("chain2", {"AnyOrder": "FALSE", "MaxCancels": 1, "MaxCrashes": 1}, {})]
               + [(n, {"AnyOrder": "FALSE", "MaxCancels": 1}, {}) for n in ("diamond", "failbranch", "selfloop", "firstof")]
               + [("chain2", {"AnyOrder": "TRUE", "MaxCancels": 1, "MaxWithhold": 1}, {})]
               + ([] if quick else [(n, {"AnyOrder": "TRUE", "MaxCancels": 1}, {"depth": 70}) for n in ("diamond", "failbranch")]),
            # two workers on the unversioned workflow row (spec/WfRow.tla, scenario "start"): every interleaving of the two real
            # handlers executed under the baton scheduler, row + pushed messages compared with the specification after every step
            component=lambda rep: wfrow_component(rep, tier, seed, "start"),
        )
    if pid == "C18":
        progs = [PR.by_name(n) for n in ("susp", "suspmulti", "suspside", "susp2", "suspsame")]
        return dict(
            progs=progs, props=["C18_StaysSuspended", "C18_NeverLost", "C18_NotSittingOnSignal", "C18_ResumeOncePerSignal",
                                "C18_TransientNoEffect", "C18_SawSignalOnlyIfDelivered", "C18_ConsumedOnce", "C06_Legal"],
            jobs=lambda refs: [
                # the signal (persistent / transient, one or two of them) before every delivery step, in order and shuffled
                {"kind": "schedule", "prog": p, "seeds": [seed * 1000 + at * 8 + v],
                 "opts": {"p_withhold": 0.1 if shuf else 0.0, "signal_at": at, "signal_pers": pers, "signals": ns,
                          "fifo_after": -1 if shuf else 0}}
                for p in progs for at in range(1, refs[p["name"]]["steps"] + 8)
                for v, (pers, ns, shuf) in enumerate([(True, 1, False), (False, 1, False), (True, 2, True), (False, 1, True),
                                                      (True, 2, False), (True, 3, True)])
            ] + [   # every crash point of the suspend / resume steps, signal early / late
                {"kind": "signal-crash", "prog": p, "pers": True, "late_expire": le,
                 "cases": [(sa, c) for c in cs]}
                for p in progs for sa in ((2, 99) if quick else (1, 2, 5, 8, 99)) for le in (False, True)
                for cs in chunks(range(1, 70, 1 if not quick else 2), 18)
            ],
            mc=[("susp", {"AnyOrder": "TRUE", "MaxSignals": 1}, {}), ("suspmulti", {"AnyOrder": "TRUE", "MaxSignals": 1}, {}),
                ("susp", {"AnyOrder": "FALSE", "MaxSignals": 2, "EnvBetween": "TRUE"}, {}),
                ("susp", {"AnyOrder": "FALSE", "MaxSignals": 1, "MaxCrashes": 1, "EnvBetween": "TRUE"}, {})]
               + ([] if quick else [("suspside", {"AnyOrder": "TRUE", "MaxSignals": 2, "MaxWithhold": 1}, {"depth": 70})]),
            allow_ref_mismatch=True,
            # two workers: the signal handler vs. the task result that suspends (spec/SuspendRace.tla), every interleaving at
            # write-transaction grain replayed on real handler threads + statement-level PCT schedules
            component=lambda rep: suspend_component(rep, tier, seed),
        )
    if pid == "C11":
        progs = [PR.by_name(n) for n in ("mutex2", "mutex3", "mutexfail", "mutexsusp", "choice2", "choice3", "choicelazy", "mutexlazy")]
        nseed = 30 if quick else 400
        return dict(
            progs=progs, props=["C11_Mutex", "C11_ChoiceAtMostOne", "C11_ChoiceLosersCanceled", "C11_MutexWaiterRuns",
                                "C11_ClaimsOfLiveKept", "C05_QuietMeansDone"],
            jobs=lambda refs: [{"kind": "schedule", "prog": p, "seeds": s,
                                "opts": {"p_withhold": 0.15, "claim_sweep": True, "early": 2}}
                               for p in progs if p["name"] != "mutexsusp"    # (never goes quiet without its signal)
                               for s in chunks(range(seed * 1000, seed * 1000 + nseed), 10)]
                              + [   # suspended mutex holder: the signal arrives at every later point of the run
                                 {"kind": "schedule", "prog": PR.by_name("mutexsusp"), "seeds": [seed * 1000 + at * 2 + sh],
                                  "opts": {"p_withhold": 0.1 * sh, "signal_at": at, "signal_pers": True, "fifo_after": -1 if sh else 0,
                                           "max_steps": 150}}
                                 for at in range(1, 40, 1 if not quick else 2) for sh in (0, 1)]
                              + [{"kind": "crash", "prog": p, "points": pts, "late_expire": le}
                                 for p in progs if p["name"] != "mutexsusp" for le in (False, True)
                                 for pts in chunks(range(1, refs[p["name"]]["commits"] + 1), 24)],     # EVERY commit (the kill
            # between a stage's claim commit and its plan commit sends the redelivered StartStage through the claim again)
            component=lambda rep: __import__("harness.check_race", fromlist=["component"]).component(rep, tier, seed, "siblings"),
            mc=[(n, {"AnyOrder": "TRUE"}, {}) for n in ("mutex3", "choice3", "choice2", "mutexfail")]
               + [("mutex2", {"AnyOrder": "TRUE", "MaxEarly": 1}, {})]
               + [(n, {"AnyOrder": "FALSE", "MaxCrashes": 1}, {}) for n in ("mutex2", "mutex3", "choice2", "choice3", "choicelazy", "mutexlazy")]
               + ([] if quick else [(n, {"AnyOrder": "TRUE", "MaxWithhold": 1}, {}) for n in ("mutex3", "choice3")]
                                   + [("choice2", {"AnyOrder": "TRUE", "MaxEarly": 1}, {})]),
            allow_ref_mismatch=True,
        )
    raise KeyError(pid)


def adapt_component(rep: Reporter, res: dict) -> dict:
    """fold the result of a component module (comp_dedup / comp_reducers: run_component()) into a check"""
    if res.get("machinery"):
        rep.machinery_failure(str(res["machinery"]))
    for v in res.get("violations", []):
        ctx = dict(v.get("ctx") or {})
        ctx.setdefault("formula", "COMPONENT")
        ctx.setdefault("program", {"stages": []})
        ctx.setdefault("state", None)
        rep.violation(v["what"], ctx, v.get("replay") or {})
    return {"states": res.get("states", 0), "transitions": res.get("transitions", 0),
            "replayed": res.get("cases_replayed", 0), "configs": res.get("details"), "samples": res.get("samples", [])[:3]}


def wfrow_component(rep: Reporter, tier: str, seed: int, scenario: str) -> dict:
    from . import check_wfrow

    return check_wfrow.component(rep, tier, seed, (scenario,))


def slots_component(rep: Reporter, tier: str, seed: int) -> dict:
    from . import check_slots

    return check_slots.component(rep, tier, seed)


def suspend_component(rep: Reporter, tier: str, seed: int) -> dict:
    from . import check_progress

    return check_progress.component(rep, tier, seed, "suspend")


def progress_component(rep: Reporter, tier: str, seed: int) -> dict:
    from . import check_progress

    return check_progress.component(rep, tier, seed)


def dedup_component(rep: Reporter, tier: str, seed: int) -> dict:
    from . import comp_dedup   # registers its finding predicate at import

    return adapt_component(rep, comp_dedup.run_component(tier, seed))


def straggler_jobs(progs, seed, types, extra_opts=None, every=None):
    """Schedules in which every message of one (type, stage) is a straggler: delivered only when nothing else can move.
    One job per program x type x top-level stage (+ the workflow-level types), otherwise in order."""
    jobs = []
    for p in progs:
        stages = [s["ref"] for s in p["stages"]]
        for t in types:
            for s in ([""] if t in ("CompleteWorkflow", "CancelWorkflow") else stages):
                opts = {"p_withhold": 0.0, "fifo_after": 0, "hold": [t, s]}
                opts.update(extra_opts or {})
                for e in (every(p) if every else [None]):
                    o = dict(opts)
                    if e is not None:
                        o.update(e)
                    jobs.append({"kind": "schedule", "prog": p, "seeds": [seed * 1000 + len(jobs) % 997], "opts": o})
    return jobs


def binding_selftest(prog: dict, ref: dict, rep: Reporter) -> dict:
    """Demonstrates in every run that the specification is bound to what is recorded: the reference execution of the first
    program must be accepted, and each copy with ONE corruption must be rejected - a stage status changed in one commit,
    one commit dropped, the type of one queued message changed, one task execution attributed to another task, one
    message missing from one state.  Anything else is a machinery failure (the trace check would be vacuous)."""
    import copy

    from . import tracecheck

    base = ref["trace"]
    ev = base["events"]
    commits = [i for i, e in enumerate(ev) if e["e"] == "commit" and e.get("s")]
    execs = [i for i, e in enumerate(ev) if e["e"] == "exec"]
    cor = []

    def variant(name, fn):
        t = copy.deepcopy(base)
        try:
            fn(t["events"])
            cor.append((name, t))
        except (IndexError, KeyError, StopIteration):
            pass

    mid = commits[len(commits) // 2]

    def flip_status(es):
        s = es[mid]["s"]["st"]
        k = sorted(s)[0]
        s[k]["status"] = "SUCCEEDED" if s[k]["status"] != "SUCCEEDED" else "RUNNING"

    def drop_commit(es):
        i = next(i for i in commits[2:] if es[i].get("audit"))     # a commit that changes a status
        del es[i]

    def retype_message(es):
        i = next(i for i in commits if es[i]["s"]["q"])
        m = es[i]["s"]["q"][0]
        m["typ"] = "CompleteStage" if m["typ"] != "CompleteStage" else "StartStage"

    def wrong_task(es):
        names = [t["name"] for s in prog["stages"] for t in s["tasks"]]
        e = es[execs[0]]
        e["task"] = next(n for n in names if n != e["task"])

    def lose_message(es):
        i = next(i for i in commits if len(es[i]["s"]["q"]) >= 2)
        es[i]["s"]["q"].pop()

    variant("status flipped in one commit", flip_status)
    variant("one status-changing commit dropped", drop_commit)
    variant("type of one queued message changed", retype_message)
    variant("one execution attributed to another task", wrong_task)
    variant("one message missing from one state", lose_message)
    v = tracecheck.validate(prog, [base] + [t for _, t in cor], check_props=[], extra_program=PR.oracle_tla(ref["oracle"]))
    res = {"program": prog["name"], "base_accepted": False, "corruptions_rejected": {}}
    if v.machinery:
        rep.machinery_failure("binding self-test: " + v.machinery[-600:])
        return res
    rejected = {r["trace"] for r in v.rejected}
    res["base_accepted"] = 0 not in rejected
    res["corruptions_rejected"] = {name: (i + 1) in rejected for i, (name, _) in enumerate(cor)}
    if not res["base_accepted"] or not all(res["corruptions_rejected"].values()) or len(cor) < 3:
        rep.machinery_failure(f"binding self-test failed: {res}")
    return res


# ----- runner ----------------------------------------------------------------------------------------
def run(pid: str, tier: str, seed: int) -> int:
    t0 = time.time()
    pl = plan(pid, tier, seed)
    progs = pl["progs"]
    byname = {p["name"]: p for p in progs}
    rep = Reporter(pid)
    refs = ec.references(progs)
    # the oracle must be bound: on a race-free program the real in-order run equals the declarative ideal
    oracle_mismatch = []
    for p in ([] if pl.get("allow_ref_mismatch") else progs):
        if any(t["k"] == "suspend" for s in p["stages"] for t in s["tasks"]):
            continue        # (its in-order run without a signal is not a finished run: nothing to compare)
        o = refs[p["name"]]["oracle"]
        if o["Ref"]["wf"] != o["Ideal"]["wf"] or any(o["Ref"]["st"].get(s) != o["Ideal"]["st"].get(s)
                                                     for s in o["Ref"]["st"] if s not in o["Racy"]):
            oracle_mismatch.append((p["name"], o["Ref"], o["Ideal"]))
    jobs = pl["jobs"](refs) + (pl["extra_jobs"](refs) if pl.get("extra_jobs") else [])
    traces = ec.run_jobs(jobs)
    if pl.get("ref_as_trace"):
        for p in progs:
            traces.setdefault(p["name"], []).insert(0, refs[p["name"]]["trace"])
    t_gen = time.time() - t0
    selftest = binding_selftest(progs[0], refs[progs[0]["name"]], rep)
    verdicts = ec.validate_all(progs, traces, refs, pl["props"])
    t_val = time.time() - t0 - t_gen
    mc_tasks = []
    mcprogs = {p["name"]: p for p in progs}
    for (n, consts, kw) in pl["mc"]:
        if n not in mcprogs:
            try:
                mcprogs[n] = PR.by_name(n)
            except KeyError:
                for fam in (transient_family(), loop_family(), join_family()):
                    for p in fam:
                        mcprogs.setdefault(p["name"], p)
    missing = [mcprogs[n] for (n, _, _) in pl["mc"] if n not in refs]
    if missing:
        refs.update(ec.references(list({p["name"]: p for p in missing}.values())))
    for (n, consts, kw) in pl["mc"]:
        kw = dict(kw)
        props = pl["props"]
        if kw.pop("intended", False):   # model of the repaired design: only the formula the defect breaks
            props = [p for p in props if p in ("C14_Bounded",)]
        mc_tasks.append((mcprogs[n], refs[n], consts, props, kw))
    mcs = ec.model_check_all(mc_tasks, par=4)
    t_mc = time.time() - t0 - t_gen - t_val

    # ---- collect
    ntr = acc = events = 0
    samples = []
    for name, vl in verdicts.items():
        prog = byname[name]
        ts = traces[name]
        for v in vl:
            ntr += v.ntraces
            acc += v.accepted
            events += v.events
            if v.machinery:
                rep.machinery_failure(f"trace validation of {name}: {v.machinery}")
                continue
            for r in v.rejected:
                tr = ts[r["trace"]]
                ctx = {"formula": "CONFORMANCE", "state": state_at(tr, r["at"]), "program": prog, "source": "trace",
                       "trace": tr, "at": r["at"]}
                ev = {k: x for k, x in (r["event"] or {}).items() if k not in ("s", "audit", "view")}
                rep.violation(f"{name} {tr.get('meta')}: the real engine took a step no specification action explains "
                              f"at event {r['at']}/{r['len']}: {json.dumps(ev)[:200]}",
                              ctx, {"program": prog, "meta": tr.get("meta"), "kind": "conformance", "at": r["at"],
                                    "event": r["event"], "prev": r["prev"]})
            seen = set()
            for f in v.failed:
                key = (f["trace"], f["formula"])
                if key in seen:
                    continue
                seen.add(key)
                tr = ts[f["trace"]]
                ctx = {"formula": f["formula"], "state": state_at(tr, f["at"] + (1 if f["formula"] in ACTIONS else 0)),
                       "program": prog, "source": "trace", "trace": tr, "at": f["at"]}
                rep.violation(f"{name} {tr.get('meta')}: {f['formula']} is false at position {f['at']} of a recorded "
                              f"execution of the real engine; state {json.dumps(ec.brief_state(ctx['state']))[:300]}",
                              ctx, {"program": prog, "meta": tr.get("meta"), "kind": "property", "formula": f["formula"],
                                    "at": f["at"], "state": ctx["state"]})
        if ts and len(samples) < 3:
            t = ts[min(1, len(ts) - 1)]
            samples.append({"program": name, "meta": t.get("meta"),
                            "events": [{k: x for k, x in e.items() if k not in ("s", "audit", "view")} for e in t["events"][:14]]})
    states = transitions = confirmed = 0
    mcinfo = []
    for m in mcs:
        states += m.distinct
        transitions += m.generated
        mcinfo.append({**m.config, "distinct": m.distinct, "generated": m.generated, "search_depth": m.depth,
                       "wall_s": round(m.wall, 1), "violations_printed": len(m.viols)})
        if m.machinery:
            rep.machinery_failure(f"model checking {m.config}: {m.machinery}")
        groups: dict[str, list[dict]] = {}
        for vi in m.viols:
            groups.setdefault(vi["formula"], []).append(vi)
        for formula, vis in groups.items():
            prog = mcprogs[vis[0]["program"]]
            # a model violation counts only if the REAL engine follows the model's counter-example
            res = replay.confirm_on_code(prog, refs[prog["name"]], m.config["consts"], formula, formula in ACTIONS,
                                         pl["props"], m.config.get("depth", 400))
            if res["status"] == "confirmed":
                ctx = {"formula": formula, "state": res["state"], "program": prog, "source": "trace",
                       "trace": res["trace"], "at": res["at"]}
                rep.violation(f"model {m.config}: {formula} false in {len(vis)} explored state(s); counter-example "
                              f"replayed on the real engine and confirmed: state {json.dumps(ec.brief_state(res['state']))[:300]}",
                              ctx, {"program": prog, "kind": "model", "config": m.config, "formula": formula,
                                    "labels": res["labels"], "state": res["state"]})
                confirmed += 1
            else:
                rep.machinery_failure(f"model {m.config}: {formula} is false in the model but the counter-example is "
                                      f"{res['status']} on the real engine ({res.get('why', '')}) - the model misrepresents the code")
    comp = None
    if pl.get("component"):
        comp = pl["component"](rep)
        states += comp["states"]
        transitions += comp["transitions"]
    for (n, r, i) in oracle_mismatch:
        ctx = {"formula": "ORACLE", "state": None, "program": byname[n], "source": "oracle"}
        rep.violation(f"{n}: fault-free in-order run of the real engine {r} differs from the declarative outcome {i}",
                      ctx, {"program": byname[n], "kind": "oracle", "ref": r, "ideal": i})
    rc = rep.finish()
    cov = {
        "states": max(states, 1), "transitions": max(transitions, 1),
        "traces_validated_against_impl": acc + (comp["replayed"] if comp else 0),
        "race_component": ({k: comp[k] for k in ("replayed", "configs", "samples")} if comp else None),
        "samples": samples or [{"note": "no traces"}],
        "traces_recorded": ntr, "events_validated": events, "programs": len(progs), "binding_selftest": selftest,
        "formulas": pl["props"], "model_checking_runs": mcinfo,
        "known_findings_seen": rep.known_hits, "model_counterexamples_replayed_on_code": confirmed,
        "exhaustive": False,
        "phases_s": {"generate": round(t_gen, 1), "validate": round(t_val, 1), "model_check": round(t_mc, 1)},
    }
    write_evidence(pid, tier, seed, "model_checking", cov, time.time() - t0, violations=len(rep.violations),
                   assumptions=["SQLite backend only", "single worker per Engine.tla (races are Race*/Store/Queue specs)",
                                "time abstracted: a delay elapses only when nothing else is deliverable",
                                "crash = process kill between two SQLite commits"])
    print(f"{pid}: {ntr} executions of the real engine ({events} events) validated by TLC, {acc} accepted; "
          f"{len(mcs)} model-checking runs, {states} distinct states; known findings {rep.known_hits}; "
          f"{len(rep.violations)} violation(s); {time.time() - t0:.0f}s")
    return rc


ACTIONS = {"C01_SameData", "C02_NoReexec", "C03_StartsOnlyWhenAllowed", "C03_ExecOnlyStarted", "C03_NoRunBelowHalt", "C06_Legal", "C06_CompletedIsFinal", "C14_ProgressKept", "C14_ProgressExact", "C15_RearmExact", "C17_NoStartAfterCancel", "C11_ClaimsOfLiveKept", "C18_StaysSuspended", "C18_TransientNoEffect"}
