"""Enumerating / sampling drivers (DESIGN 4.3).  Every function returns a list of recorded traces of
the REAL engine; none of them judges anything."""
from __future__ import annotations

import random
from typing import Any

from . import core  # noqa: F401  (must be imported before stabilize)
from .driver import Run, run_fifo
from .programs import by_name


def _finish(run: Run, meta: dict, max_steps: int = 3000) -> dict:
    return run.as_trace(meta)


def fifo(prog: dict) -> tuple[dict, dict, int]:
    return run_fifo(prog)


def crash_points(prog: dict, points: list[int] | None = None, sweeps: int = 1, late_expire: bool = False,
                 exec_points: list[int] | None = None) -> list[dict]:
    """FIFO run with a process kill right after durable commit k (or right after the n-th task
    execution, before its result is recorded), restart, lock expiry, `sweeps` recovery sweeps, drain."""
    out = []
    for k in (points or []):
        tr, _, _ = run_fifo(prog, crash_at=k, sweeps_after_crash=sweeps, late_expire=late_expire)
        if not late_expire and sweeps == 1:
            tr["events"][0]["strict"] = True      # the queue chose every delivery and the lock lapsed first: deterministic run
        tr["meta"]["kind"] = "crash"
        tr["meta"]["sweeps"] = sweeps
        out.append(tr)
    for n in (exec_points or []):
        tr, _, _ = run_fifo(prog, crash_at_exec=n, sweeps_after_crash=sweeps, late_expire=late_expire)
        tr["meta"]["kind"] = "crash-exec"
        tr["meta"]["sweeps"] = sweeps
        out.append(tr)
    return out


def crash_pairs(prog: dict, pairs: list[tuple[int, int]]) -> list[dict]:
    """Two successive crashes: after commit k1 of the run and after the k2-th commit counted from
    the restart (k2 = 0.. may fall inside the recovery sweep itself)."""
    out = []
    for k1, k2 in pairs:
        run = Run(prog, "crash2")
        try:
            run.start()
            run.crash_at = {k1}
            crashed = run.run_protected(lambda: run.drain())
            if crashed:
                base = run.commit_no
                run.crash_at = {base + k2}

                def recover():
                    for row in run.rows():
                        if row["locked"]:
                            run.expire(row["qid"])
                    run.sweep()
                    run.drain()

                if run.run_protected(recover):
                    for row in run.rows():
                        if row["locked"]:
                            run.expire(row["qid"])
                    run.sweep()
                    run.drain()
            out.append(run.as_trace({"kind": "crash2", "k1": k1, "k2": k2}))
        finally:
            run.close()
    return out


def schedule(prog: dict, seed: int, p_withhold: float = 0.15, p_sweep: float = 0.0, max_sweeps: int = 0,
             cancel_at: int = -1, early: int = 0, max_steps: int = 600, fifo_after: int = -1,
             signal_at: int = -1, signal_pers: bool = True, signals: int = 1, claim_sweep: bool = False,
             region_at: int = -1, region: str = "r", hold: list | None = None) -> dict:
    """One seeded random delivery schedule: any visible message next, acks withheld with probability
    p_withhold (redelivered after a lock expiry), optional sweeps / cancel / spurious StartStage."""
    rng = random.Random(seed)
    run = Run(prog, "sched")
    if seed % 2 == 1:       # every other schedule: each delivery on a fresh worker thread (connections recycled)
        run.threaded = True
    try:
        run.start()
        sweeps = 0
        earlies = 0
        step = 0
        while step < max_steps:
            step += 1
            if cancel_at == step:
                run.send_cancel()
            if region_at == step:
                run.send_cancel_region(region)
            if signal_at == step:
                for tgt in signal_targets(prog):
                    for _i in range(signals):
                        run.send_signal(tgt, signal_pers)
            if claim_sweep and rng.random() < 0.1:
                run.claim_sweep()
            rows = run.rows()
            if not rows:
                if 0 <= step < signal_at:     # the run went quiet (suspended) before the signal was due
                    step = signal_at - 1
                    continue
                break
            vis = [r for r in rows if not r["locked"] and not r["delayed"] and r["att"] < r["max"]]
            if hold:    # stragglers: messages of this (type, stage) are delivered only when nothing else can move
                # (virtual time: a delay elapses only when nothing is visible, so a straggler outlasts the VISIBLE others only)
                rest = [r for r in vis if not (r["typ"] == hold[0] and r["key"][1] == hold[1])]
                vis = rest or vis
            locked = [r for r in rows if r["locked"]]
            if max_sweeps > sweeps and rng.random() < p_sweep:
                run.sweep()
                sweeps += 1
                continue
            if early > earlies and rng.random() < 0.08:
                refs = [s["ref"] for s in prog["stages"] if not s["parent"]]
                st = run.proj.state()
                if st["wf"]["status"] == "RUNNING":
                    run.early_start(rng.choice(refs))
                    earlies += 1
                    continue
            if locked and (not vis or rng.random() < 0.25):
                run.expire(rng.choice(locked)["qid"])
                continue
            if vis:
                r = rng.choice(vis) if (fifo_after < 0 or step < fifo_after) else vis[0]
                run.deliver(r["qid"], ack=rng.random() >= p_withhold)
                continue
            delayed = [r for r in rows if r["delayed"] and not r["locked"] and r["att"] < r["max"]]
            if delayed:   # virtual time: the earliest due message wakes first
                run.warp(min(delayed, key=lambda r: r["deliver_at"])["qid"])
                continue
            poison = [r for r in rows if r["att"] >= r["max"]]
            if poison:
                run.dlq_sweep()
                continue
            break
        return run.as_trace({"kind": "schedule", "seed": seed, "cancel_at": cancel_at, "steps": step,
                             "opts": {"p_withhold": p_withhold, "p_sweep": p_sweep, "max_sweeps": max_sweeps,
                                      "cancel_at": cancel_at, "early": early, "max_steps": max_steps,
                                      "fifo_after": fifo_after, "signal_at": signal_at, "signal_pers": signal_pers,
                                      "signals": signals, "claim_sweep": claim_sweep, "region_at": region_at, "region": region, "hold": hold}})
    finally:
        run.close()


def signal_targets(prog: dict) -> list[str]:
    return [s["ref"] for s in prog["stages"] if any(t["k"] == "suspend" for t in s["tasks"])]


def fifo_with_injection(prog: dict, at_step: int, what: str, times: int = 1) -> dict:
    """FIFO run with `what` in {'sweep','cancel'} injected right before delivery step `at_step`."""
    run = Run(prog, "inj")
    try:
        run.start()
        step = 0
        for _ in range(3000):
            rows = run.rows()
            if not rows:
                break
            vis = [r for r in rows if not r["locked"] and not r["delayed"] and r["att"] < r["max"]]
            if vis:
                step += 1
                if step == at_step:
                    for _i in range(times):
                        if what == "sweep":
                            run.sweep()
                        elif what == "cancel":
                            run.send_cancel()
                        elif what.startswith("region:"):
                            run.send_cancel_region(what[7:])
                        elif what.startswith("add:"):        # add:<stage> - AddMultiInstance for that stage
                            run.send_add_instance(what[4:])
                        elif what.startswith("sweepc:"):     # sweepc:<n1>:<n2> - a sweep concurrent with n1 + n2 deliveries
                            _, n1, n2 = what.split(":")
                            run.sweep_concurrent(int(n1), int(n2))
            r = run.step_fifo()
            if r in ("empty", "locked"):
                break
        return run.as_trace({"kind": "inject-" + what, "at": at_step, "times": times, "steps": step})
    finally:
        run.close()


def fifo_signal_crash(prog: dict, signal_at: int, pers: bool, crash_at: int, late_expire: bool = False) -> dict:
    """In-order run, a signal sent before delivery step `signal_at` (or when the run goes quiet earlier),
    process kill after durable commit `crash_at`, restart + recovery, drain."""
    run = Run(prog, "sigcrash")
    try:
        run.start()
        run.crash_at = {crash_at}
        state = {"step": 0, "sent": False}

        def body():
            for _ in range(3000):
                rows = run.rows()
                vis = [r for r in rows if not r["locked"] and not r["delayed"] and r["att"] < r["max"]]
                if vis:
                    state["step"] += 1
                if not state["sent"] and (state["step"] >= signal_at or not rows):
                    state["sent"] = True
                    for tgt in signal_targets(prog):
                        run.send_signal(tgt, pers)
                    continue
                r = run.step_fifo()
                if r == "empty":
                    break
                if r == "locked":
                    for row in run.rows():
                        if row["locked"]:
                            run.expire(row["qid"])

        if run.run_protected(body):
            if not late_expire:
                for row in run.rows():
                    if row["locked"]:
                        run.expire(row["qid"])
            run.sweep()
            run.run_protected(body)
        return run.as_trace({"kind": "signal-crash", "signal_at": signal_at, "pers": pers, "crash_at": crash_at,
                             "late_expire": late_expire})
    finally:
        run.close()


def fifo_cancel_crash(prog: dict, cancel_at: int, rel: int, late_expire: bool = False) -> dict:
    """In-order run, a cancel request before delivery step `cancel_at`, process kill after the `rel`-th durable commit that
    FOLLOWS the request (rel = 1.. walks through the CancelWorkflow handler's own commits: flag, fan-out transaction,
    and on into the CancelStage handlers), restart + recovery, drain."""
    run = Run(prog, "cancelcrash")
    try:
        run.start()
        state = {"step": 0, "sent": False}

        def body():
            for _ in range(3000):
                rows = run.rows()
                vis = [r for r in rows if not r["locked"] and not r["delayed"] and r["att"] < r["max"]]
                if vis:
                    state["step"] += 1
                if not state["sent"] and (state["step"] >= cancel_at or not rows):
                    state["sent"] = True
                    run.send_cancel()
                    run.crash_at = {run.commit_no + rel}
                    continue
                r = run.step_fifo()
                if r == "empty":
                    break
                if r == "locked":
                    for row in run.rows():
                        if row["locked"]:
                            run.expire(row["qid"])

        if run.run_protected(body):
            if not late_expire:
                for row in run.rows():
                    if row["locked"]:
                        run.expire(row["qid"])
            run.sweep()
            run.run_protected(body)
        return run.as_trace({"kind": "cancel-crash", "cancel_at": cancel_at, "rel": rel, "late_expire": late_expire})
    finally:
        run.close()


def poll_crash(prog: dict, times: int) -> dict:
    """In-order run; the first RunTask message is polled `times` times by a worker that is killed right after the
    poll commit (restart, lock lapse, sweep in between), then the run continues in order."""
    run = Run(prog, "pollcrash")
    try:
        run.start()
        left = times
        for _ in range(3000):
            rows = run.rows()
            if not rows:
                break
            vis = [r for r in rows if not r["locked"] and not r["delayed"] and r["att"] < r["max"]]
            if vis and left > 0 and vis[0]["typ"] == "RunTask":
                left -= 1
                run.crash_at = {run.commit_no + 1}
                run.run_protected(lambda: run.deliver(None))
                run.crash_at = set()
                for row in run.rows():
                    if row["locked"]:
                        run.expire(row["qid"])
                run.sweep()
                continue
            r = run.step_fifo()
            if r == "empty":
                break
            if r == "locked":
                for row in run.rows():
                    if row["locked"]:
                        run.expire(row["qid"])
        return run.as_trace({"kind": "pollcrash", "times": times})
    finally:
        run.close()


def operator(prog: dict, seed: int, pause_at: int = -1, unpause_after: int = 3, restart: str = "", shuffle: bool = True,
             hold: str = "", max_steps: int = 400, restart_at: int = -1, signal_after: bool = False) -> dict:
    """Operator actions on a (seeded, possibly shuffled) run: pause before delivery step `pause_at`, unpause once the run
    has gone quiet or `unpause_after` steps later; after the workflow finished, restart stage `restart` and drain again."""
    rng = random.Random(seed)
    run = Run(prog, "operator")
    try:
        run.start()
        step = 0
        paused_at = None
        unpaused = False
        restarted = False
        for _ in range(max_steps):
            step += 1
            rows = run.rows()
            vis = [r for r in rows if not r["locked"] and not r["delayed"] and r["att"] < r["max"]]
            if hold:    # the ResumeStage of stage `hold` is a straggler: delivered only when nothing else can be
                rest = [r for r in vis if not (r["typ"] == "ResumeStage" and r["key"][1] == hold)]
                vis = rest or vis
            locked = [r for r in rows if r["locked"]]
            if step == restart_at and restart and not restarted and restart in run.proj.state()["st"]:
                run.restart_stage(restart)      # an operator restart at ANY moment (running, suspended, paused, not started)
                restarted = True
                continue
            if step == pause_at and run.proj.state()["wf"]["status"] == "RUNNING":
                run.pause()
                paused_at = step
                continue
            if paused_at is not None and not unpaused and (not vis or step >= paused_at + unpause_after):
                run.unpause()
                unpaused = True
                continue
            if not rows and signal_after and not getattr(run, "_sig_sent", False):
                run._sig_sent = True            # the run went quiet on a suspended stage: release it
                for tgt in signal_targets(prog):
                    run.send_signal(tgt, True)
                continue
            if not rows and unpaused and not getattr(run, "_unpaused_again", False) and \
                    run.proj.state()["wf"]["status"] in ("SUCCEEDED", "TERMINAL", "CANCELED", "STOPPED") and \
                    not any(v["status"] == "PAUSED" for v in run.proj.state()["st"].values()):
                run._unpaused_again = True      # a duplicate / late operator resume once the run is over: changes nothing
                run.resume_store()
                continue
            if not rows:
                if restart and not restarted and restart_at < 0 and run.proj.state()["st"].get(restart, {}).get("status") in (
                        "SUCCEEDED", "TERMINAL", "CANCELED", "SKIPPED", "FAILED_CONTINUE", "STOPPED"):
                    run.restart_stage(restart)
                    restarted = True
                    continue
                break
            if locked and (not vis or rng.random() < 0.2):
                run.expire(rng.choice(locked)["qid"])
                continue
            if vis:
                r = rng.choice(vis) if shuffle else vis[0]
                run.deliver(r["qid"], ack=(rng.random() >= 0.1) if shuffle else True)
                continue
            delayed = [r for r in rows if r["delayed"] and not r["locked"] and r["att"] < r["max"]]
            if delayed:
                run.warp(min(delayed, key=lambda r: r["deliver_at"])["qid"])
                continue
            if [r for r in rows if r["att"] >= r["max"]]:
                run.dlq_sweep()
                continue
            break
        return run.as_trace({"kind": "operator", "seed": seed, "pause_at": pause_at, "unpause_after": unpause_after,
                             "restart": restart, "shuffle": shuffle, "hold": hold, "restart_at": restart_at,
                             "signal_after": signal_after})
    finally:
        run.close()


def fifo_steps(prog: dict) -> int:
    run = Run(prog, "cnt")
    try:
        run.start()
        run.drain()
        return run.handled
    finally:
        run.close()


def redeliver(prog: dict, victim_step: int, redeliver_after: int, restart: bool = False,
              reset_bloom: bool = False, trust: bool = False, fault: bool = False) -> dict:
    """FIFO run in which the ack of the `victim_step`-th delivery is lost; the message comes back
    `redeliver_after` deliveries later (optionally across a process restart / filter rotation)."""
    run = Run(prog, "redeliver", dedup_trust=trust)
    try:
        run.start()
        step = 0
        victim = None
        due = -1
        for _ in range(3000):
            rows = run.rows()
            if not rows:
                break
            vis = [r for r in rows if not r["locked"] and not r["delayed"] and r["att"] < r["max"]]
            if victim is not None and (step >= due or not vis):
                if restart:
                    run.restart_clean()
                if reset_bloom:
                    run.bloom_reset()
                run.expire(victim)
                run.deliver(victim, lookup_fault=fault)     # (fault: the durable duplicate look-up of the redelivery fails once)
                victim = None
                continue
            if vis:
                step += 1
                if step == victim_step:
                    victim = vis[0]["qid"]
                    due = step + redeliver_after
                    run.deliver(victim, ack=False)
                    continue
            r = run.step_fifo()
            if r in ("empty", "locked"):
                break
        return run.as_trace({"kind": "redeliver", "victim": victim_step, "after": redeliver_after,
                             "restart": restart, "reset": reset_bloom, "trust": trust, "fault": fault})
    finally:
        run.close()


# ----- process-pool entry point ---------------------------------------------------------------
def job(spec: dict[str, Any]) -> list[dict]:
    prog = spec.get("prog") or by_name(spec["name"])
    kind = spec["kind"]
    if kind == "fifo":
        tr, fin, commits = run_fifo(prog)
        tr["meta"].update({"kind": "fifo", "commits": commits, "final": fin})
        return [tr]
    if kind == "crash":
        return crash_points(prog, spec.get("points"), spec.get("sweeps", 1), spec.get("late_expire", False),
                            spec.get("exec_points"))
    if kind == "crash2":
        return crash_pairs(prog, spec["pairs"])
    if kind == "schedule":
        return [schedule(prog, seed, **spec.get("opts", {})) for seed in spec["seeds"]]
    if kind == "inject":
        return [fifo_with_injection(prog, at, spec["what"], spec.get("times", 1)) for at in spec["at"]]
    if kind == "operator":
        return [operator(prog, sd, **spec.get("opts", {})) for sd in spec["seeds"]]
    if kind == "pollcrash":
        return [poll_crash(prog, k) for k in spec["cases"]]
    if kind == "signal-crash":
        return [fifo_signal_crash(prog, sa, spec.get("pers", True), c, spec.get("late_expire", False))
                for (sa, c) in spec["cases"]]
    if kind == "cancel-crash":
        return [fifo_cancel_crash(prog, ca, rel, spec.get("late_expire", False)) for (ca, rel) in spec["cases"]]
    if kind == "redeliver":
        return [redeliver(prog, v, a, **spec.get("opts", {})) for (v, a) in spec["cases"]]
    raise ValueError(kind)
