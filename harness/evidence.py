"""Evidence files (/verif/evidence/<id>.json, schema /root/.vp/EVIDENCE.schema.json) and the
known-findings file (/verif/known_findings.json: committed, never written at run time)."""
from __future__ import annotations

import json
import os
import time

ROOT = os.path.dirname(os.path.dirname(os.path.abspath(__file__)))
EVID = os.environ.get("VERIF_EVIDENCE_DIR") or os.path.join(ROOT, "evidence")
REPLAY = os.path.join(ROOT, "run", "replay")


def write_evidence(pid: str, tier: str, seed: int, level: str, coverage: dict, wall_s: float,
                   violations: int = 0, assumptions: list[str] | None = None, extra: dict | None = None) -> str:
    os.makedirs(EVID, exist_ok=True)
    doc = {"property_id": pid, "tier": tier if tier in ("quick", "thorough") else "quick", "seed": int(seed),
           "level": level, "coverage": coverage, "assumptions": assumptions or [], "wall_s": round(wall_s, 2),
           "violations": int(violations)}
    if extra:
        doc.update(extra)
    path = os.path.join(EVID, pid + ".json")
    tmp = path + ".tmp"
    with open(tmp, "w") as fh:
        json.dump(doc, fh, indent=1, default=str)
    os.replace(tmp, path)
    return path


def known_findings() -> list[dict]:
    with open(os.path.join(ROOT, "known_findings.json")) as fh:
        return json.load(fh)["findings"]


def save_replay(pid: str, name: str, doc: dict) -> str:
    os.makedirs(REPLAY, exist_ok=True)
    path = os.path.join(REPLAY, f"{pid}-{name}.json")
    with open(path, "w") as fh:
        json.dump(doc, fh, default=str)
    return path


class Reporter:
    """Collects violations, matches them against known findings, prints the interface lines."""

    def __init__(self, pid: str) -> None:
        self.pid = pid
        self.t0 = time.time()
        self.known_hits: dict[str, int] = {}
        self.violations: list[dict] = []
        self.machinery: list[str] = []
        self.findings = [f for f in known_findings() if f["property"] == pid and f["status"] == "known"]

    def violation(self, what: str, matcher_ctx: dict, replay_doc: dict) -> None:
        """matcher_ctx is handed to the finding predicates (harness/findings.py)."""
        from . import findings

        for f in self.findings:
            pred = findings.PREDICATES.get(f["signature"]["predicate"])
            if pred is not None and pred(f["signature"], matcher_ctx):
                self.known_hits[f["id"]] = self.known_hits.get(f["id"], 0) + 1
                return
        self.violations.append({"what": what, "replay": replay_doc})

    def machinery_failure(self, msg: str) -> None:
        self.machinery.append(msg)

    def finish(self) -> int:
        for f in self.findings:
            n = self.known_hits.get(f["id"], 0)
            if n:
                print(f"KNOWN-FINDING: property={self.pid} {f['id']} {f['what']} (seen {n}x in this run)")
            else:   # listed for this property but outside what this tier / seed explores (e.g. needs two crashes)
                print(f"KNOWN-FINDING: property={self.pid} {f['id']} {f['what']} (listed; not exercised by this run)")
        shown = 0
        for i, v in enumerate(self.violations):
            path = save_replay(self.pid, "viol%d" % i, v["replay"])
            if shown < 20:
                print(f"VIOLATION property={self.pid} replay={path}")
                print("  " + v["what"][:400])
                shown += 1
        if self.violations:
            for m in self.machinery[:3]:     # secondary: e.g. a model counter-example the changed code no longer follows
                print("NOTE (machinery): " + m[:400])
            return 1
        if self.machinery:
            for m in self.machinery[:5]:
                print("MACHINERY-FAILURE: " + m[:3000])
            return 2
        return 0
