"""C20 - graph validation and condition expressions are sound and total.

MongoDB-merge-rules style binding of two pure-function specifications to the code:

* spec/Graph.tla   defines Valid / ErrKind / TopoOK / Layers.  TLC (MC_Graph) enumerates every stage
  list of the bound; each one is built as real StageExecution objects and run through
  Workflow.create, topological_sort and get_execution_layers; what the code did goes BACK to TLC
  (Obs_Graph), which judges it with the same definitions.  Seeded random larger graphs take the
  code -> spec direction only.
* spec/Expr.tla    defines EvalTop(ast, ctx) with Python's operand typing, ShouldSkip and
  SplitActivated.  TLC (MC_Expr) enumerates ASTs with the predicted outcome under 3 contexts; each
  AST is rendered to source text and run through evaluate_expression, StartStage._should_skip and
  CompleteStage._apply_split_logic.  Every outcome that differs from the prediction, every foreign
  exception and every context mutation is re-judged by TLC (Obs_Expr), which also judges the
  outcomes of texts OUTSIDE the grammar (hypothesis text, deep nesting, NUL, surrogates, huge).

The Python side drives, renders, records and compares encodings; Valid/TopoOK/Eval/Truthy live in
the specifications only.
"""
from __future__ import annotations

import ast as pyast
import copy
import json
import os
import random
import re
import shutil
import sys
import time
import warnings
from concurrent.futures import ThreadPoolExecutor
from multiprocessing import get_context

from . import core  # noqa: F401  (must precede any stabilize import)
from . import evidence, findings, tlc

PID = "C20"
_T0 = [time.time()]


def _dbg(msg: str) -> None:
    if os.environ.get("VERIF_DEBUG"):
        now = time.time()
        print("[c20 +%.1fs] %s" % (now - _T0[0], msg), flush=True)
        _T0[0] = now

_CORRUPT = os.environ.get("VERIF_C20_CORRUPT", "")      # binding self-test switch: graph | expr
NPROC = max(2, min(14, (os.cpu_count() or 4) - 2))

# --------------------------------------------------------------------------------------------------
# known-finding predicate (registered at import time; entries proposed in docs/findings_C20.json)
# --------------------------------------------------------------------------------------------------


def c20_escape(sig: dict, ctx: dict) -> bool:
    """An exception that is not ExpressionError escaping the evaluator (and through it the two engine
    call sites / a real workflow run) at ONE specific site.  `site` is the error site the
    SPECIFICATION names for the case (Expr.tla Err(site), printed by Obs_Expr) or, for a text outside
    the grammar, the site read off the escaping exception's traceback (see escape_site)."""
    if ctx.get("part") != "expr" or ctx.get("formula") not in sig.get("formulas", []):
        return False
    if ctx.get("site") != sig.get("site"):
        return False
    if ctx.get("what") == "workflow":          # workflow-level symptom of the same site
        return True
    if ctx.get("exc") not in sig.get("exc", []):
        return False
    if "min_nesting" in sig and int(ctx.get("nesting", 0)) < int(sig["min_nesting"]):
        return False
    return True


findings.PREDICATES["c20_escape"] = c20_escape

# --------------------------------------------------------------------------------------------------
# TLC plumbing
# --------------------------------------------------------------------------------------------------
CASE_RE = re.compile(r'<<\s*"CASE",\s*"((?:[^"\\]|\\.)*)"\s*>>', re.S)
CTXS_RE = re.compile(r'<<\s*"CTXS",\s*"((?:[^"\\]|\\.)*)"\s*>>', re.S)
FAIL_RE = re.compile(r'<<\s*"FAIL",\s*(\d+),\s*"(\w+)"(?:,\s*"(\w*)")?\s*>>', re.S)


def _unq(body: str):
    return json.loads(json.loads('"' + body.replace("\n", "") + '"'))


def _tlc_failed(r: tlc.TLCResult) -> str | None:
    if r.rc != 0 or r.errors or "Model checking completed" not in r.out:
        keep = [ln for ln in r.out.splitlines() if '"CASE"' not in ln]
        return "TLC rc=%s: %s" % (r.rc, "\n".join(keep[-40:]))
    return None


def _run_tlc(*a, **kw) -> tlc.TLCResult:
    """run_tlc, repeated once when the JVM was killed from outside (shared machine)."""
    r = tlc.run_tlc(*a, **kw)
    if r.rc in (137, 143, -9, -15):
        r = tlc.run_tlc(*a, **kw)
    return r


def _action_cov(r: tlc.TLCResult, names) -> dict:
    cov = r.coverage()
    return {n: cov.get(n, 0) for n in names}


def judge(root: str, obs: list[dict], consts: str, shards: int = 1) -> tuple[dict[int, list[tuple[str, str]]], dict, str | None]:
    """Run the observation list through Obs_<X> (TLC).  Returns {obs index: [(formula, site)]} of
    the formulas TLC found false, stats, and a machinery error (or None)."""
    fails: dict[int, list[tuple[str, str]]] = {}
    stats = {"states": 0, "transitions": 0, "wall": 0.0, "runs": 0, "steps_covered": 0}
    if not obs:
        return fails, stats, None
    shards = max(1, min(shards, (len(obs) + 999) // 1000))
    per = (len(obs) + shards - 1) // shards
    jobs = []
    rds = []
    for k in range(shards):
        part = obs[k * per:(k + 1) * per]
        if not part:
            continue
        rd = tlc.new_rundir("c20-obs")
        rds.append(rd)
        path = os.path.join(rd, "obs.json")
        with open(path, "w") as fh:
            json.dump(part, fh)
        cfg = consts + "INIT Init\nNEXT Next\nINVARIANT Judge\nCHECK_DEADLOCK FALSE\n"
        jobs.append((k * per, len(part), rd, path, cfg))
    err = None
    try:
        with ThreadPoolExecutor(max_workers=min(len(jobs), 8)) as ex:
            futs = [ex.submit(_run_tlc, rd, root, cfg, 2, {"OBS_FILE": path}, 3000, ["-coverage", "1"])
                    for (_, _, rd, path, cfg) in jobs]
            for (base, n, _, _, _), fu in zip(jobs, futs):
                r = fu.result()
                bad = _tlc_failed(r)
                if bad or r.distinct != n + 1:
                    err = bad or f"{root}: judged {r.distinct - 1} of {n} observations\n{r.out[-1500:]}"
                    continue
                stats["states"] += r.distinct
                stats["transitions"] += r.generated
                stats["wall"] += r.wall
                stats["runs"] += 1
                stats["steps_covered"] += _action_cov(r, ["Step"])["Step"]
                for m in FAIL_RE.finditer(r.out):
                    fails.setdefault(base + int(m.group(1)) - 1, []).append((m.group(2), m.group(3) or ""))
    finally:
        for rd in rds:
            shutil.rmtree(rd, ignore_errors=True)
    return fails, stats, err


# ==================================================================================================
# Part A: graphs
# ==================================================================================================
GRAPH_LETTERS = ["r1", "r2", "r3", "r4"]


def _norm_graph(g: list) -> list:
    """[[ref, [reqs...], join]] (join defaults to AND for old replay files)."""
    return [[st[0], sorted(st[1]), st[2] if len(st) > 2 else "AND"] for st in g]


def graph_observe(g: list) -> dict:
    """g = [[ref, [reqs...], join], ...] -> what the real code did with it."""
    from stabilize.dag.topological import (CircularDependencyError, InvalidStageGraphError,
                                            get_execution_layers, topological_sort)
    from stabilize.models.stage import JoinType, StageExecution
    from stabilize.models.workflow import Workflow

    g = _norm_graph(g)
    stages = [StageExecution(ref_id=r, name="s%d" % i, type="t", requisite_stage_ref_ids=set(q),
                             join_type=JoinType[j], join_threshold=1 if j == "N_OF_M" else 0)
              for i, (r, q, j) in enumerate(g)]
    pos = {id(s): i + 1 for i, s in enumerate(stages)}
    o = {"g": g, "created": False, "kind": "none", "sorted": False, "order": [],
         "sortexc": "", "layers": []}
    try:
        wf = Workflow.create("app", "wf", stages)
        o["created"] = True
        o["order"] = [pos[id(s)] for s in topological_sort(wf.stages)]
    except InvalidStageGraphError as e:
        o["kind"] = str(e).split(":", 1)[0]
    except CircularDependencyError:
        o["kind"] = "cycle"
    except BaseException as e:  # noqa: BLE001  anything else is judged by TLC (C20_DocumentedError)
        o["kind"] = "other_" + type(e).__name__
    try:
        order = [pos[id(s)] for s in topological_sort(stages)]
        o["sorted"] = True
        if not o["created"]:
            o["order"] = order
    except CircularDependencyError:
        o["sortexc"] = "CircularDependencyError"
    except BaseException as e:  # noqa: BLE001
        o["sortexc"] = type(e).__name__
    try:
        o["layers"] = [sorted(pos[id(s)] for s in layer) for layer in get_execution_layers(stages)]
    except BaseException as e:  # noqa: BLE001
        o["layers"] = [[0]]
        o["sortexc"] = o["sortexc"] or ("layers_" + type(e).__name__)
    return o


def _graph_chunk(lines: list[str]) -> list:
    out = []
    for body in lines:
        c = _unq(body)
        o = graph_observe(c["g"])
        pred_layers = [sorted(x) for x in c["layers"]]
        o["agree"] = (o["created"] == c["valid"] and o["kind"] == c["kind"] and o["sorted"] == c["sortable"]
                      and o["layers"] == pred_layers)
        o["pred"] = {"valid": c["valid"], "kind": c["kind"], "sortable": c["sortable"]}
        out.append(o)
        if c["valid"] and any(st[2] != "AND" for st in o["g"]):
            # the order inside one Kahn round follows set iteration over random stage ids: a valid graph that
            # carries a non-AND join is observed three more times (extra observations, judged like the others)
            for _ in range(3):
                x = graph_observe(c["g"])
                x["extra"] = True
                out.append(x)
    return out


def random_graphs(rnd: random.Random, n: int) -> list[list]:
    """Seeded larger graphs (5-7 stages, 8 letters): a random DAG, damaged in one way half of the time."""
    letters = ["a", "b", "c", "d", "e", "f", "g", "h"]
    res = []
    for _ in range(n):
        k = rnd.randint(4, 7)
        refs = rnd.sample(letters, k)
        g = []
        for i, r in enumerate(refs):
            g.append([r, sorted(x for x in refs[:i] if rnd.random() < 0.35)])
        rnd.shuffle(g)
        dmg = rnd.choice(["none", "none", "none", "dup", "self", "unknown", "back", "mix"])
        if dmg in ("dup", "mix"):
            g[rnd.randrange(k)][0] = g[rnd.randrange(k)][0]
        if dmg in ("self", "mix") and rnd.random() < 0.8:
            s = g[rnd.randrange(k)]
            s[1] = sorted(set(s[1]) | {s[0]})
        if dmg in ("unknown", "mix") and rnd.random() < 0.8:
            s = g[rnd.randrange(k)]
            s[1] = sorted(set(s[1]) | {rnd.choice(letters)})
        if dmg in ("back", "mix"):
            for _ in range(rnd.randint(1, 3)):
                a, b = rnd.sample(range(k), 2)
                g[a][1] = sorted(set(g[a][1]) | {g[b][0]})
        for st in g:                     # join types: mostly on real joins, sometimes anywhere
            p = 0.6 if len(st[1]) >= 2 else 0.15
            st.append(rnd.choice(["OR", "DISCRIMINATOR", "N_OF_M", "MULTI_MERGE"]) if rnd.random() < p else "AND")
        res.append(g)
    return res


GRAPH_VIOL = {"C20_CreateIffValid", "C20_OrderAfterDeps", "C20_DocumentedError"}


def graph_part(tier: str, seed: int, rep: evidence.Reporter, pool, corrupt: bool = False) -> dict:
    # quick: <= 3 stages, at most one non-AND join; thorough: <= 4 stages, every join assignment on lists of <= 3
    maxlen, max_non_and = (3, 1) if tier == "quick" else (4, 3)
    rd = tlc.new_rundir("c20-graph")
    try:
        cfg = ("CONSTANTS\n  Refs = {%s}\n  MaxLen = %d\n  MaxNonAnd = %d\n  JoinMaxLen = 3\n  JoinUniqueOnly = TRUE\n"
               "INIT Init\nNEXT Next\nSYMMETRY LetterSym\n"
               "INVARIANT Export\nINVARIANT DefsAgree\nCHECK_DEADLOCK FALSE\n" % (", ".join(GRAPH_LETTERS), maxlen, max_non_and))
        r = _run_tlc(rd, "MC_Graph", cfg, workers=16, extra=["-coverage", "1"])
    finally:
        shutil.rmtree(rd, ignore_errors=True)
    bad = _tlc_failed(r)
    if bad or r.violated:
        rep.machinery_failure("MC_Graph: " + (bad or "definitions disagree: %s" % r.violated))
        return {}
    _dbg("MC_Graph done %.1fs" % r.wall)
    bodies = CASE_RE.findall(r.out)
    if len(bodies) != r.distinct:
        rep.machinery_failure(f"MC_Graph exported {len(bodies)} cases for {r.distinct} distinct states")
        return {}
    cov_add = _action_cov(r, ["AddStage"])["AddStage"]
    t0 = time.time()
    chunks = [bodies[i:i + 2000] for i in range(0, len(bodies), 2000)]
    obs: list[dict] = []
    for part in pool.imap_unordered(_graph_chunk, chunks):
        obs.extend(part)
    obs.sort(key=lambda x: bool(x.get("extra")))          # enumerated cases first, repeated observations after
    n_enum = sum(1 for x in obs if not x.get("extra"))
    n_extra = len(obs) - n_enum
    rnd = random.Random(seed * 7919 + 1)
    n_rand = 3000 if tier == "quick" else 40000
    rgraphs = random_graphs(rnd, n_rand)
    for part in pool.imap_unordered(_rand_graph_chunk, [rgraphs[i:i + 1000] for i in range(0, n_rand, 1000)]):
        obs.extend(part)
    if corrupt:     # binding self-test: pretend the code created the first invalid graph
        for o in obs:
            if not o["created"] and o["g"]:
                o["created"], o["kind"] = True, "none"
                o["order"] = list(range(1, len(o["g"]) + 1))
                break
    replay_wall = time.time() - t0
    _dbg("graph replay done")
    classes: dict[str, int] = {}
    disagree = 0
    pred_classes: dict[str, int] = {}
    for o in obs:
        key = ("valid" if o["created"] else o["kind"])
        classes[key] = classes.get(key, 0) + 1
        if "pred" in o:
            pk = "valid" if o["pred"]["valid"] else o["pred"]["kind"]
            pred_classes[pk] = pred_classes.get(pk, 0) + 1
        if o.get("agree") is False:
            disagree += 1
    letters = sorted({x for o in obs for st in o["g"] for x in [st[0], *st[1]]})
    consts = "CONSTANTS\n  Refs = {%s}\n" % ", ".join('"%s"' % x for x in letters)
    slim = [{k: o[k] for k in ("g", "created", "kind", "sorted", "order", "sortexc", "layers")} for o in obs]
    fails, jst, err = judge("Obs_Graph", slim, consts, shards=6 if tier == "quick" else 8)
    if err:
        rep.machinery_failure("Obs_Graph: " + err)
        return {}
    drift = 0
    ggroups: dict[tuple, list] = {}
    for idx, fl in sorted(fails.items()):
        names = [f for f, _ in fl]
        hard = tuple(sorted(f for f in names if f in GRAPH_VIOL))
        if hard:
            o = obs[idx]
            ggroups.setdefault((hard, (o.get("pred") or {}).get("kind", "?"), o["kind"]), []).append(o)
        else:
            drift += 1
    for (hard, pk, ok), items in sorted(ggroups.items()):
        o = items[0]
        rep.violation(f"{list(hard)} false for {len(items)} graph(s) (specification: {pk}; code reported: {ok}); first: "
                      f"{o['g']} -> created={o['created']} order={o['order']} sortexc={o['sortexc']!r}",
                      {"part": "graph", "formula": hard[0], "kind": ok, "spec_kind": pk},
                      {"kind": "graph", "g": o["g"], "failed": list(hard), "count": len(items),
                       "more": [x["g"] for x in items[1:6]]})
    if disagree and not fails:
        rep.machinery_failure(f"{disagree} graph replays differ from MC_Graph's prediction but Obs_Graph accepted them")
    joins_seen: dict[str, int] = {}
    for o in obs[:n_enum]:
        for st in o["g"]:
            if st[2] != "AND":
                key = st[2] + (":valid" if o["pred"]["valid"] else ":" + o["pred"]["kind"])
                joins_seen[key] = joins_seen.get(key, 0) + 1
    for jt in ("OR", "DISCRIMINATOR", "N_OF_M", "MULTI_MERGE"):
        for cls in ("valid", "cycle"):
            if not joins_seen.get(jt + ":" + cls):
                rep.machinery_failure(f"vacuity: MC_Graph enumerated no {cls} graph with a {jt} join")
    for need in ("valid", "duplicate_ref", "self_edge", "unknown_ref", "cycle"):
        if not pred_classes.get(need):
            rep.machinery_failure("vacuity: MC_Graph enumerated no graph of class " + need)
    return {"bound": {"letters": len(GRAPH_LETTERS), "max_stages": maxlen, "symmetry": "letter permutations",
                      "join_types": "non-AND join types on stages with >= 2 requisites, in unique-ref lists of <= 3 stages, "
                                    "at most %d per list" % max_non_and},
            "non_and_joins_enumerated": dict(sorted(joins_seen.items())),
            "enumerated_graphs": n_enum, "repeated_observations": n_extra, "random_graphs": n_rand, "classes_enumerated": pred_classes, "classes_observed": classes,
            "mc_states": r.distinct, "mc_transitions": r.generated, "mc_wall_s": round(r.wall, 1),
            "action_AddStage_states": cov_add, "defs_agree_checked_on": r.distinct,
            "judge_states": jst["states"], "judge_transitions": jst["transitions"], "judge_wall_s": round(jst["wall"], 1),
            "judge_Step_states": jst["steps_covered"], "replay_wall_s": round(replay_wall, 1),
            "prediction_disagreements": disagree, "drift": drift,
            "samples": [{k: o[k] for k in ("g", "created", "kind", "order", "layers")}
                        for o in ([x for x in obs[:n_enum] if x["created"] and len(x["g"]) >= 3][:2]
                                  + [x for x in obs[:n_enum] if x["kind"] == "cycle"][:1]
                                  + [x for x in obs[:n_enum] if x["kind"] == "unknown_ref"][:1])]}


def _rand_graph_chunk(gs: list) -> list:
    return [graph_observe(g) for g in gs]


# ==================================================================================================
# Part B: expressions
# ==================================================================================================
def dec_value(x):
    t = x[0]
    if t == "N":
        return None
    if t == "B":
        return bool(x[1])
    if t == "I":
        return int(x[1])
    if t == "S":
        return "".join(x[1])
    if t == "L":
        return [dec_value(y) for y in x[1]]
    if t == "T":
        return tuple(dec_value(y) for y in x[1])
    if t == "D":
        return {dec_value(k): dec_value(v) for k, v in x[1]}
    raise ValueError("cannot decode " + repr(x))


def enc_value(v):
    if v is None:
        return ["N"]
    if v is True or v is False:
        return ["B", v]
    if type(v) is int and abs(v) < 2 ** 31:
        return ["I", v]
    if type(v) is str and all(c in "abk" for c in v):
        return ["S", list(v)]
    if type(v) is list:
        return ["L", [enc_value(x) for x in v]]
    if type(v) is tuple:
        return ["T", [enc_value(x) for x in v]]
    if type(v) is dict:
        return ["D", [[enc_value(k), enc_value(x)] for k, x in v.items()]]
    return ["X", type(v).__name__, repr(v)[:60]]


def canon(x):
    """Order-insensitive form of an encoded value (dict entries sorted)."""
    if isinstance(x, list) and x and x[0] == "D":
        return ["D", sorted(([canon(k), canon(v)] for k, v in x[1]), key=json.dumps)]
    if isinstance(x, list) and x and x[0] in ("L", "T"):
        return [x[0], [canon(y) for y in x[1]]]
    return x


_CMP = {"Eq": pyast.Eq, "NotEq": pyast.NotEq, "Lt": pyast.Lt, "LtE": pyast.LtE, "Gt": pyast.Gt, "GtE": pyast.GtE,
        "Is": pyast.Is, "IsNot": pyast.IsNot, "In": pyast.In, "NotIn": pyast.NotIn}
_UN = {"not": pyast.Not, "neg": pyast.USub, "pos": pyast.UAdd, "inv": pyast.Invert}
_LOAD = pyast.Load()


def build(n):
    """Encoded AST of the specification -> Python ast node."""
    k = n[0]
    if k == "name":
        return pyast.Name(id=n[1], ctx=_LOAD)
    if k == "const":
        return pyast.Constant(value=dec_value(n[1]))
    if k == "attr":
        return pyast.Attribute(value=build(n[1]), attr=n[2], ctx=_LOAD)
    if k == "sub":
        return pyast.Subscript(value=build(n[1]), slice=build(n[2]), ctx=_LOAD)
    if k == "slice":
        return pyast.Subscript(value=build(n[1]), slice=pyast.Slice(lower=build(n[2]), upper=None, step=None), ctx=_LOAD)
    if k == "cmp":
        return pyast.Compare(left=build(n[1]), ops=[_CMP[o]() for o in n[2]], comparators=[build(c) for c in n[3]])
    if k == "bool":
        return pyast.BoolOp(op=pyast.And() if n[1] == "and" else pyast.Or(), values=[build(c) for c in n[2]])
    if k == "un":
        return pyast.UnaryOp(op=_UN[n[1]](), operand=build(n[2]))
    if k == "if":
        return pyast.IfExp(test=build(n[1]), body=build(n[2]), orelse=build(n[3]))
    if k == "list":
        return pyast.List(elts=[build(c) for c in n[1]], ctx=_LOAD)
    if k == "tuple":
        return pyast.Tuple(elts=[build(c) for c in n[1]], ctx=_LOAD)
    if k == "unsup":
        c = build(n[2][0])
        f = n[1]
        gen = [pyast.comprehension(target=pyast.Name(id="q", ctx=pyast.Store()),
                                   iter=pyast.List(elts=[pyast.Constant(value=1)], ctx=_LOAD), ifs=[], is_async=0)]
        if f == "call":
            return pyast.Call(func=pyast.Name(id="f", ctx=_LOAD), args=[c], keywords=[])
        if f == "binop":
            return pyast.BinOp(left=c, op=pyast.Add(), right=pyast.Constant(value=1))
        if f == "lambda":
            return pyast.Lambda(args=pyast.arguments(posonlyargs=[], args=[], kwonlyargs=[], kw_defaults=[], defaults=[]), body=c)
        if f == "listcomp":
            return pyast.ListComp(elt=c, generators=gen)
        if f == "genexp":
            return pyast.GeneratorExp(elt=c, generators=gen)
        if f == "dict":
            return pyast.Dict(keys=[pyast.Constant(value="k")], values=[c])
        if f == "set":
            return pyast.Set(elts=[c])
        if f == "fstr":
            return pyast.JoinedStr(values=[pyast.FormattedValue(value=c, conversion=-1, format_spec=None)])
        if f == "walrus":
            return pyast.NamedExpr(target=pyast.Name(id="z", ctx=pyast.Store()), value=c)
        if f == "await":
            return pyast.Await(value=c)
        if f == "starred":
            return pyast.Starred(value=c, ctx=_LOAD)
    raise ValueError("unknown AST node " + repr(n))


def render(n) -> str:
    tree = build(n)
    text = pyast.unparse(tree)
    back = pyast.parse(text, mode="eval").body
    if pyast.dump(back) != pyast.dump(tree):
        raise RuntimeError(f"rendering does not round-trip: {n!r} -> {text!r}")
    return text


_hosts = {}


def _get_hosts():
    if not _hosts:
        from stabilize.handlers.complete_stage.split_logic import CompleteStagesSplitMixin
        from stabilize.handlers.start_stage.conditions import StartStageConditionsMixin

        _hosts["skip"] = type("SkipHost", (StartStageConditionsMixin,), {})()
        _hosts["split"] = type("SplitHost", (CompleteStagesSplitMixin,), {})()
    return _hosts


def escape_site(e: BaseException, text: str) -> str:
    """Where a foreign exception left the evaluator: the innermost _eval_node frame's node, else the parser."""
    node = None
    tb = e.__traceback__
    while tb is not None:
        if tb.tb_frame.f_code.co_name == "_eval_node":
            node = tb.tb_frame.f_locals.get("node")
        tb = tb.tb_next
    if isinstance(e, (RecursionError, MemoryError)):
        return "deep_nesting"
    if node is None:
        if isinstance(e, UnicodeEncodeError) and any(0xD800 <= ord(c) <= 0xDFFF for c in text):
            return "lone_surrogate"
        return "parse_" + type(e).__name__
    if isinstance(node, pyast.UnaryOp) and isinstance(node.op, pyast.USub) and isinstance(e, TypeError):
        return "usub_nonnumeric"
    if isinstance(node, pyast.Subscript) and isinstance(e, TypeError) and "unhashable" in str(e):
        return "unhashable_key"
    return "evalnode_" + type(node).__name__


def eval_observe(text: str, ctx_enc) -> dict:
    """Run evaluate_expression(text, ctx) and record the outcome and purity."""
    from stabilize.expressions import ExpressionError, evaluate_expression

    ctx = ctx_enc
    before = copy.deepcopy(ctx)
    o = {"kind": "value", "v": ["N"], "exc": "", "truthy": "F"}
    try:
        val = evaluate_expression(text, ctx)
        o["v"] = enc_value(val)
        o["truthy"] = "T" if val else "F"     # recorded, used by Obs_Expr only for values outside its universe
    except ExpressionError:
        o["kind"] = "experr"
    except BaseException as e:  # noqa: BLE001  judged by TLC (C20_Total)
        if isinstance(e, (KeyboardInterrupt, SystemExit)):
            raise
        o["kind"] = "other"
        o["exc"] = type(e).__name__
        o["tb_site"] = escape_site(e, text)
    o["pure"] = "T" if _same(before, ctx) else "F"
    return o


def _same(a, b) -> bool:
    if type(a) is not type(b):
        return False
    if isinstance(a, dict):
        return list(a.keys()) == list(b.keys()) and all(_same(a[k], b[k]) for k in a) and \
            all(type(x) is type(y) for x, y in zip(a.keys(), b.keys()))
    if isinstance(a, (list, tuple)):
        return len(a) == len(b) and all(_same(x, y) for x, y in zip(a, b))
    return a == b


def _engine_objs():
    """Real StageExecution / Workflow objects, built once per process and re-used (only context and
    split_conditions are replaced per case)."""
    if "objs" not in _hosts:
        from stabilize.models.stage import SplitType, StageExecution
        from stabilize.models.workflow import Workflow

        st = StageExecution(ref_id="b", name="b", type="t", context={})
        wf1 = Workflow.create("app", "wf", [st])             # _should_skip reads stage.execution.stages
        up = StageExecution(ref_id="a", name="a", type="t", context={}, split_type=SplitType.OR)
        d1 = StageExecution(ref_id="d1", name="d1", type="t", requisite_stage_ref_ids={"a"})
        d2 = StageExecution(ref_id="d2", name="d2", type="t", requisite_stage_ref_ids={"a"})
        wf2 = Workflow.create("app", "wf", [up, d1, d2])
        _hosts["objs"] = (st, wf1, up, d1, d2, wf2)
    return _hosts["objs"]


def engine_observe(text: str, ctx: dict) -> tuple[dict, dict]:
    """The two engine call sites on real StageExecution objects (mixins instantiated bare)."""
    h = _get_hosts()
    st, _wf1, up, d1, d2, _wf2 = _engine_objs()
    sk = {"kind": "value", "skip": "F", "exc": "", "pure": "T"}
    sctx = copy.deepcopy(ctx)
    sctx["stageEnabled"] = {"type": "expression", "expression": text}
    before = copy.deepcopy(sctx)
    st.context = sctx
    try:
        sk["skip"] = "T" if h["skip"]._should_skip(st) else "F"
    except BaseException as e:  # noqa: BLE001
        if isinstance(e, (KeyboardInterrupt, SystemExit)):
            raise
        sk["kind"], sk["exc"], sk["tb_site"] = "other", type(e).__name__, escape_site(e, text)
    sk["pure"] = "T" if _same(before, st.context) else "F"
    sp = {"kind": "value", "act0": [], "act1": [], "exc": "", "pure": "T"}
    pctx = copy.deepcopy(ctx)
    before = copy.deepcopy(pctx)
    up.context = pctx
    try:
        for key, conds in (("act0", {"d1": text, "d2": "0"}), ("act1", {"d1": text})):
            up.split_conditions = conds
            act, skipped = h["split"]._apply_split_logic(up, [d1, d2])
            sp[key] = sorted({"d1": 1, "d2": 2}[x.ref_id] for x in act)
            if sorted(x.ref_id for x in act + skipped) != ["d1", "d2"]:
                sp[key] = [0]
    except BaseException as e:  # noqa: BLE001
        if isinstance(e, (KeyboardInterrupt, SystemExit)):
            raise
        sp["kind"], sp["exc"], sp["tb_site"] = "other", type(e).__name__, escape_site(e, text)
    sp["pure"] = "T" if _same(before, pctx) else "F"
    return sk, sp


def _expr_chunk(arg) -> dict:
    """Replay one chunk of enumerated cases.  Returns counters, and every observation that is not
    EXACTLY what MC_Expr predicted (to be judged by Obs_Expr)."""
    bodies, ctxs_enc, engine_every = arg
    warnings.simplefilter("ignore")
    ctxs = [{dec_value(["S", list(k)]): dec_value(v) for k, v in (c.items() if isinstance(c, dict) else [])} for c in ctxs_enc]
    res = {"asts": 0, "cases": 0, "engine_cases": 0, "suspects": [], "classes": {}, "samples": [], "render_err": [],
           "lookup": {}}
    for body in bodies:
        depth, a, preds, skips, splits = _unq(body)
        if depth <= 1:
            key = json.dumps(a, separators=(",", ":"))
            if key in REAL_KEYS:        # the specification's decisions under Ctx2, for the real workflow runs
                res["lookup"][key] = (bool(skips[1]), sorted(splits[1][0]))
        try:
            text = render(a)
        except Exception as e:  # noqa: BLE001
            res["render_err"].append(str(e)[:300])
            continue
        res["asts"] += 1
        for ci, ctx0 in enumerate(ctxs):
            pred = preds[ci]
            cls = a[0] + ":" + ("E." + pred[1] if pred[0] == "E" else "value")
            res["classes"][cls] = res["classes"].get(cls, 0) + 1
            ctx = copy.deepcopy(ctx0)
            o = eval_observe(text, ctx)
            res["cases"] += 1
            if _CORRUPT == "expr" and text in ("not x", "[1]") and o["kind"] == "value":
                # binding self-test: pretend the code answered differently (falsy -> violation; other value -> drift)
                o["v"] = ["B", not o["v"][1]] if text == "not x" else ["L", [["I", 0]]]
            exact = (o["pure"] == "T" and ((pred[0] == "E" and o["kind"] == "experr") or
                                          (pred[0] != "E" and o["kind"] == "value" and canon(o["v"]) == canon(pred))))
            if not exact:
                res["suspects"].append({"what": "eval", "ast": a, "ctx": ci + 1, "text": text, "pred": pred, **o})
            if len(res["samples"]) < 2 and res["asts"] % 97 == 3:
                res["samples"].append({"text": text, "ctx": ci + 1, "predicted": pred, "observed": o})
            # engine call sites: every case of depth <= 1, every case at the two defect sites, every error-class
            # case in quick (a 1/3 sample of them in thorough), and every engine_every-th remaining AST
            if depth <= 1 or (pred[0] == "E" and (pred[1] in DEFECT_SITES or engine_every <= 7 or res["asts"] % 3 == 0)) \
                    or (res["asts"] % engine_every == 0):
                sk, sp = engine_observe(text, ctx0)
                res["engine_cases"] += 2
                if not (sk["kind"] == "value" and sk["pure"] == "T" and (sk["skip"] == "T") == bool(skips[ci])):
                    res["suspects"].append({"what": "skip", "ast": a, "ctx": ci + 1, "text": text,
                                            "pred": pred, "pred_skip": skips[ci], **sk})
                if not (sp["kind"] == "value" and sp["pure"] == "T" and sp["act0"] == sorted(splits[ci][0])
                        and sp["act1"] == sorted(splits[ci][1])):
                    res["suspects"].append({"what": "split", "ast": a, "ctx": ci + 1, "text": text,
                                            "pred": pred, "pred_split": splits[ci], **sp})
    return res


def expr_runs(tier: str, seed: int) -> list[dict]:
    """MC_Expr configurations.  Levels 0-1 are complete in every run.
    quick   : level 2 = spines over the core leaves, one checksum class of 20 (picked by the seed).
    thorough: run A - level 2 complete for spines over the core leaves, level 3 = one class of 1200;
              runs B - level 2 for ALL level-1 spines, two checksum classes of 8 (rotating with the seed)."""
    if tier == "quick":
        return [{"MaxDepth": 2, "FullFrom": 1, "SampleMod": 20, "Seed": seed}]
    runs = [{"MaxDepth": 3, "FullFrom": 1, "SampleMod": 1200, "Seed": seed}]
    runs += [{"MaxDepth": 2, "FullFrom": 2, "SampleMod": 8, "Seed": (seed + k) % 8} for k in range(2)]
    return runs


def _run_mc_expr(consts: dict) -> tlc.TLCResult:
    rd = tlc.new_rundir("c20-expr")
    try:
        cfg = "CONSTANTS\n" + "".join(f"  {k} = {v}\n" for k, v in consts.items()) + \
            "INIT Init\nNEXT Next\nINVARIANT Export\nCHECK_DEADLOCK FALSE\n"
        return _run_tlc(rd, "MC_Expr", cfg, workers=16, extra=["-coverage", "1"], timeout=2400)
    finally:
        shutil.rmtree(rd, ignore_errors=True)


DEFECT_SITES = ("usub_nonnumeric", "unhashable_key")
EXPR_VIOL = {"C20_Total", "C20_Pure", "C20_NoCrash", "C20_SameBranch", "C20_SkipDecision", "C20_SplitDecision"}
NEED_CLASSES = ["name:value", "const:value", "attr:value", "sub:value", "sub:E.unhashable_key", "slice:E.unsupported_node",
                "cmp:value", "cmp:E.compare_type", "bool:value", "un:value", "un:E.usub_nonnumeric",
                "un:E.unsupported_unary", "if:value", "list:value", "tuple:value", "unsup:E.unsupported_node"]


def expr_part(tier: str, seed: int, rep: evidence.Reporter, pool, first=None) -> dict:
    """`first`: future of the already started MC_Expr run for expr_runs(...)[0] (overlaps the graph part)."""
    runs = expr_runs(tier, seed)
    tot = {"asts": 0, "cases": 0, "engine_cases": 0, "mc_states": 0, "mc_transitions": 0, "mc_wall_s": 0.0,
           "grow_states": 0, "replay_wall_s": 0.0}
    classes: dict[str, int] = {}
    suspects: list[dict] = []
    samples: list[dict] = []
    lookup: dict = {}
    seen_depth1 = False
    ctxs_enc = None
    engine_every = 7 if tier == "quick" else 11
    with ThreadPoolExecutor(max_workers=1) as ex:
        fut = first if first is not None else ex.submit(_run_mc_expr, runs[0])
        for k, consts in enumerate(runs):
            r = fut.result()
            if k + 1 < len(runs):
                fut = ex.submit(_run_mc_expr, runs[k + 1])
            bad = _tlc_failed(r)
            if bad:
                rep.machinery_failure("MC_Expr %s: %s" % (consts, bad))
                return {}
            _dbg("MC_Expr %s done %.1fs" % (consts, r.wall))
            bodies = CASE_RE.findall(r.out)
            _dbg("parsed %d bodies" % len(bodies))
            if len(bodies) != r.distinct:
                rep.machinery_failure(f"MC_Expr exported {len(bodies)} cases for {r.distinct} distinct states")
                return {}
            m = CTXS_RE.search(r.out)
            ctxs_enc = _unq(m.group(1))
            if seen_depth1:     # levels 0 and 1 are the same in every run: replay them once
                bodies = [b for b in bodies if not b.startswith(("[0,", "[1,"))]
            seen_depth1 = True
            tot["mc_states"] += r.distinct
            tot["mc_transitions"] += r.generated
            tot["mc_wall_s"] += r.wall
            tot["grow_states"] += _action_cov(r, ["Grow"])["Grow"]
            t0 = time.time()
            step = 1000
            args = [(bodies[i:i + step], ctxs_enc, engine_every) for i in range(0, len(bodies), step)]
            for res in pool.imap_unordered(_expr_chunk, args):
                if res["render_err"]:
                    rep.machinery_failure("rendering: " + res["render_err"][0])
                for kk in ("asts", "cases", "engine_cases"):
                    tot[kk] += res[kk]
                for c, n in res["classes"].items():
                    classes[c] = classes.get(c, 0) + n
                suspects.extend(res["suspects"])
                lookup.update(res["lookup"])
                if len(samples) < 4:
                    samples.extend(res["samples"][:1])
            tot["replay_wall_s"] += time.time() - t0
            _dbg("replayed; suspects so far %d" % len(suspects))
            del r, bodies, args
    for need in NEED_CLASSES:
        if not classes.get(need):
            rep.machinery_failure("vacuity: no enumerated case of class " + need)
    out = dict(tot)
    out["mc_wall_s"] = round(out["mc_wall_s"], 1)
    out["replay_wall_s"] = round(out["replay_wall_s"], 1)
    out.update({"runs": runs, "contexts": 3, "case_classes": dict(sorted(classes.items())), "samples": samples,
                "suspects_sent_to_TLC": len(suspects)})
    ctx2 = {dec_value(["S", list(k)]): dec_value(v) for k, v in ctxs_enc[1].items()}
    return out | {"_suspects": suspects, "_lookup": lookup, "_ctx2": ctx2}


# --------------------------------------------------------------------------------------------------
# texts outside the grammar (Total / Pure only)
# --------------------------------------------------------------------------------------------------
def nesting_of(text: str) -> int:
    """Syntactic nesting measure of a generated text: longest run of one repeated prefix/suffix
    operator token or bracket depth (used only in finding signatures)."""
    best = depth = 0
    for ch in text:
        if ch in "([{":
            depth += 1
            best = max(best, depth)
        elif ch in ")]}":
            depth = max(0, depth - 1)
    for tok in ("not ", "-", "+", "~", ".a", "[0]", "+1", " if 1 else 1", "await "):
        m = max((len(x.group(0)) // len(tok) for x in re.finditer("(?:%s)+" % re.escape(tok), text)), default=0)
        best = max(best, m)
    return best


def fuzz_texts(tier: str, seed: int) -> list[dict]:
    from hypothesis import HealthCheck, Phase, given, settings
    from hypothesis import seed as hseed
    from hypothesis import strategies as st

    rnd = random.Random(seed * 104729 + 7)
    out: list[dict] = []

    def add(family, text):
        out.append({"family": family, "text": text})

    n_hyp = 1500 if tier == "quick" else 20000
    atoms = ["x", "y", "d", "s", "1", "0", "'a'", "None", "True", "[1]", "(1,)", "d.k", "y[0]", "{}", "f(x)", "x+1",
             "lambda: x", "...", "1.5", "b'a'", "1j", "-x", "not x", "\x00", "\ud800", "x if y else s", "*x", "x:=1"]
    glue = [" ", " < ", " == ", " in ", " not in ", " is ", " and ", " or ", ",", ".", "[", "]", "(", ")", " if ", " else ",
            "\n", "\t", "\\", "#", ";", ":", "'", '"']
    chars = st.text(alphabet=st.characters(), max_size=60)                      # any unicode incl. surrogates, NUL
    expr_like = st.lists(st.one_of(st.sampled_from(atoms), st.sampled_from(glue)), max_size=14).map("".join)
    pythonish = st.text(alphabet="xyds01'\"[](){}.,:<>=!+-*/%~ \t\nandortifelsINo\\\x00", max_size=40)
    got: list[str] = []

    @hseed(seed)
    @settings(max_examples=n_hyp, database=None, deadline=None, derandomize=False,
              suppress_health_check=list(HealthCheck), phases=[Phase.generate])
    @given(st.one_of(chars, expr_like, pythonish))
    def collect(s):
        got.append(s)

    collect()
    for s in got:
        add("lone_surrogate" if any(0xD800 <= ord(c) <= 0xDFFF for c in s) else "hypothesis_text", s)
    # deep nesting families
    depths = [50, 150, 400, 900, 1500, 3000, 6000] if tier == "quick" else [20, 50, 90, 150, 250, 400, 600, 900, 1200, 1500, 2500, 4000, 6000, 12000]
    for d in depths:
        dd = d + rnd.randint(0, 9)
        for fam, txt in (("not", "not " * dd + "x"), ("neg", "-" * dd + "1"), ("paren", "(" * dd + "x" + ")" * dd),
                         ("list", "[" * dd + "]" * dd), ("attr", "x" + ".a" * dd), ("sub", "y" + "[0]" * dd),
                         ("binop", "1" + "+1" * dd), ("ifexp", "x" + " if 1 else 1" * dd), ("call", "f(" * dd + ")" * dd),
                         ("cmpnest", "(" * dd + "1" + "<1)" * dd), ("tuple", "(" * dd + "1" + ",)" * dd)):
            add("deep_nesting", txt)
    # long but flat
    for n in ([2000, 20000] if tier == "quick" else [2000, 20000, 200000]):
        add("long_flat", " and ".join(["x"] * n))
        add("long_flat", " < ".join(["1"] * n))
        add("long_flat", "[" + ",".join(["1"] * n) + "]")
        add("long_flat", "'" + "a" * n + "' in s")
        add("long_flat", "9" * n)
        add("long_flat", "x" * n)
        add("long_flat", " " * n)
        add("long_flat", " " * n + "x")
    # NUL, surrogates, odd whitespace and encodings
    for t in ["\x00", "x\x00y", "'\x00' in s", "x == '\x00'", "\ud800", "x == '\ud800'", "'\udcff' in s", "x\udfff",
              "﻿x", "x\r\n", "\x0cx", "x # c", "x \\\n == 2", "x == 2\\", "", "   ", "\n", "\t\n ", "#", "\\",
              "x;y", "x = 1", "import os", "yield", "yield x", "await x", "return", "del x", "x:", ":=", "(x:=1)",
              "*x", "**d", "1e999", "1e999 < 1", "1_000", "0x10", "0o7", "0b1", "1.", ".5", "1j", "10**10**10",
              "'a'*10**9", "[1]*10**9", "1<<10**9", "b'a' < 'a'", "... < 1", "...", "{**d}", "{*y}", "[*y]", "(*y,)",
              "f'{x}'", "f'{x!r:>{y}}'", "f'{x", "'''a", "'a", "\"", "x[", "x[]", "x[:]", "x[::]", "x[1:2:3]", "x[1,]",
              "d[...]", "x.", ".x", "x..y", "x.1", "1.real", "(1).real", "x.__class__", "x.__class__.__mro__",
              "().__class__.__bases__[0].__subclasses__()", "__import__('os').system('true')", "__builtins__",
              "eval('1')", "exec('1')", "open('/etc/passwd')", "globals()", "lambda: 0", "(lambda: 0)()",
              "[q for q in y]", "{q for q in y}", "{q: q for q in y}", "(q for q in y)", "[q async for q in y]",
              "x if y", "if x", "x else y", "not", "and", "x and", "or x", "x < ", "< x", "x <> y", "x === y",
              "x => y", "x ? y : s", "x && y", "x || y", "!x", "x != != y", "x is is y", "x not y", "x in", "in x",
              "TRUE", "FALSE", "True", "False", " true ", "tRuE", "1", " 1", "0", "00", "01", "1 ", "0.0", "null",
              "none", "None", "nil", "undefined", "NaN", "nan", "inf", "-inf", "- 1", "--1", "-+-1", "~1", "+x", "~x",
              "-None", "-'a'", "-[1]", "-(1,)", "-d", "-x", "-y", "-s", "-nosuch", "d[[1]]", "d[y]", "d[{}]", "d[d]",
              "d[[1],]", "d[(1,[2])]", "{}[[]]", "d[y[:]]", "x[[1]]", "y[[0]]", "y['a']", "y[None]", "y[1.5]",
              "y[10**30]", "y[-10**30]", "s[0]", "s[-1]", "d['k']", "d.k", "d.k.a", "d['k']['a']", "d.nosuch.deeper"]:
        add("lone_surrogate" if any(0xD800 <= ord(c) <= 0xDFFF for c in t) else "handwritten", t)
    # "never executes code": the context holds a callable that records being invoked
    for t in ["trap()", "trap.__call__()", "[trap() for q in [1]]", "(lambda: trap())()", "f'{trap()}'",
              "trap() if 1 else 0", "x if trap() else y", "trap() and 1", "[trap()]", "d[trap()]", "-trap()",
              "trap() < 1", "1 in trap()", "trap", "trap.attr", "trap[0]", "trap == trap", "not trap", "-trap",
              "trap < 1", "1 in trap", "trap in [1]", "trap in d"]:
        add("trap", t)
    return out


class Trap:
    calls = 0

    def __call__(self, *a, **k):
        Trap.calls += 1
        return 1

    def __eq__(self, o):
        return self is o

    def __hash__(self):
        return 1


def _fuzz_chunk(items: list[dict]) -> list[dict]:
    sys.setrecursionlimit(1000)
    warnings.simplefilter("ignore")      # ast.parse reports SyntaxWarning for some texts
    res = []
    ctxs = [{}, {"x": 2, "y": [1, "a"], "s": "ab", "d": {"k": 1, "a": None}},
            {"x": "a", "y": (2, [1]), "s": "", "d": {1: "b", "k": {"a": True}, (1, 2): []}}]
    for it in items:
        for ci, c0 in enumerate(ctxs):
            ctx = copy.deepcopy(c0)
            if it["family"] == "trap":
                ctx["trap"] = Trap()
                Trap.calls = 0
            o = eval_observe(it["text"], ctx)
            if it["family"] == "trap":
                tr = ctx.pop("trap", None)
                o["pure"] = "T" if (_same(c0, ctx) and Trap.calls == 0 and isinstance(tr, Trap)) else "F"
            sk, sp = engine_observe(it["text"], {k: v for k, v in c0.items() if not isinstance(k, tuple)})
            res.append({"what": "fuzz", "family": it["family"], "text": it["text"] if len(it["text"]) <= 300 else None,
                        "gen": None if len(it["text"]) <= 300 else {"head": it["text"][:40], "len": len(it["text"])},
                        "nesting": nesting_of(it["text"][:200000]), "ctx": ci + 1, "kind": o["kind"], "exc": o["exc"],
                        "pure": o["pure"], "tb_site": o.get("tb_site", ""), "skip_kind": sk["kind"], "skip_exc": sk["exc"],
                        "skip_site": sk.get("tb_site", ""), "split_kind": sp["kind"], "split_exc": sp["exc"],
                        "split_site": sp.get("tb_site", ""), "_full": it["text"] if len(it["text"]) > 300 and o["kind"] == "other" else None})
    return res


# --------------------------------------------------------------------------------------------------
# a real (tiny) workflow run per error class: the malformed condition must not wedge the stage
# --------------------------------------------------------------------------------------------------
def real_workflow(split_text: str | None, enabled_text: str | None, ctx: dict) -> dict:
    """a -> b : `a` OR-splits on split_text (if given), b carries stageEnabled=enabled_text (if given).
    Real SqliteWorkflowStore / SqliteQueue / QueueProcessor.process_one until quiet."""
    from stabilize import QueueProcessor, SqliteQueue, SqliteWorkflowStore, Task, TaskRegistry, TaskResult
    from stabilize.models.stage import SplitType, StageExecution
    from stabilize.models.task import TaskExecution
    from stabilize.models.workflow import Workflow
    from stabilize.queue.messages import StartWorkflow
    from stabilize.queue.processor.config import QueueProcessorConfig

    class Ok(Task):
        def execute(self, stage):
            return TaskResult.success(outputs={})

    d = core.scratch_dir("c20-wf")
    try:
        core.reset_volatile()
        cs = "sqlite:///" + os.path.join(d, "w.db")
        store = SqliteWorkflowStore(cs, create_tables=True)
        queue = SqliteQueue(cs)
        queue._create_table()
        reg = TaskRegistry()
        reg.register("ok", Ok())

        def task(n):
            return TaskExecution.create(name=n, implementing_class="ok", stage_start=True, stage_end=True)

        a = StageExecution(ref_id="a", name="a", type="t", context=copy.deepcopy(ctx), tasks=[task("ta")])
        if split_text is not None:
            a.split_type = SplitType.OR
            a.split_conditions = {"b": split_text, "c": "0"}
        bctx = copy.deepcopy(ctx)
        if enabled_text is not None:
            bctx["stageEnabled"] = {"type": "expression", "expression": enabled_text}
        b = StageExecution(ref_id="b", name="b", type="t", context=bctx, tasks=[task("tb")], requisite_stage_ref_ids={"a"})
        c = StageExecution(ref_id="c", name="c", type="t", context={}, tasks=[task("tc")], requisite_stage_ref_ids={"a"})
        wf = Workflow.create("app", "wf", [a, b, c])
        store.store(wf)
        with store.transaction(queue) as txn:
            txn.push_message(StartWorkflow(execution_type=wf.type.value, execution_id=wf.id))
        bm, cf = core.shared_resilience()
        cfg = QueueProcessorConfig.from_handler_config(None)
        cfg.enable_lock_heartbeat = False
        proc = QueueProcessor(queue, config=cfg, store=store, task_registry=reg, bulkhead_manager=bm, circuit_factory=cf)
        raw = core.raw_connect(os.path.join(d, "w.db"))
        crashed = []
        for _ in range(200):
            raw.execute("UPDATE queue_messages SET deliver_at='2000-01-01T00:00:00+00:00', locked_until=NULL")
            try:
                if not proc.process_one():
                    break
            except Exception as e:  # noqa: BLE001  the handler let it escape: the message is retried for ever
                crashed.append(type(e).__name__)
                if len(crashed) >= 3:
                    break
        got = store.retrieve(wf.id)
        raw.close()
        return {"workflow": got.status.name, "stages": {s.ref_id: s.status.name for s in got.stages},
                "handler_exceptions": crashed}
    finally:
        core.reset_volatile()
        shutil.rmtree(d, ignore_errors=True)


def classify_expr(o: dict, failed: list[tuple[str, str]]) -> tuple | None:
    """Group key of one TLC-judged observation, or None when only exact conformance failed (drift)."""
    names = [f for f, _ in failed]
    hard = [f for f in names if f in EXPR_VIOL]
    if not hard:
        return None
    in_grammar = o.get("family") is None
    # in the grammar the site is the SPECIFICATION's; outside it is read off the traceback
    site = next((s for _, s in failed if s), "") if in_grammar else (o.get("tb_site") or o.get("family", ""))
    exc = o.get("exc") or ""
    formula = "C20_Total" if "C20_Total" in hard else hard[0]
    return (o["what"], formula, site, exc, "inside" if in_grammar else "outside")


def judge_expr(rep: evidence.Reporter, suspects: list[dict], fuzz: list[dict]) -> dict:
    def enc_of(what, o, ast_):
        return {"what": what, "ast": ast_, "ctx": o["ctx"], "kind": o["kind"], "pure": o["pure"],
                "truthy": o.get("truthy", "F"), "v": o.get("v", ["N"]), "skip": o.get("skip", "F"), "act0": o.get("act0", []), "act1": o.get("act1", [])}

    enc, src = [], []
    for o in suspects:
        enc.append(enc_of(o["what"], o, o["ast"]))
        src.append(o)
    for o in fuzz:
        enc.append(enc_of("fuzz", o, ["name", "x"]))
        src.append(o)
        # the engine call sites on the same text: a foreign exception escaping them is a crash
        for site in ("skip", "split"):
            if o[site + "_kind"] == "other":
                so = {**o, "what": site, "exc": o[site + "_exc"], "kind": "other", "tb_site": o[site + "_site"], "pure": "T"}
                enc.append(enc_of(site, so, ["name", "x"]))
                src.append(so)
    fails, jst, err = judge("Obs_Expr", enc, "", shards=4)
    if err:
        rep.machinery_failure("Obs_Expr: " + err)
        return {}
    groups: dict[tuple, list[dict]] = {}
    ndrift = 0
    for idx, fl in sorted(fails.items()):
        key = classify_expr(src[idx], fl)
        if key is None:
            ndrift += 1
        else:
            groups.setdefault(key, []).append({**src[idx], "failed": [f for f, _ in fl]})
    for key, items in sorted(groups.items()):
        what, formula, site, exc, where = key
        o = items[0]
        shown = o.get("text") if o.get("text") is not None else repr(o.get("gen"))
        text = (f"{formula} false for {len(items)} observation(s) of `{what}` ({where} the grammar), escaping exception "
                f"{exc or '-'} at site {site or '-'}; first: {shown!r} ctx#{o.get('ctx')} -> kind={o.get('kind')} "
                f"v={o.get('v')} pure={o.get('pure')}, specification predicted {o.get('pred')}")
        rep.violation(text, {"part": "expr", "formula": formula, "exc": exc, "site": site, "what": what,
                             "nesting": min(int(x.get("nesting", 0)) for x in items)},
                      {"kind": "expr", "obs": {k: v for k, v in o.items() if not k.startswith("_")},
                       "full_text": o.get("_full"), "count": len(items),
                       "more": [{k: x.get(k) for k in ("text", "gen", "ctx", "kind", "exc", "nesting")} for x in items[1:6]]})
    unexplained = [o for i, o in enumerate(src[:len(suspects)]) if i not in fails]
    if unexplained:
        rep.machinery_failure("replay differs from MC_Expr's prediction but Obs_Expr accepts it: %r" % unexplained[0])
    return {"judged_observations": len(enc), "judge_states": jst["states"], "judge_transitions": jst["transitions"],
            "judge_wall_s": round(jst["wall"], 1), "judge_Step_states": jst["steps_covered"],
            "failed_observations": sum(len(v) for v in groups.values()), "drift": ndrift,
            "failed_groups": {"/".join(k): len(v) for k, v in sorted(groups.items())}}


REAL_CASES = [  # (label, text, spec site or "" ) under Ctx2; expected statuses come from the specification's
    # ShouldSkip / SplitActivated exported for the same AST (looked up among the enumerated cases)
    ("usub_nonnumeric", ["un", "neg", ["name", "s"]]),
    ("unhashable_key", ["sub", ["name", "d"], ["name", "y"]]),
    ("compare_type", ["cmp", ["name", "x"], ["Lt"], [["name", "s"]]]),
    ("unsupported_node", ["unsup", "call", [["name", "x"]]]),
    ("unsupported_unary", ["un", "inv", ["name", "x"]]),
    ("truthy", ["cmp", ["name", "x"], ["Eq"], [["const", ["I", 2]]]]),
    ("falsy", ["cmp", ["name", "x"], ["Eq"], [["const", ["I", 1]]]]),
]


REAL_KEYS = {json.dumps(a, separators=(",", ":")) for _, a in REAL_CASES}


def real_part(rep: evidence.Reporter, lookup: dict, ctx2: dict) -> dict:
    """Tiny real workflow runs.  Expected stage statuses follow from the specification's decisions."""
    runs = []
    for label, a in REAL_CASES:
        key = json.dumps(a, separators=(",", ":"))
        if key not in lookup:
            rep.machinery_failure("real-run case %s was not enumerated by MC_Expr" % label)
            continue
        skip2, split2 = lookup[key]     # ShouldSkip(ast, Ctx2), SplitActivated(<<ast, "0">>, Ctx2)
        text = render(a)
        for mode in ("enabled", "split"):
            if mode == "enabled":
                got = real_workflow(None, text, ctx2)
                want_b = "SKIPPED" if skip2 else "SUCCEEDED"
            else:
                got = real_workflow(text, None, ctx2)
                want_b = "SUCCEEDED" if 1 in split2 else "SKIPPED"
            ok = (got["workflow"] == "SUCCEEDED" and got["stages"].get("b") == want_b and not got["handler_exceptions"])
            runs.append({"case": label, "mode": mode, "text": text, "expected_b": want_b, **got, "ok": ok})
            if not ok:
                exc = got["handler_exceptions"][0] if got["handler_exceptions"] else ""
                rep.violation(f"real workflow, {mode} condition {text!r}: expected b={want_b} and workflow SUCCEEDED; "
                              f"got {got}",
                              {"part": "expr", "formula": "C20_NoCrash", "exc": exc, "site": label, "what": "workflow"},
                              {"kind": "workflow", "mode": mode, "ast": a, "text": text, "expected_b": want_b})
    return {"real_workflow_runs": len(runs), "real_workflow_ok": sum(1 for r in runs if r["ok"]),
            "real_workflow_samples": [r for r in runs if not r["ok"]][:3] + [r for r in runs if r["ok"]][:2]}


# ==================================================================================================
def run(pid: str, tier: str, seed: int) -> int:
    t0 = time.time()
    rep = evidence.Reporter(pid)
    corrupt = _CORRUPT
    ctxm = get_context("fork")
    cov: dict = {}
    with ctxm.Pool(NPROC) as pool, ThreadPoolExecutor(max_workers=1) as early:
        first = early.submit(_run_mc_expr, expr_runs(tier, seed)[0])     # MC_Expr runs while the graphs are replayed
        g = graph_part(tier, seed, rep, pool, corrupt == "graph")
        cov["graph"] = g
        _dbg("graph part done")
        e = expr_part(tier, seed, rep, pool, first)
        suspects = e.pop("_suspects", [])
        lookup, ctx2 = e.pop("_lookup", {}), e.pop("_ctx2", {})
        cov["expr"] = e
        _dbg("expr enumeration + replay done")
        fz = fuzz_texts(tier, seed)
        _dbg("fuzz texts generated: %d" % len(fz))
        fobs: list[dict] = []
        for part in pool.imap_unordered(_fuzz_chunk, [fz[i:i + 40] for i in range(0, len(fz), 40)]):
            fobs.extend(part)
        fams: dict[str, int] = {}
        for o in fobs:
            fams[o["family"]] = fams.get(o["family"], 0) + 1
        cov["fuzz"] = {"texts": len(fz), "observations": len(fobs), "families": fams}
        _dbg("fuzz replay done")
    if not rep.machinery:
        j = judge_expr(rep, suspects, fobs)
        cov["expr"].update(j)
        _dbg("Obs_Expr judged")
        # real workflow runs; the expected stage statuses are the specification's decisions for those ASTs
        cov["real"] = real_part(rep, lookup, ctx2)
    wall = time.time() - t0
    ge, ee = cov.get("graph") or {}, cov.get("expr") or {}
    states = ge.get("mc_states", 0) + ge.get("judge_states", 0) + ee.get("mc_states", 0) + ee.get("judge_states", 0)
    trans = ge.get("mc_transitions", 0) + ge.get("judge_transitions", 0) + ee.get("mc_transitions", 0) + ee.get("judge_transitions", 0)
    replayed = ge.get("enumerated_graphs", 0) + ge.get("random_graphs", 0) + ee.get("cases", 0) + ee.get("engine_cases", 0) + \
        (cov.get("fuzz") or {}).get("observations", 0)
    samples = (ge.get("samples") or [])[:3] + (ee.get("samples") or [])[:3]
    coverage = {"states": states, "transitions": trans, "traces_validated_against_impl": replayed,
                "samples": samples, "exhaustive": True,
                "exhaustive_scope": "every stage list / AST of the stated bound (see graph.bound, expr.runs); the random graphs and strings beyond it are samples",
                "known_findings_hit": dict(rep.known_hits), **cov}
    evidence.write_evidence(pid, tier, seed, "model_checking", coverage, wall, violations=len(rep.violations),
                            assumptions=["`is` / `is not` are enumerated with a singleton constant on the right only (identity of "
                                         "other values is implementation defined)",
                                         "strings over the letters a,b,k; integers small; no floats / bytes in the grammar "
                                         "(they occur in the out-of-grammar texts, judged for Total and Pure only)"])
    print(f"C20 {tier}: graphs {ge.get('enumerated_graphs', 0)}+{ge.get('random_graphs', 0)} "
          f"expr ASTs {ee.get('asts', 0)} cases {ee.get('cases', 0)} engine-site cases {ee.get('engine_cases', 0)} "
          f"fuzz obs {(cov.get('fuzz') or {}).get('observations', 0)} states {states} wall {wall:.0f}s "
          f"violations {len(rep.violations)} known {sum(rep.known_hits.values())} drift {ge.get('drift', 0) + ee.get('drift', 0)}")
    return rep.finish()


def replay(pid: str, path: str) -> int:
    """Re-run one recorded case on the current tree; the verdict is again TLC's (Obs_Graph / Obs_Expr)."""
    doc = json.load(open(path))
    doc = doc.get("replay", doc)
    rep = evidence.Reporter(pid)
    rep.findings = []          # a replay reports what it sees
    if doc["kind"] == "graph":
        # the order inside one Kahn round follows set iteration over fresh random stage ids: observe 24 times
        many = [graph_observe(doc["g"]) for _ in range(24)]
        letters = sorted({x for st in many[0]["g"] for x in [st[0], *st[1]]}) or ["r1"]
        slim = [{k: o[k] for k in ("g", "created", "kind", "sorted", "order", "sortexc", "layers")} for o in many]
        fails, _, err = judge("Obs_Graph", slim, "CONSTANTS\n  Refs = {%s}\n" % ", ".join('"%s"' % x for x in letters))
        if err:
            print("MACHINERY-FAILURE:", err)
            return 2
        bad = sorted({f for fl in fails.values() for f, _ in fl if f in GRAPH_VIOL})
        first = min(fails) if fails else 0
        o = many[first]
        print("replayed graph (24 observations)", o["g"], "->", {k: o[k] for k in ("created", "kind", "order")},
              "false formulas:", sorted({f for fl in fails.values() for f, _ in fl}), "in", len(fails), "observation(s)")
        if bad:
            print(f"VIOLATION property={pid} replay={path}")
            return 1
        return 0
    if doc["kind"] == "workflow":
        ctx2 = doc.get("ctx") or {"x": 2, "y": [1, "a"], "s": "ab", "d": {"k": 1, "a": None}}
        got = real_workflow(doc["text"] if doc["mode"] == "split" else None,
                            doc["text"] if doc["mode"] == "enabled" else None, ctx2)
        ok = got["workflow"] == "SUCCEEDED" and got["stages"].get("b") == doc["expected_b"] and not got["handler_exceptions"]
        print("replayed workflow", doc["mode"], repr(doc["text"]), "->", got, "expected b =", doc["expected_b"])
        if not ok:
            print(f"VIOLATION property={pid} replay={path}")
            return 1
        return 0
    o = doc["obs"]
    text = doc.get("full_text") or o.get("text")
    if text is None:
        print("MACHINERY-FAILURE: the replay file does not hold the text")
        return 2
    if o["what"] == "fuzz" or "ast" not in o:
        new = _fuzz_chunk([{"family": o.get("family", "handwritten"), "text": text}])
        new = [n for n in new if n["ctx"] == o["ctx"]]
        enc_obs, src = [], []
        for n in new:
            if o["what"] == "fuzz":
                enc_obs.append({"what": "fuzz", "ast": ["name", "x"], "ctx": n["ctx"], "kind": n["kind"], "pure": n["pure"],
                                "truthy": "F", "v": ["N"], "skip": "F", "act0": [], "act1": []})
            else:
                enc_obs.append({"what": o["what"], "ast": ["name", "x"], "ctx": n["ctx"], "kind": n[o["what"] + "_kind"],
                                "pure": "T", "truthy": "F", "v": ["N"], "skip": "F", "act0": [], "act1": []})
            src.append(n)
    else:
        ctxs = _load_ctxs()
        ctx = copy.deepcopy(ctxs[o["ctx"] - 1])
        if o["what"] == "eval":
            n = eval_observe(render(o["ast"]), ctx)
        else:
            sk, sp = engine_observe(render(o["ast"]), ctx)
            n = sk if o["what"] == "skip" else sp
        enc_obs = [{"what": o["what"], "ast": o["ast"], "ctx": o["ctx"], "kind": n["kind"], "pure": n["pure"],
                    "truthy": n.get("truthy", "F"), "v": n.get("v", ["N"]), "skip": n.get("skip", "F"), "act0": n.get("act0", []), "act1": n.get("act1", [])}]
        src = [n]
    fails, _, err = judge("Obs_Expr", enc_obs, "")
    if err:
        print("MACHINERY-FAILURE:", err)
        return 2
    bad = [f for fl in fails.values() for f, _ in fl if f in EXPR_VIOL]
    print("replayed", o["what"], repr(text)[:200], "ctx#%s" % o["ctx"], "->", [{k: s.get(k) for k in ("kind", "exc", "v", "pure", "skip", "act0", "act1", "skip_exc", "split_exc") if s.get(k) not in (None, "")} for s in src],
          "false formulas:", sorted({f for fl in fails.values() for f, _ in fl}))
    if bad:
        print(f"VIOLATION property={pid} replay={path}")
        return 1
    return 0


def _load_ctxs() -> list[dict]:
    """The contexts of the specification (exported by MC_Expr; a depth-0 run takes ~2 s)."""
    r = _run_mc_expr({"MaxDepth": 0, "FullFrom": 0, "SampleMod": 1, "Seed": 0})
    m = CTXS_RE.search(r.out)
    if not m:
        raise RuntimeError("MC_Expr did not export its contexts:\n" + r.out[-1500:])
    return [{dec_value(["S", list(k)]): dec_value(v) for k, v in (c.items() if isinstance(c, dict) else [])}
            for c in _unq(m.group(1))]
