---------------------------- MODULE MC_DataFlow ----------------------------
(***************************************************************************)
(* Model-checking root for DataFlow: every program of the batch            *)
(* (IOEnv.DF_CASES) is explored from its own initial state; TLC enumerates *)
(* every stage order, every tie-break of Kahn's queue (= every iteration   *)
(* order of the Python sets) and every loop iteration.                     *)
(*  - the Thm* invariants of DataFlow are checked in every state;          *)
(*  - every FinishPlan step is an OBSERVATION the model predicts           *)
(*    (program, stage, ordinal of the execution, view); it is recorded in  *)
(*    register 1 and judged by Failed(); false formulas go to register 2   *)
(*    WITHOUT halting, so one run lists every predicted failure.           *)
(* Run with -workers 1 (registers); the harness runs several batches in    *)
(* parallel.  Results are written to IOEnv.DF_OUT as JSON.                 *)
(***************************************************************************)
EXTENDS DataFlow, TLCExt, SequencesExt

MCInit == \E c \in 1 .. Len(Cases) : DInit(c)
(* DNext split into named disjuncts so that -coverage reports every kind of step *)
NextTask(s) == TasksOf(s)[tix[s] + 1]
StepStartStage == \E s \in Stages : StartStage(s)
StepRunTask    == \E s \in Stages : st[s] = "RUN" /\ ~Jumping(s, NextTask(s)) /\ RunTask(s)
StepJump       == \E s \in Stages : st[s] = "RUN" /\ Jumping(s, NextTask(s)) /\ RunTask(s)
MCNext == StepStartStage \/ KahnStep \/ FinishPlan \/ StepRunTask \/ StepJump

ASSUME TLCSet(1, {})
ASSUME TLCSet(2, {})

FirstTask(s) == TasksOf(s)[1]
Observe ==    \* ACTION_CONSTRAINT: never prunes
  (pl.ph = "merge" /\ pl'.ph = "idle") =>
     LET s == pl.s
         v == seen'[s]
         n == it[FirstTask(s)]
     IN /\ TLCSet(1, TLCGet(1) \cup {[c |-> cid, s |-> s, n |-> n, view |-> v]})
        /\ \A f \in Failed(s, v) :
              TLCSet(2, TLCGet(2) \cup {[c |-> cid, s |-> s, n |-> n, f |-> f[1], k |-> f[2],
                                         stale |-> Stale(s, v, f[2])]})
SetSeq(S) == SetToSeq(S)
Export ==     \* POSTCONDITION
  JsonSerialize(IOEnv.DF_OUT, [obs |-> SetSeq(TLCGet(1)), failed |-> SetSeq(TLCGet(2))])
=============================================================================
