---------------------------- MODULE Trace_Engine ----------------------------
(***************************************************************************)
(* Code -> spec trace validation (DESIGN.md 4.3).  A batch of executions   *)
(* recorded from the REAL engine (one JSON file, all of the same program P)*)
(* is checked against Engine: every recorded event must be an instance of  *)
(* a specification action and must land in exactly the logged projection   *)
(* of the database.  Every property formula listed in the cfg is evaluated *)
(* in every state of every trace.                                          *)
(***************************************************************************)
EXTENDS EngineProps, Json, IOUtils, TLCExt

Traces == JsonDeserialize(IOEnv.TRACE_FILE)

VARIABLES tid, l
tvars == <<vars, tid, l>>

Events == Traces[tid].events
Ev     == Events[l]
ToSetS(seq) == {seq[i] : i \in DOMAIN seq}

ConvStage(r) == [status |-> r.status, ver |-> r.ver, started |-> r.started, fired |-> r.fired,
                 cb |-> ToSetS(r.cb), act |-> ToSetS(r.act), bypass |-> r.bypass, jumps |-> r.jumps,
                 buf |-> r.buf, sig |-> r.sig, mi |-> r.mi]
ConvMsg(r) == [id |-> r.id, ord |-> r.ord, typ |-> r.typ, s |-> r.s, t |-> r.t, status |-> r.status,
               rc |-> r.rc, target |-> r.target, phase |-> r.phase, sig |-> r.sig, pers |-> r.pers,
               att |-> r.att, lock |-> r.lock, delayed |-> r.delayed]
ConvDlq(r) == [id |-> r.id, att |-> r.att]

LoggedP(S) ==   \* the step lands in the logged projection
  /\ wf' = [status |-> S.wf.status, canceled |-> S.wf.canceled]
  /\ st' = [s \in DOMAIN S.st |-> ConvStage(S.st[s])]
  /\ tk' = [t \in DOMAIN S.tk |-> [status |-> S.tk[t].status, ver |-> S.tk[t].ver, prog |-> S.tk[t].prog, seen |-> ToSetS(S.tk[t].seen)]]
  /\ q' = {ConvMsg(m) : m \in ToSetS(S.q)}
  /\ dlq' = {ConvDlq(m) : m \in ToSetS(S.dlq)}
  /\ done' = ToSetS(S.done)
  /\ DOMAIN claims' = DOMAIN S.claims /\ \A k \in DOMAIN S.claims : claims'[k] = S.claims[k]
Logged0(S) ==
  /\ wf = [status |-> S.wf.status, canceled |-> S.wf.canceled]
  /\ st = [s \in DOMAIN S.st |-> ConvStage(S.st[s])]
  /\ tk = [t \in DOMAIN S.tk |-> [status |-> S.tk[t].status, ver |-> S.tk[t].ver, prog |-> S.tk[t].prog, seen |-> ToSetS(S.tk[t].seen)]]
  /\ q = {ConvMsg(m) : m \in ToSetS(S.q)}
  /\ done = ToSetS(S.done)

TraceInit ==
  /\ tid \in 1..Len(Traces)
  /\ l = 2
  /\ Init
  /\ Traces[tid].events[1].e = "init"
  /\ Logged0(Traces[tid].events[1].s)

IsEvent(e) == l <= Len(Events) /\ Ev.e = e /\ l' = l + 1 /\ UNCHANGED tid
Same == UNCHANGED durable

TCommit ==
  /\ IsEvent("commit")
  /\ \/ \E m \in q : Poll(m)
     \/ Handlers \/ PostMark \/ Ack \/ Reschedule
  /\ lbl'.c
  /\ LoggedP(Ev.s)
TDedup   == IsEvent("dedup") /\ Dedup /\ (Ev.res <=> wk.mid \in done)
TTrusted == IsEvent("trusted") /\ DedupTrusted
TDedupFault == IsEvent("dedupfault") /\ DedupFault
TBloomReset == IsEvent("bloomreset") /\ BloomReset
TExec    == /\ IsEvent("exec") /\ RunTaskExec
            /\ Cur.t = Ev.task /\ tk[Cur.t].prog = Ev.prog /\ st[Cur.s].jumps = Ev.jumps /\ st[Cur.s].sig = Ev.sig
THRet    == IsEvent("hret") /\ (HRet \/ Handlers) /\ ~lbl'.c /\ wk'.pc = "postmark" /\ Same
THRaise  == IsEvent("hraise") /\ Handlers /\ ~lbl'.c /\ wk'.pc = "failed" /\ Same
THFail   == IsEvent("hfail") /\ wk.pc = "failed" /\ UNCHANGED vars
TNoAck   == IsEvent("noack") /\ Withhold
TWarp    == IsEvent("warp") /\ (\E m \in q : m.id = Ev.id /\ TimePasses(m)) /\ LoggedP(Ev.s)
TExpire  == IsEvent("expire") /\ (\E m \in q : m.id = Ev.id /\ LockExpire(m)) /\ LoggedP(Ev.s)
TSweep   == IsEvent("sweep") /\ Sweep /\ LoggedP(Ev.s)
TDlq     == IsEvent("dlqsweep") /\ DLQSweep /\ LoggedP(Ev.s)
TCrash   == IsEvent("crash") /\ CrashWhen(TRUE) /\ LoggedP(Ev.s)
TCancel  == IsEvent("sendcancel") /\ SendCancel /\ LoggedP(Ev.s)
TSignal  == IsEvent("sendsignal") /\ SendSignal(Ev.stage, Ev.pers) /\ LoggedP(Ev.s)
TClaimSweep == IsEvent("claimsweep") /\ ClaimSweep /\ LoggedP(Ev.s)
TPause   == IsEvent("pause") /\ PauseWorkflow /\ LoggedP(Ev.s)
TUnpause == IsEvent("unpause") /\ Unpause /\ LoggedP(Ev.s)
TRestart == IsEvent("sendrestart") /\ SendRestart(Ev.stage) /\ LoggedP(Ev.s)
TRegion  == IsEvent("sendregion") /\ SendCancelRegion(Ev.region) /\ LoggedP(Ev.s)
TSwSnap  == IsEvent("sweepsnap") /\ SweepSnap /\ LoggedP(Ev.s)
TSwLook  == IsEvent("sweeplook") /\ SweepLook /\ LoggedP(Ev.s)
TSwPush  == IsEvent("sweeppush") /\ SweepPush /\ LoggedP(Ev.s)
TAdd     == IsEvent("sendadd") /\ SendAddInstance(Ev.stage) /\ LoggedP(Ev.s)
TEarly   == IsEvent("early") /\ EarlyStart(Ev.stage) /\ LoggedP(Ev.s)

TraceNext == TCommit \/ TDedup \/ TTrusted \/ TBloomReset \/ TExec \/ THRet \/ THRaise \/ THFail \/ TNoAck \/ TWarp \/ TExpire
             \/ TSweep \/ TDlq \/ TCrash \/ TCancel \/ TEarly \/ TSignal \/ TClaimSweep \/ TPause \/ TUnpause \/ TRestart \/ TRegion \/ TSwSnap \/ TSwLook \/ TSwPush \/ TDedupFault \/ TAdd

TraceSpec == TraceInit /\ [][TraceNext]_tvars

(* C06 on the raw audit rows written by the status triggers (sees A->B->C inside one commit) *)
AuditLegal ==
  (l > 1 /\ l - 1 <= Len(Events) /\ "audit" \in DOMAIN Events[l - 1]) =>
     \A i \in DOMAIN Events[l - 1].audit :
        LET a == Events[l - 1].audit[i] IN
        \/ CanTransition(a.old, a.new)
        \/ (lbl.name \in {"JumpApply", "RestartStage"} /\ a.new = "NOT_STARTED")
        \/ (lbl.name = "RestartStage" /\ a.tbl = "wf" /\ a.new = "RUNNING")

(* Bookkeeping in TLC registers (run with -workers 1):
     1 = per trace the longest matched prefix (index of the next event to consume)
     2 = set of <<trace, position, formula>> for every property formula found false; state formulas are
         recorded with the position of the state (= events consumed + 1), action formulas with the
         position of the event being consumed.  Evaluation never halts the run, so every trace of the
         batch is checked to its end and the Python side can match failures against known findings. *)
ASSUME TLCSet(1, [i \in 1..Len(Traces) |-> 1])
ASSUME TLCSet(2, {})
(* C01, sharpened for runs in which the queue itself chose every delivery (one worker, the in-order drivers) and the
   interrupted message's lock had lapsed before anything else was delivered: such a run is deterministic, so after a
   crash EVERY stage - the schedule-dependent ones too - ends as in the uninterrupted run.  Recorded runs say so in
   their first event (strict = TRUE). *)
StrictRun == Len(Events) >= 1 /\ "strict" \in DOMAIN Events[1] /\ Events[1].strict
StrictOutcome == (StrictRun /\ Quiescent /\ cnt.crashes = 1) =>
                    \A s \in DOMAIN st : s \in Racy => st[s].status = (IF Ref.st[s] = "ABSENT" THEN "NOT_STARTED" ELSE Ref.st[s])
Rec(n) == TLCSet(2, TLCGet(2) \cup {<<tid, l, n>>})
Progress ==
  /\ IF l > TLCGet(1)[tid] THEN TLCSet(1, [TLCGet(1) EXCEPT ![tid] = l]) ELSE TRUE
  /\ \A n \in FailedState : Rec(n)
  /\ ("C06_Legal" \in CheckProps /\ ~AuditLegal) => Rec("C06_AuditLegal")
  /\ ("C01_SameOutcome" \in CheckProps /\ ~StrictOutcome) => Rec("C01_StrictOutcome")
(* C01 / C02 / C10 data clause: what a task sees (hash of the user-visible context handed to Task.execute, logged
   with every exec event) is one of the views it saw in the fault-free in-order run *)
SameData == (l <= Len(Events) /\ Ev.e = "exec" /\ "vh" \in DOMAIN Ev /\ Ev.task \in DOMAIN RefViews)
               => (Ev.vh \in RefViews[Ev.task] \/ "*" \in RefViews[Ev.task])
CheckActions ==
  /\ \A n \in CheckProps \cap ActionPropNames : (AP(n) \/ Rec(n))
  /\ ("C01_SameData" \in CheckProps /\ ~SameData) => Rec("C01_SameData")
Accepted ==
  /\ PrintT(<<"PREFIX", TLCGet(1)>>)
  /\ PrintT(<<"FAILED", TLCGet(2)>>)
=============================================================================
