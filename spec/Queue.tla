------------------------------- MODULE Queue -------------------------------
(***************************************************************************)
(* The SQLite message queue of stabilize on its own (property C08).        *)
(*                                                                         *)
(*   src/stabilize/queue/sqlite/queue.py   push / poll_one / ack /         *)
(*                                         extend_lock / reschedule        *)
(*   src/stabilize/queue/sqlite/dlq.py     move_to_dlq / replay_dlq /      *)
(*                                         check_and_move_expired          *)
(*   src/stabilize/queue/sqlite/schema.py  queue_messages, .._dlq          *)
(*   src/stabilize/queue/processor/processor.py  ack after the handler     *)
(*        returned, reschedule on exception, heartbeat extend, DLQ sweep   *)
(*                                                                         *)
(* GRAIN.  One action per SQL STATEMENT (and one for COMMIT), because the  *)
(* property quantifies over "every interleaving of concurrent pollers" and *)
(* "every crash point inside those operations":                            *)
(*   - poll_one is SELECT candidate ; UPDATE .. WHERE id AND version ;     *)
(*     COMMIT.  Other clients run between the SELECT and the UPDATE.       *)
(*   - move_to_dlq / replay_dlq are DELETE..RETURNING ; INSERT ; COMMIT    *)
(*     inside ONE transaction.                                             *)
(* Python's sqlite3 opens a transaction implicitly before the first        *)
(* INSERT/UPDATE/DELETE; SQLite admits one write transaction at a time;    *)
(* other connections keep reading the last committed image.  That is the   *)
(* variable `txn`: the owner and the owner's private image of the database.*)
(* A crash (process kill) of the owner discards the image.                 *)
(*                                                                         *)
(* A client is one worker (one thread with its own connection, or one      *)
(* process).  It handles one message at a time: poll, then extend* , then  *)
(* ack (handler returned) or reschedule (handler raised).                  *)
(*                                                                         *)
(* TIME is abstract: `lock` = "locked_until is in the future", `delayed` = *)
(* "deliver_at is in the future".  Expire(i) / Deliver(i) are the passage  *)
(* of time.                                                                *)
(*                                                                         *)
(* DELIBERATE DEVIATIONS (each named where it is used)                     *)
(*   D1 Expire / Deliver / LeaseLapse happen only while no write           *)
(*      transaction is open.  No write statement of the queue reads `lock` *)
(*      or `delayed` (the claim is a CAS on version, everything else goes  *)
(*      by id), so the passage of time commutes with every statement of an *)
(*      open transaction and can be moved in front of it.                  *)
(*   D2 With Fifo = FALSE the candidate of poll_one is ANY deliverable row *)
(*      (superset of ORDER BY deliver_at LIMIT 1); with Fifo = TRUE it is  *)
(*      the first row of `order`, the deliverable rows sorted by the TEXT  *)
(*      of deliver_at as SQLite sorts them - including the fact that a     *)
(*      replayed row ('YYYY-MM-DD HH:MM:SS', written by datetime('now'))   *)
(*      sorts before every row written by Python isoformat ('..T..') of    *)
(*      the same day.                                                      *)
(*   D3 A client that finds another client's write transaction open waits  *)
(*      (the action is not enabled); the real statement would block for    *)
(*      busy_timeout and then raise "database is locked".                  *)
(*   D4 reschedule always uses a positive delay (the processor's           *)
(*      retry_delay); the row becomes deliverable again by Deliver.        *)
(***************************************************************************)
EXTENDS Naturals, Sequences, FiniteSets, TLC

CONSTANTS
  Clients,          \* workers (model values, symmetric)
  Nobody,           \* model value: "no client"
  Msgs,             \* logical messages = distinct payloads (model values or strings)
  QMax,             \* SqliteQueue(max_attempts=..): the limit poll_one compares with
  SchemaMax,        \* DEFAULT of column queue_messages.max_attempts (10 in schema.py)
  MaxReplays,       \* bound on successful replay_dlq inserts (they allocate new row ids)
  MaxCrashes,       \* bound on client crashes
  MaxNotFound,      \* bound on replay_dlq calls for a DLQ id that no longer exists
  Fifo,             \* D2
  DelayedPush,      \* TRUE: push(message, delay) is also explored
  AllowStaleOps,    \* TRUE: a lock may lapse while its holder is alive, and the holder later
                    \*       acks / reschedules / extends (stale-holder operations, DESIGN 9.3)
                    \* FALSE: a lock lapses only after its holder died (heartbeat regime)
  FencedOps,        \* TRUE: PROPOSED FIX - reschedule / extend_lock also compare the attempts
                    \*       counter the holder saw (docs/proposed_fixes/C08.diff); FALSE: as coded (by id)
  SweepLocked,      \* TRUE: as coded - check_and_move_expired ignores locked_until, so a row whose
                    \*       LAST attempt is still in flight is moved; FALSE: proposed fix
  ReplayDefaultLimit, \* TRUE: as coded - replay_dlq omits max_attempts, the row gets SchemaMax;
                    \*       FALSE: proposed fix - the row gets the queue's QMax
  Poison,           \* subset of Msgs this build cannot deserialize (a message type it does not know): poll_one claims
                    \*       such a row (UPDATE ; COMMIT), then deserialize_message raises - nobody holds it, the row stays
                    \*       locked until the lock lapses, is claimed again .. and is swept to the DLQ at its attempt
                    \*       limit; replay_dlq puts it back unchanged (it never looks into the payload)
  DanglingTxn       \* TRUE: as coded - move_to_dlq / replay_dlq return without COMMIT or ROLLBACK when the
                    \*       row is gone, leaving the implicitly begun write transaction open on that
                    \*       connection; FALSE: proposed fix - they roll back

VARIABLES
  db,      \* last COMMITTED image of the database + ledger ghosts (see EmptyDb)
  txn,     \* [owner, img]: the open write transaction and its private image (owner = Nobody: none)
  cl,      \* per client: program counter and volatile locals (lost in a crash)
  cnt,     \* exploration bounds
  lbl      \* last action taken: name, client, argument, return value (not part of the VIEW)

vars == <<db, txn, cl, cnt, lbl>>

-----------------------------------------------------------------------------
(* Database image.                                                         *)
(*   rows  : id -> [msg, att, maxAtt, lock, delayed, ver, front]           *)
(*           queue_messages(id, payload, attempts, max_attempts,           *)
(*           locked_until, deliver_at, version); `front` = deliver_at was  *)
(*           written by replay_dlq in SQLite's own format (D2)             *)
(*   dlq   : id -> [msg, att, orig]     queue_messages_dlq                 *)
(*   nid, ndlq : next AUTOINCREMENT id of either table (sqlite_sequence is *)
(*           part of the database: a rolled-back insert consumes no id)    *)
(*   order : deliverable row ids in ORDER BY deliver_at order (Fifo only)  *)
(*   pushed, acked : ledger ghosts - messages ever inserted by push; rows  *)
(*           deleted by ack.  They change in the same commit as the rows.  *)
(*   leases: ghost - <<client, row id, msg>> for every claim that is still *)
(*           within the lock period its claimer wrote                      *)
(*   gh    : ghost - <<defect, msg>> recorded when one of the three coded  *)
(*           behaviours that are known defects fires (DESIGN 5: a property *)
(*           failure is attributed to a finding only through its flag)     *)
(***************************************************************************)
EmptyDb == [rows |-> <<>>, dlq |-> <<>>, nid |-> 1, ndlq |-> 1, order |-> <<>>,
            pushed |-> {}, acked |-> {}, leases |-> {}, gh |-> {}]

NoRow  == 0
NoHeld == [id |-> NoRow, att |-> 0]
Idle0  == [pc |-> "idle", op |-> "-", cand |-> [id |-> NoRow, ver |-> 0, att |-> 0],
           todo |-> <<>>, moved |-> 0, tmp |-> <<>>, held |-> NoHeld]

Init ==
  /\ db = EmptyDb
  /\ txn = [owner |-> Nobody, img |-> EmptyDb]
  /\ cl = [c \in Clients |-> Idle0]
  /\ cnt = [replays |-> 0, crashes |-> 0, notfound |-> 0]
  /\ lbl = [a |-> "Init", c |-> Nobody, arg |-> 0, ret |-> <<>>]

-----------------------------------------------------------------------------
(* Helpers *)
View(c)     == IF txn.owner = c THEN txn.img ELSE db     \* what c's connection reads
CanWrite(c) == txn.owner \in {Nobody, c}                 \* one write transaction at a time (D3)
Stage(c, img) == txn' = [owner |-> c, img |-> img]       \* a write statement inside c's transaction
NotFound(c, v) ==                                        \* DELETE..RETURNING found nothing, the function returns
  IF DanglingTxn THEN Stage(c, v) ELSE txn' = [owner |-> Nobody, img |-> EmptyDb]
NoTxn       == txn.owner = Nobody

Drop(f, k)  == [x \in DOMAIN f \ {k} |-> f[x]]
Without(s, k) == SelectSeq(s, LAMBDA x : x # k)
SortedSeq(S) ==   \* ascending sequence of a finite set of naturals (fetchall() of a table scan)
  LET RECURSIVE Srt(_)
      Srt(T) == IF T = {} THEN <<>>
                ELSE LET mn == CHOOSE x \in T : \A y \in T : x <= y IN <<mn>> \o Srt(T \ {mn})
  IN Srt(S)

Pollable(r) == ~r.delayed /\ ~r.lock /\ r.att < QMax     \* WHERE clause of poll_one (queue's limit!)
AtLimit(r)  == r.att >= r.maxAtt                         \* WHERE clause of the sweep (row's limit!)

\* ORDER BY deliver_at: replayed rows (front) first, in replay order; then the others in the order
\* in which they became deliverable (D2).
Enqueue(ord, rows, i, front) ==
  IF ~Fifo THEN ord
  ELSE IF ~front THEN Append(ord, i)
  ELSE LET k == Cardinality({j \in 1..Len(ord) : rows[ord[j]].front})
       IN SubSeq(ord, 1, k) \o <<i>> \o SubSeq(ord, k + 1, Len(ord))

Holding(c)  == cl[c].held.id # NoRow
Fresh(c)    == \E g \in db.leases : g[1] = c /\ g[2] = cl[c].held.id   \* c's own lock period still runs
HeldBy(i)   == {c \in Clients : cl[c].held.id = i}
\* (IF instead of \/ : TLC would otherwise generate one duplicate transition per true disjunct)
MayUse(c)   == IF AllowStaleOps THEN TRUE ELSE Fresh(c)

L(a, c, arg, ret) == lbl' = [a |-> a, c |-> c, arg |-> arg, ret |-> ret]
Set(c, r)   == cl' = [cl EXCEPT ![c] = r]
Done(c)     == [Idle0 EXCEPT !.held = cl[c].held]       \* operation returned, handle kept

-----------------------------------------------------------------------------
(* push(message, delay): INSERT ; COMMIT.  (With connection=<caller's> the same INSERT joins the
   caller's transaction and the caller commits: same two steps.) *)
PushInsert(c, m, d) ==
  /\ cl[c].pc = "idle" /\ CanWrite(c) /\ m \notin View(c).pushed
  /\ LET v == View(c) IN
     LET i == v.nid IN
     LET r == [msg |-> m, att |-> 0, maxAtt |-> QMax, lock |-> FALSE, delayed |-> d, ver |-> 0, front |-> FALSE] IN
     LET rows2 == v.rows @@ (i :> r) IN
     Stage(c, [v EXCEPT !.rows = rows2, !.nid = i + 1, !.pushed = @ \cup {m},
                        !.order = IF d THEN @ ELSE Enqueue(@, rows2, i, FALSE)])
  /\ Set(c, [cl[c] EXCEPT !.pc = "commit", !.op = "push"])
  /\ L("PushInsert", c, IF d THEN 1 ELSE 0, <<m>>)
  /\ UNCHANGED <<db, cnt>>

(* poll_one, statement 1: SELECT id, payload, attempts, version .. WHERE deliverable AND not locked
   AND attempts < :max_attempts ORDER BY deliver_at LIMIT 1.  No transaction is opened. *)
PollSelect(c) ==
  /\ cl[c].pc = "idle" /\ ~Holding(c)
  /\ LET v == View(c) IN
     LET P == {i \in DOMAIN v.rows : Pollable(v.rows[i])} IN
     IF P = {}
       THEN /\ Set(c, Done(c)) /\ L("PollSelect", c, NoRow, <<"none">>)
       ELSE \E i \in P :
              /\ Fifo => \A j \in 1..Len(v.order) : (v.order[j] \in P => \E k \in 1..j : v.order[k] = i)
              /\ Set(c, [cl[c] EXCEPT !.pc = "poll_upd", !.op = "poll",
                                      !.cand = [id |-> i, ver |-> v.rows[i].ver, att |-> v.rows[i].att]])
              /\ L("PollSelect", c, i, <<"cand", i, v.rows[i].ver>>)
  /\ UNCHANGED <<db, txn, cnt>>

(* poll_one, statement 2: UPDATE SET locked_until, attempts+1, version+1 WHERE id AND version.
   rowcount decides the winner; the loser's transaction is open as well until the COMMIT. *)
PollUpdate(c) ==
  /\ cl[c].pc = "poll_upd" /\ CanWrite(c)
  /\ LET v == View(c) IN
     LET i == cl[c].cand.id IN
     LET won == i \in DOMAIN v.rows /\ v.rows[i].ver = cl[c].cand.ver IN
     /\ IF won
          THEN Stage(c, [v EXCEPT !.rows[i].lock = TRUE, !.rows[i].att = @ + 1, !.rows[i].ver = @ + 1,
                                  !.leases = @ \cup {<<c, i, v.rows[i].msg>>}])
          ELSE Stage(c, v)
     /\ Set(c, [cl[c] EXCEPT !.pc = "commit", !.tmp = <<won>>])
     /\ L("PollUpdate", c, i, <<won>>)
  /\ UNCHANGED <<db, cnt>>

(* ack: DELETE WHERE id ; COMMIT.  By id only: a stale holder's ack removes the row under the
   current holder (harmless for C08: the message WAS handled). *)
AckDelete(c) ==
  /\ cl[c].pc = "idle" /\ Holding(c) /\ CanWrite(c) /\ MayUse(c)
  /\ LET v == View(c) IN
     LET i == cl[c].held.id IN
     /\ IF i \in DOMAIN v.rows
          THEN Stage(c, [v EXCEPT !.rows = Drop(@, i), !.order = Without(@, i),
                                  !.acked = @ \cup {v.rows[i].msg},
                                  !.leases = {g \in @ : ~(g[1] = c /\ g[2] = i)}])
          ELSE Stage(c, [v EXCEPT !.leases = {g \in @ : ~(g[1] = c /\ g[2] = i)}])
     /\ Set(c, [cl[c] EXCEPT !.pc = "commit", !.op = "ack"])
     /\ L("AckDelete", c, i, <<i \in DOMAIN v.rows>>)
  /\ UNCHANGED <<db, cnt>>

(* reschedule: UPDATE SET deliver_at = now + delay, locked_until = NULL WHERE id ; COMMIT.
   As coded the WHERE clause is the id only: the update also hits the row when it has meanwhile been
   claimed by somebody else, and clears THAT holder's lock (the stale-holder defect). *)
Hits(c, v) ==
  LET i == cl[c].held.id IN
  i \in DOMAIN v.rows /\ (FencedOps => v.rows[i].att = cl[c].held.att)
ForeignLease(c, v) ==   \* the row c still has a handle on is by now somebody else's: c is a stale holder
  \E g \in v.leases : g[2] = cl[c].held.id /\ g[1] # c
ReschedUpdate(c) ==
  /\ cl[c].pc = "idle" /\ Holding(c) /\ CanWrite(c) /\ MayUse(c)
  /\ LET v == View(c) IN
     LET i == cl[c].held.id IN
     /\ IF Hits(c, v)
          THEN Stage(c, [v EXCEPT !.rows[i].lock = FALSE, !.rows[i].delayed = TRUE,
                                  !.rows[i].front = FALSE, !.order = Without(@, i),
                                  !.leases = {g \in @ : ~(g[1] = c /\ g[2] = i)},
                                  !.gh = IF ForeignLease(c, v) THEN @ \cup {<<"staleResched", v.rows[i].msg>>} ELSE @])
          ELSE Stage(c, [v EXCEPT !.leases = {g \in @ : ~(g[1] = c /\ g[2] = i)}])
     /\ Set(c, [cl[c] EXCEPT !.pc = "commit", !.op = "resched"])
     /\ L("ReschedUpdate", c, i, <<Hits(c, v)>>)
  /\ UNCHANGED <<db, cnt>>

(* extend_lock (heartbeat): UPDATE SET locked_until = now + duration WHERE id ; COMMIT ;
   returns rowcount = 1.  The client keeps its handle. *)
ExtendUpdate(c) ==
  /\ cl[c].pc = "idle" /\ Holding(c) /\ CanWrite(c) /\ MayUse(c)
  /\ LET v == View(c) IN
     LET i == cl[c].held.id IN
     /\ IF Hits(c, v) THEN Stage(c, [v EXCEPT !.rows[i].lock = TRUE]) ELSE Stage(c, v)
     /\ Set(c, [cl[c] EXCEPT !.pc = "commit", !.op = "extend", !.tmp = <<Hits(c, v)>>])
     /\ L("ExtendUpdate", c, i, <<Hits(c, v)>>)
  /\ UNCHANGED <<db, cnt>>

(* check_and_move_expired, statement 1: SELECT id .. WHERE attempts >= max_attempts (the ROW's
   column, not the queue's limit; locked_until is not consulted).  fetchall(), then one
   move_to_dlq per row. *)
SweepSelect(c) ==
  /\ cl[c].pc = "idle" /\ ~Holding(c)
  /\ LET v == View(c) IN
     LET S == {i \in DOMAIN v.rows : AtLimit(v.rows[i]) /\ (SweepLocked \/ ~v.rows[i].lock)} IN
     /\ IF S = {} THEN Set(c, Done(c))
        ELSE Set(c, [cl[c] EXCEPT !.pc = "mv_del", !.op = "sweep", !.todo = SortedSeq(S), !.moved = 0])
     /\ L("SweepSelect", c, 0, SortedSeq(S))
  /\ UNCHANGED <<db, txn, cnt>>

(* move_to_dlq, statement 1: DELETE FROM queue WHERE id RETURNING ...  If the row is gone the
   function returns WITHOUT commit or rollback: the implicitly begun transaction stays open on this
   connection (a "dangling" transaction) until the client's next COMMIT, and blocks every other
   writer meanwhile. *)
MoveDelete(c) ==
  /\ cl[c].pc = "mv_del" /\ CanWrite(c)
  /\ LET v == View(c) IN
     LET i == Head(cl[c].todo) IN
     LET rest == Tail(cl[c].todo) IN
     IF i \in DOMAIN v.rows
       THEN /\ Stage(c, [v EXCEPT !.rows = Drop(@, i), !.order = Without(@, i),
                                  !.gh = IF v.rows[i].lock /\ \E g \in v.leases : g[2] = i   \* lock live, ignored
                                           THEN @ \cup {<<"sweptInFlight", v.rows[i].msg>>} ELSE @])
            /\ Set(c, [cl[c] EXCEPT !.pc = "mv_ins", !.tmp = <<i, v.rows[i]>>])
            /\ L("MoveDelete", c, i, <<TRUE>>)
       ELSE \* (check_and_move_expired counts the rows it selected, also when move_to_dlq found nothing)
            /\ NotFound(c, v)
            /\ IF rest = <<>> THEN /\ Set(c, Done(c)) /\ L("MoveDelete", c, i, <<FALSE, "ret", cl[c].moved + 1>>)
               ELSE /\ Set(c, [cl[c] EXCEPT !.todo = rest, !.moved = @ + 1]) /\ L("MoveDelete", c, i, <<FALSE>>)
  /\ UNCHANGED <<db, cnt>>

(* move_to_dlq, statement 2: INSERT INTO dlq(original_id, payload, attempts, ..) *)
MoveInsert(c) ==
  /\ cl[c].pc = "mv_ins" /\ CanWrite(c)
  /\ LET v == View(c) IN
     LET i == cl[c].tmp[1] IN
     LET r == cl[c].tmp[2] IN
     /\ Stage(c, [v EXCEPT !.dlq = @ @@ (v.ndlq :> [msg |-> r.msg, att |-> r.att, orig |-> i]),
                           !.ndlq = @ + 1])
     /\ Set(c, [cl[c] EXCEPT !.pc = "commit"])
     /\ L("MoveInsert", c, i, <<v.ndlq>>)
  /\ UNCHANGED <<db, cnt>>

(* replay_dlq(d), statement 1: DELETE FROM dlq WHERE id RETURNING *.  Not found: return False,
   again with the transaction left open. *)
ReplayDelete(c, d) ==
  /\ cl[c].pc = "idle" /\ ~Holding(c) /\ CanWrite(c)
  /\ LET v == View(c) IN
     /\ d \in 1..(v.ndlq - 1)
     /\ IF d \in DOMAIN v.dlq
          THEN /\ cnt.replays < MaxReplays
               /\ Stage(c, [v EXCEPT !.dlq = Drop(@, d)])
               /\ Set(c, [cl[c] EXCEPT !.pc = "rp_ins", !.op = "replay", !.tmp = <<d, v.dlq[d]>>])
               /\ cnt' = [cnt EXCEPT !.replays = @ + 1]
               /\ L("ReplayDelete", c, d, <<TRUE>>)
          ELSE /\ cnt.notfound < MaxNotFound
               /\ NotFound(c, v)
               /\ Set(c, Done(c))
               /\ cnt' = [cnt EXCEPT !.notfound = @ + 1]
               /\ L("ReplayDelete", c, d, <<FALSE, "ret", FALSE>>)
  /\ UNCHANGED db

(* replay_dlq, statement 2: INSERT INTO queue(message_id, message_type, payload, deliver_at,
   attempts) VALUES (new uuid, .., payload, datetime('now'), 0): a NEW row id, version 0,
   max_attempts = the column default (it is not in the column list). *)
ReplayInsert(c) ==
  /\ cl[c].pc = "rp_ins" /\ CanWrite(c)
  /\ LET v == View(c) IN
     LET i == v.nid IN
     LET r == [msg |-> cl[c].tmp[2].msg, att |-> 0,
               maxAtt |-> IF ReplayDefaultLimit THEN SchemaMax ELSE QMax,
               lock |-> FALSE, delayed |-> FALSE, ver |-> 0, front |-> Fifo] IN
     LET rows2 == v.rows @@ (i :> r) IN
     /\ Stage(c, [v EXCEPT !.rows = rows2, !.nid = i + 1, !.order = Enqueue(@, rows2, i, TRUE),
                           !.gh = IF r.maxAtt # QMax THEN @ \cup {<<"replayLimit", r.msg>>} ELSE @])
     /\ Set(c, [cl[c] EXCEPT !.pc = "commit"])
     /\ L("ReplayInsert", c, cl[c].tmp[1], <<i>>)
  /\ UNCHANGED <<db, cnt>>

PoisonClaim(c) == /\ cl[c].op = "poll" /\ cl[c].tmp = <<TRUE>>
                  /\ txn.img.rows[cl[c].cand.id].msg \in Poison

(* COMMIT: the private image becomes the database; the operation returns (or, for the sweep,
   continues with the next row). *)
Commit(c) ==
  /\ cl[c].pc = "commit" /\ txn.owner = c
  /\ db' = IF PoisonClaim(c) THEN [txn.img EXCEPT !.leases = {g \in @ : ~(g[1] = c /\ g[2] = cl[c].cand.id)}]
            ELSE txn.img
  /\ txn' = [owner |-> Nobody, img |-> EmptyDb]
  /\ LET o == cl[c].op IN
     CASE o = "poll" ->
            LET i == cl[c].cand.id IN
            IF PoisonClaim(c)
              THEN \* claimed, but the message does not deserialize: poll_one raises after its commit, no handle
                   /\ Set(c, Done(c))
                   /\ L("Commit", c, i, <<"poll", "poison">>)
            ELSE IF cl[c].tmp[1]
              THEN /\ Set(c, [Idle0 EXCEPT !.held = [id |-> i, att |-> cl[c].cand.att + 1]])
                   /\ L("Commit", c, i, <<"poll", i, cl[c].cand.att + 1, txn.img.rows[i].msg>>)
              ELSE /\ Set(c, Done(c)) /\ L("Commit", c, i, <<"poll", "lost">>)
       [] o = "ack"     -> Set(c, Idle0) /\ L("Commit", c, cl[c].held.id, <<"ack">>)
       [] o = "resched" -> Set(c, Idle0) /\ L("Commit", c, cl[c].held.id, <<"resched">>)
       [] o = "extend"  -> Set(c, Done(c)) /\ L("Commit", c, cl[c].held.id, <<"extend", cl[c].tmp[1]>>)
       [] o = "push"    -> Set(c, Done(c)) /\ L("Commit", c, 0, <<"push">>)
       [] o = "replay"  -> Set(c, Done(c)) /\ L("Commit", c, cl[c].tmp[1], <<"replay", TRUE>>)
       [] o = "sweep"   ->
            LET rest == Tail(cl[c].todo) IN
            IF rest = <<>>
              THEN Set(c, Done(c)) /\ L("Commit", c, cl[c].tmp[1], <<"sweep", "ret", cl[c].moved + 1>>)
              ELSE /\ Set(c, [cl[c] EXCEPT !.pc = "mv_del", !.todo = rest, !.moved = @ + 1, !.tmp = <<>>])
                   /\ L("Commit", c, cl[c].tmp[1], <<"sweep">>)
  /\ UNCHANGED cnt

(* A client is killed between any two statements (or while idle with a message in flight / with a
   dangling transaction).  Its open transaction is rolled back, its locals are lost.  The lock it
   wrote stays until it lapses. *)
CrashClient(c) ==
  /\ cnt.crashes < MaxCrashes
  /\ TRUE \in {cl[c].pc # "idle", Holding(c), txn.owner = c}     \* there is something to lose
  /\ txn' = IF txn.owner = c THEN [owner |-> Nobody, img |-> EmptyDb] ELSE txn
  /\ Set(c, Idle0)
  /\ cnt' = [cnt EXCEPT !.crashes = @ + 1]
  /\ L("CrashClient", c, 0, <<cl[c].pc>>)
  /\ UNCHANGED db

-----------------------------------------------------------------------------
(* Passage of time (D1: only between transactions). *)

(* locked_until of row i passes.  Every lease on that row was written no later than the
   locked_until now stored, so all of them are over.  With AllowStaleOps = FALSE a lock outlives
   its holder's work (heartbeat), i.e. it lapses only when nobody alive still holds the row. *)
Expire(i) ==
  /\ NoTxn /\ i \in DOMAIN db.rows /\ db.rows[i].lock
  /\ IF AllowStaleOps THEN TRUE ELSE HeldBy(i) = {}
  /\ db' = [db EXCEPT !.rows[i].lock = FALSE, !.leases = {g \in @ : g[2] # i}]
  /\ L("Expire", Nobody, i, <<>>)
  /\ UNCHANGED <<txn, cl, cnt>>

(* deliver_at of row i passes. *)
Deliver(i) ==
  /\ NoTxn /\ i \in DOMAIN db.rows /\ db.rows[i].delayed
  /\ LET rows2 == [db.rows EXCEPT ![i].delayed = FALSE] IN
     db' = [db EXCEPT !.rows = rows2, !.order = Enqueue(@, rows2, i, FALSE)]
  /\ L("Deliver", Nobody, i, <<>>)
  /\ UNCHANGED <<txn, cl, cnt>>

(* The lock period a claimer wrote is over although the row no longer carries it (the row was
   rescheduled by a stale holder, or moved to the DLQ during its last attempt).  Pure ghost step. *)
LeaseLapse(g) ==
  /\ NoTxn /\ g \in db.leases
  /\ IF g[2] \in DOMAIN db.rows THEN ~db.rows[g[2]].lock ELSE TRUE
  /\ IF AllowStaleOps THEN TRUE ELSE g[1] \notin HeldBy(g[2])
  /\ db' = [db EXCEPT !.leases = @ \ {g}]
  /\ L("LeaseLapse", g[1], g[2], <<>>)
  /\ UNCHANGED <<txn, cl, cnt>>

-----------------------------------------------------------------------------
ClientStep(c) ==
  \/ \E m \in Msgs : \E d \in (IF DelayedPush THEN BOOLEAN ELSE {FALSE}) : PushInsert(c, m, d)
  \/ PollSelect(c) \/ PollUpdate(c)
  \/ AckDelete(c) \/ ReschedUpdate(c) \/ ExtendUpdate(c)
  \/ SweepSelect(c) \/ MoveDelete(c) \/ MoveInsert(c)
  \/ \E d \in 1..(View(c).ndlq - 1) : ReplayDelete(c, d)       \* any DLQ id ever allocated
  \/ ReplayInsert(c)
  \/ Commit(c)
  \/ CrashClient(c)

TimeStep ==
  \/ \E i \in DOMAIN db.rows : Expire(i)
  \/ \E i \in DOMAIN db.rows : Deliver(i)
  \/ \E g \in db.leases : LeaseLapse(g)

Next == (\E c \in Clients : ClientStep(c)) \/ TimeStep

Spec == Init /\ [][Next]_vars

-----------------------------------------------------------------------------
(* PROPERTY C08 *)

Count(S) == Cardinality(S)
Places(d, m) ==   \* in how many places message m is, in database image d
  Count({i \in DOMAIN d.rows : d.rows[i].msg = m}) + Count({k \in DOMAIN d.dlq : d.dlq[k].msg = m})
    + (IF m \in d.acked THEN 1 ELSE 0)

(* "At every instant each pushed message is in exactly one place: the queue, the dead-letter queue,
   or acknowledged."  Evaluated on the committed image: that is what any other connection sees and
   what survives a crash at this instant. *)
Conservation == \A m \in Msgs : Places(db, m) = (IF m \in db.pushed THEN 1 ELSE 0)

(* "While one worker holds it no other worker can claim it before its lock lapses": no message
   has two claims whose lock periods both still run. *)
OneHolder == \A m \in Msgs : Count({g \in db.leases : g[3] = m}) <= 1

(* "A message that keeps failing is moved to the DLQ at its attempt limit instead of being
   dropped."  Safety core: a row that poll_one will never select again (attempts only grow) must be
   one the sweep selects; otherwise it sits in the queue forever, neither delivered nor parked. *)
NoStrandedRow == \A i \in DOMAIN db.rows : db.rows[i].att >= QMax => AtLimit(db.rows[i])
(* .. and a claim is never granted at or beyond the limit. *)
ClaimBelowLimit == \A i \in DOMAIN db.rows : db.rows[i].att <= QMax

(* "... and can be replayed from there unchanged": after replay_dlq the message is back in the queue
   with the same payload, zero attempts, the same limit, deliverable. (Action property.) *)
ReplayUnchanged ==
  (lbl'.a = "Commit" /\ lbl'.ret[1] = "replay") =>
     LET i == db'.nid - 1 IN
     LET d == lbl'.arg IN
     /\ i \in DOMAIN db'.rows /\ d \in DOMAIN db.dlq /\ d \notin DOMAIN db'.dlq
     /\ db'.rows[i].msg = db.dlq[d].msg /\ db'.rows[i].att = 0 /\ db'.rows[i].ver = 0
     /\ db'.rows[i].maxAtt = QMax /\ ~db'.rows[i].lock /\ ~db'.rows[i].delayed

(* Observation O1 (not part of C08): no connection sits idle inside a write transaction.  False as
   coded (DanglingTxn); used to obtain the shortest history that shows it. *)
NoDanglingTxn == IF txn.owner = Nobody THEN TRUE ELSE cl[txn.owner].pc # "idle"

(* A sweep moves a row with its attempts count and payload, and only a row at its limit. *)
MoveKeeps ==
  (lbl'.a = "Commit" /\ lbl'.ret[1] = "sweep") =>
     LET k == db'.ndlq - 1 IN
     /\ k \in DOMAIN db'.dlq
     /\ db'.dlq[k].orig \in DOMAIN db.rows /\ db'.dlq[k].orig \notin DOMAIN db'.rows
     /\ db'.dlq[k].msg = db.rows[db'.dlq[k].orig].msg
     /\ db'.dlq[k].att = db.rows[db'.dlq[k].orig].att
     /\ db'.dlq[k].att >= db.rows[db'.dlq[k].orig].maxAtt

(* The same formulas with the failures that are explained by a recorded defect taken out: what must
   hold of the queue AS CODED (all defect switches on).  Anything else is a new violation. *)
OneHolderK == \A m \in Msgs : Count({g \in db.leases : g[3] = m}) <= 1
                                \/ <<"staleResched", m>> \in db.gh \/ <<"sweptInFlight", m>> \in db.gh
NoStrandedRowK == \A i \in DOMAIN db.rows :
                     (db.rows[i].att >= QMax => AtLimit(db.rows[i])) \/ <<"replayLimit", db.rows[i].msg>> \in db.gh
ReplayUnchangedK ==
  (lbl'.a = "Commit" /\ lbl'.ret[1] = "replay") =>
     (ReplayUnchanged \/ <<"replayLimit", db'.rows[db'.nid - 1].msg>> \in db'.gh)
(* Each defect on its own (for the shortest counter-example of exactly that defect) *)
OneHolderNotSwept == \A m \in Msgs : Count({g \in db.leases : g[3] = m}) <= 1 \/ <<"sweptInFlight", m>> \in db.gh
OneHolderNotStale == \A m \in Msgs : Count({g \in db.leases : g[3] = m}) <= 1 \/ <<"staleResched", m>> \in db.gh

(* Liveness: under a sweeper that keeps running (and transactions that do not dangle for ever) a
   message at its limit ends in the DLQ (or was acknowledged by its last, still running, attempt). *)
InQueueAtLimit(m) == \E i \in DOMAIN db.rows : db.rows[i].msg = m /\ db.rows[i].att >= QMax
InDlq(m)          == \E k \in DOMAIN db.dlq : db.dlq[k].msg = m
OpProgress(c) == PollUpdate(c) \/ MoveDelete(c) \/ MoveInsert(c) \/ ReplayInsert(c) \/ Commit(c)
UsefulSweep == \E c \in Clients : SweepSelect(c) /\ cl'[c].pc = "mv_del"
Release(c) == AckDelete(c) \/ ReschedUpdate(c)       \* the handler returns or raises, eventually
Fairness ==
  /\ \A c \in Clients : SF_vars(OpProgress(c)) /\ SF_vars(Release(c))
  /\ SF_vars(UsefulSweep)
  /\ \A i \in 1..(Cardinality(Msgs) + MaxReplays) : WF_vars(Expire(i))
NoDanglingForEver == []<>(txn.owner = Nobody)
LiveSpec == Spec /\ Fairness
MovedAtLimit ==
  NoDanglingForEver => \A m \in Msgs : (InQueueAtLimit(m) ~> (InDlq(m) \/ m \in db.acked))

-----------------------------------------------------------------------------
(* Model-checking support *)
ReplayUnchangedP == [][ReplayUnchanged]_vars
MoveKeepsP       == [][MoveKeeps]_vars
ReplayUnchangedKP == [][ReplayUnchangedK]_vars
View_ == <<db, txn, cl, cnt>>
Sym   == Permutations(Clients) \cup Permutations(Msgs)
TypeOK ==
  /\ txn.owner \in Clients \cup {Nobody}
  /\ \A c \in Clients : cl[c].pc \in {"idle", "poll_upd", "commit", "mv_del", "mv_ins", "rp_ins"}
  /\ \A i \in DOMAIN db.rows : i < db.nid
  /\ \A k \in DOMAIN db.dlq : k < db.ndlq
  /\ Fifo => (\A j \in 1..Len(db.order) : db.order[j] \in DOMAIN db.rows /\ ~db.rows[db.order[j]].delayed)
  /\ Fifo => Len(db.order) = Count({i \in DOMAIN db.rows : ~db.rows[i].delayed})
=============================================================================
