-------------------------------- MODULE Expr --------------------------------
(***************************************************************************)
(* C20, second half: the condition-expression evaluator                    *)
(* (src/stabilize/expressions.py: evaluate_expression / _eval_node) as a   *)
(* pure function                                                           *)
(*                                                                         *)
(*        EvalTop(ast, ctx)  \in  Values \cup {Err(site)}                  *)
(*                                                                         *)
(* over an explicit AST, modelling Python's operand typing, and the two    *)
(* engine call sites that consume it (StartStage._should_skip, CompleteStage*)
(* ._apply_split_logic).  Err(site) stands for "raises ExpressionError";   *)
(* `site` names WHY (it is used to classify findings, not compared).       *)
(* The properties:                                                         *)
(*   Total  : the implementation's outcome is a value or ExpressionError   *)
(*   Pure   : the context is unchanged                                     *)
(*   Conf   : outcome = EvalTop(ast, ctx)                                  *)
(* MC_Expr enumerates (ast, ctx) cases with the predicted outcome; Obs_Expr*)
(* judges recorded outcomes of the implementation.                         *)
(*                                                                         *)
(* Python values are tagged records; each tag has its OWN payload field    *)
(* name so that TLC never compares payloads of different TLA+ types:       *)
(*   [t|->"none"] [t|->"bool",b|->..] [t|->"int",i|->..]                   *)
(*   [t|->"str",s|-><<chars>>] [t|->"list",e|-><<..>>] [t|->"tuple",e|->..]*)
(*   [t|->"dict",kv|-><< <<key,val>>, .. >>]  [t|->"err",site|->..]        *)
(* Strings are sequences of one-letter strings so that ordering and        *)
(* substring search can be defined.                                        *)
(***************************************************************************)
EXTENDS Integers, Sequences, FiniteSets, TLC

None     == [t |-> "none"]
B(b)     == [t |-> "bool", b |-> b]
I(i)     == [t |-> "int", i |-> i]
S(s)     == [t |-> "str", s |-> s]
L(e)     == [t |-> "list", e |-> e]
T(e)     == [t |-> "tuple", e |-> e]
D(kv)    == [t |-> "dict", kv |-> kv]
Err(w)   == [t |-> "err", site |-> w]
IsErr(v) == v.t = "err"

MinOf(Q) == CHOOSE x \in Q : \A y \in Q : x <= y

(***************************************************************************)
(* Python operand semantics                                                *)
(***************************************************************************)
Num(v)    == v.t \in {"int", "bool"}                 \* bool is a subclass of int
NumVal(v) == IF v.t = "int" THEN v.i ELSE IF v.b THEN 1 ELSE 0

Truthy(v) == CASE v.t = "none"  -> FALSE
               [] v.t = "bool"  -> v.b
               [] v.t = "int"   -> v.i # 0
               [] v.t = "str"   -> Len(v.s) > 0
               [] v.t \in {"list", "tuple"} -> Len(v.e) > 0
               [] v.t = "dict"  -> Len(v.kv) > 0

RECURSIVE PyEq(_, _)
PyEq(a, b) ==                                        \* a == b  (never raises for these types)
  IF Num(a) /\ Num(b) THEN NumVal(a) = NumVal(b)     \* True == 1
  ELSE IF a.t # b.t THEN FALSE                       \* [1] == (1,) is False
  ELSE CASE a.t = "none" -> TRUE
         [] a.t = "str"  -> a.s = b.s
         [] a.t \in {"list", "tuple"} ->
              Len(a.e) = Len(b.e) /\ \A j \in 1..Len(a.e) : PyEq(a.e[j], b.e[j])
         [] a.t = "dict" ->
              /\ Len(a.kv) = Len(b.kv)
              /\ \A j \in 1..Len(a.kv) : \E m \in 1..Len(b.kv) :
                    PyEq(a.kv[j][1], b.kv[m][1]) /\ PyEq(a.kv[j][2], b.kv[m][2])

RECURSIVE Hashable(_)
Hashable(v) == CASE v.t \in {"list", "dict"} -> FALSE
                 [] v.t = "tuple" -> \A j \in 1..Len(v.e) : Hashable(v.e[j])
                 [] OTHER -> TRUE

CharRank(c) == CASE c = "a" -> 1 [] c = "b" -> 2 [] c = "k" -> 3      \* ord() order of the letters used
Cmp3Int(x, y) == IF x < y THEN "lt" ELSE IF x = y THEN "eq" ELSE "gt"

\* three-way ordering; "err" = Python raises TypeError ('<' not supported between ...)
RECURSIVE Cmp3(_, _)
Cmp3(a, b) ==
  IF Num(a) /\ Num(b) THEN Cmp3Int(NumVal(a), NumVal(b))
  ELSE IF a.t = "str" /\ b.t = "str" THEN
    LET n == IF Len(a.s) < Len(b.s) THEN Len(a.s) ELSE Len(b.s)
        d == {j \in 1..n : a.s[j] # b.s[j]}
    IN  IF d # {} THEN Cmp3Int(CharRank(a.s[MinOf(d)]), CharRank(b.s[MinOf(d)]))
        ELSE Cmp3Int(Len(a.s), Len(b.s))
  ELSE IF a.t = b.t /\ a.t \in {"list", "tuple"} THEN
    \* Python: find the first index whose elements are not ==, order by THAT pair; else by length
    LET n == IF Len(a.e) < Len(b.e) THEN Len(a.e) ELSE Len(b.e)
        d == {j \in 1..n : ~PyEq(a.e[j], b.e[j])}
    IN  IF d # {} THEN Cmp3(a.e[MinOf(d)], b.e[MinOf(d)])
        ELSE Cmp3Int(Len(a.e), Len(b.e))
  ELSE "err"                                         \* None < None, 1 < "a", dict < dict, [1] < (1,)

IsSub(x, y) == \E off \in 0..(Len(y) - Len(x)) : \A j \in 1..Len(x) : y[off + j] = x[j]

\* a in b : "T" / "F" / "E"(TypeError)
PyIn(a, b) ==
  CASE b.t \in {"list", "tuple"} -> IF \E j \in 1..Len(b.e) : PyEq(a, b.e[j]) THEN "T" ELSE "F"
    [] b.t = "str"  -> IF a.t # "str" THEN "E"       \* 'in <string>' requires string as left operand
                       ELSE IF IsSub(a.s, b.s) THEN "T" ELSE "F"
    [] b.t = "dict" -> IF ~Hashable(a) THEN "E"      \* unhashable type
                       ELSE IF \E j \in 1..Len(b.kv) : PyEq(a, b.kv[j][1]) THEN "T" ELSE "F"
    [] OTHER        -> "E"                           \* argument of type 'int'/'NoneType' is not iterable

\* `is`: identity.  Deterministic only when one side is a singleton (None/True/False); the
\* enumerated grammar guarantees that (right operand of is / is not is a singleton constant).
PyIs(a, b) == a.t = b.t /\ a.t \in {"none", "bool"} /\ a = b

TF(x) == IF x THEN "T" ELSE "F"
ApplyOp(op, a, b) ==
  CASE op = "Eq"    -> TF(PyEq(a, b))
    [] op = "NotEq" -> TF(~PyEq(a, b))
    [] op = "Lt"    -> LET c == Cmp3(a, b) IN IF c = "err" THEN "E" ELSE TF(c = "lt")
    [] op = "LtE"   -> LET c == Cmp3(a, b) IN IF c = "err" THEN "E" ELSE TF(c \in {"lt", "eq"})
    [] op = "Gt"    -> LET c == Cmp3(a, b) IN IF c = "err" THEN "E" ELSE TF(c = "gt")
    [] op = "GtE"   -> LET c == Cmp3(a, b) IN IF c = "err" THEN "E" ELSE TF(c \in {"gt", "eq"})
    [] op = "Is"    -> TF(PyIs(a, b))
    [] op = "IsNot" -> TF(~PyIs(a, b))
    [] op = "In"    -> PyIn(a, b)
    [] op = "NotIn" -> LET r == PyIn(a, b) IN IF r = "E" THEN "E" ELSE TF(r = "F")
CmpOps == {"Eq", "NotEq", "Lt", "LtE", "Gt", "GtE", "Is", "IsNot", "In", "NotIn"}

DictGet(d, key) ==                                   \* dict.get(key) for a hashable key
  LET hits == {j \in 1..Len(d.kv) : PyEq(d.kv[j][1], key)}
  IN  IF hits = {} THEN None ELSE d.kv[MinOf(hits)][2]

SeqIndex(v, k) ==                                    \* value[k] with IndexError -> None
  LET n == Len(v.e)
      p == IF k < 0 THEN k + n ELSE k
  IN  IF 0 <= p /\ p < n THEN v.e[p + 1] ELSE None

(***************************************************************************)
(* AST.  [k|->"name",id] [k|->"const",v] [k|->"attr",a,n] [k|->"sub",a,x]  *)
(* [k|->"slice",a,x] (a[x:]) [k|->"cmp",a,ops,rs] [k|->"bool",op,xs]       *)
(* [k|->"un",op,a] (op: not neg pos inv) [k|->"if",c,a,b] (a if c else b)  *)
(* [k|->"list",xs] [k|->"tuple",xs] [k|->"unsup",f,xs] (node types outside *)
(* the whitelist: call, binop, lambda, listcomp, genexp, dict, set, fstr,  *)
(* starred, walrus, await)                                                 *)
(***************************************************************************)
Name(id)        == [k |-> "name", id |-> id]
Const(v)        == [k |-> "const", v |-> v]
Attr(a, n)      == [k |-> "attr", a |-> a, n |-> n]
Sub(a, x)       == [k |-> "sub", a |-> a, x |-> x]
Slice(a, x)     == [k |-> "slice", a |-> a, x |-> x]
Cmp(a, ops, rs) == [k |-> "cmp", a |-> a, ops |-> ops, rs |-> rs]
BoolOp(op, xs)  == [k |-> "bool", op |-> op, xs |-> xs]
Un(op, a)       == [k |-> "un", op |-> op, a |-> a]
IfExp(c, a, b)  == [k |-> "if", c |-> c, a |-> a, b |-> b]
ListD(xs)       == [k |-> "list", xs |-> xs]
TupleD(xs)      == [k |-> "tuple", xs |-> xs]
Unsup(f, xs)    == [k |-> "unsup", f |-> f, xs |-> xs]

\* ast.Name: the spellings of the literals are matched BEFORE the context ("True"/"None" never
\* reach this branch in Python 3, they parse to constants); a missing key is None, not an error.
LookupName(id, ctx) ==
  CASE id = "true"  -> B(TRUE)
    [] id = "false" -> B(FALSE)
    [] id \in {"none", "null"} -> None
    [] OTHER -> IF id \in DOMAIN ctx THEN ctx[id] ELSE None

RECURSIVE Eval(_, _), CmpChain(_, _, _, _, _)

\* first error in Python's left-to-right evaluation order, else "no error"
FirstErr(vals) == LET bad == {j \in 1..Len(vals) : IsErr(vals[j])}
                  IN  IF bad = {} THEN None ELSE vals[MinOf(bad)]

Eval(n, ctx) ==
  CASE n.k = "const" -> n.v
    [] n.k = "name"  -> LookupName(n.id, ctx)
    [] n.k = "attr"  ->                                   \* nested dict access a.b ; else None
         LET v == Eval(n.a, ctx)
         IN  IF IsErr(v) THEN v
             ELSE IF v.t = "dict" THEN DictGet(v, S(<<n.n>>)) ELSE None
    [] n.k = "sub"   ->                                   \* value first, then the key
         LET v == Eval(n.a, ctx)
         IN  IF IsErr(v) THEN v
             ELSE LET key == Eval(n.x, ctx)
                  IN  IF IsErr(key) THEN key
                      ELSE IF v.t = "dict"
                           THEN IF Hashable(key) THEN DictGet(v, key)
                                ELSE Err("unhashable_key")       \* INTENDED; see Defect note below
                      ELSE IF v.t \in {"list", "tuple"} /\ Num(key) THEN SeqIndex(v, NumVal(key))
                      ELSE None
    [] n.k = "slice" ->                                   \* a[x:] : value evaluated, then ast.Slice rejected
         LET v == Eval(n.a, ctx)
         IN  IF IsErr(v) THEN v ELSE Err("unsupported_node")
    [] n.k = "cmp"   ->
         LET v == Eval(n.a, ctx)
         IN  IF IsErr(v) THEN v ELSE CmpChain(v, n.ops, n.rs, 1, ctx)
    [] n.k = "bool"  ->                                   \* all()/any() over a fully evaluated list:
         LET vals == [j \in 1..Len(n.xs) |-> Eval(n.xs[j], ctx)]   \* NO short circuit, result is a bool
         IN  IF IsErr(FirstErr(vals)) THEN FirstErr(vals)
             ELSE IF n.op = "and" THEN B(\A j \in 1..Len(vals) : Truthy(vals[j]))
                                  ELSE B(\E j \in 1..Len(vals) : Truthy(vals[j]))
    [] n.k = "un"    ->                                   \* operand first, then the operator lookup
         LET v == Eval(n.a, ctx)
         IN  IF IsErr(v) THEN v
             ELSE CASE n.op = "not" -> B(~Truthy(v))
                    [] n.op = "neg" -> IF Num(v) THEN I(0 - NumVal(v))
                                       ELSE Err("usub_nonnumeric")  \* INTENDED; see Defect note below
                    [] OTHER        -> Err("unsupported_unary")     \* +x, ~x
    [] n.k = "if"    ->                                   \* lazy: only the chosen branch
         LET c == Eval(n.c, ctx)
         IN  IF IsErr(c) THEN c ELSE IF Truthy(c) THEN Eval(n.a, ctx) ELSE Eval(n.b, ctx)
    [] n.k \in {"list", "tuple"} ->
         LET vals == [j \in 1..Len(n.xs) |-> Eval(n.xs[j], ctx)]
         IN  IF IsErr(FirstErr(vals)) THEN FirstErr(vals)
             ELSE IF n.k = "list" THEN L(vals) ELSE T(vals)
    [] n.k = "unsup" -> Err("unsupported_node")           \* rejected without looking inside

\* a op1 b op2 c ... : returns False at the first false link WITHOUT evaluating the rest
CmpChain(left, ops, rs, j, ctx) ==
  IF j > Len(ops) THEN B(TRUE)
  ELSE LET right == Eval(rs[j], ctx)
       IN  IF IsErr(right) THEN right
           ELSE LET r == ApplyOp(ops[j], left, right)
                IN  IF r = "E" THEN Err("compare_type")
                    ELSE IF r = "F" THEN B(FALSE)
                    ELSE CmpChain(right, ops, rs, j + 1, ctx)

(***************************************************************************)
(* Defect note.  At the two sites marked INTENDED the code at the pinned   *)
(* commit lets Python's TypeError escape (operator.neg on a non-number;    *)
(* dict.get with an unhashable key) instead of raising ExpressionError, so *)
(* Total fails there.  The specification states the intended behaviour;    *)
(* the site names are what the known-finding signatures pin.               *)
(***************************************************************************)

\* evaluate_expression: the whole text "true"/"1" ("false"/"0"), in any letter case, is answered
\* before parsing - so at top level `1` is True and `TRUE` is True, nested they are 1 and a name.
FastTrue(n)  == \/ n.k = "name"  /\ n.id \in {"true", "TRUE"}
                \/ n.k = "const" /\ (n.v = I(1) \/ n.v = B(TRUE))
FastFalse(n) == \/ n.k = "name"  /\ n.id \in {"false", "FALSE"}
                \/ n.k = "const" /\ (n.v = I(0) \/ n.v = B(FALSE))
EvalTop(n, ctx) == IF FastTrue(n) THEN B(TRUE) ELSE IF FastFalse(n) THEN B(FALSE) ELSE Eval(n, ctx)

(***************************************************************************)
(* The two engine call sites.  cond is an AST.                             *)
(***************************************************************************)
\* StartStage._should_skip with stageEnabled = {type: expression, expression: <text>}:
\* skip iff the value is falsy; an ExpressionError means "do not skip".
ShouldSkip(n, ctx) == LET r == EvalTop(n, ctx) IN IF IsErr(r) THEN FALSE ELSE ~Truthy(r)

\* CompleteStage._apply_split_logic, OR-split over the downstream list: conds[j] is an AST or
\* NoCond (no condition given: activated); an ExpressionError skips the branch; if nothing was
\* activated the FIRST downstream is activated by default.
NoCond     == [k |-> "nocond"]
HasCond(c) == c.k # "nocond"
SplitActivated(conds, ctx) ==
  LET on == {j \in 1..Len(conds) :
               IF ~HasCond(conds[j]) THEN TRUE
               ELSE LET r == EvalTop(conds[j], ctx) IN ~IsErr(r) /\ Truthy(r)}
  IN  IF on = {} /\ Len(conds) > 0 THEN {1} ELSE on

(***************************************************************************)
(* The contexts of the enumeration: empty (every name missing), and two    *)
(* that between them hold every value type under the same names.           *)
(***************************************************************************)
Ctx1 == [n \in {} |-> None]
Ctx2 == ( "x" :> I(2) @@ "y" :> L(<<I(1), S(<<"a">>)>>) @@ "s" :> S(<<"a", "b">>)
       @@ "d" :> D(<< <<S(<<"k">>), I(1)>>, <<S(<<"a">>), None>> >>) )
Ctx3 == ( "x" :> S(<<"a">>) @@ "y" :> T(<<I(2), L(<<I(1)>>)>>) @@ "s" :> S(<<>>)
       @@ "d" :> D(<< <<I(1), S(<<"b">>)>>, <<S(<<"k">>), D(<< <<S(<<"a">>), B(TRUE)>> >>)>>,
                      <<T(<<I(1), I(2)>>), L(<<>>)>> >>) )
Ctxs == <<Ctx1, Ctx2, Ctx3>>

(***************************************************************************)
(* Judging an outcome of the implementation.                               *)
(* outcome = [kind |-> "value", v |-> Value] | [kind |-> "experr"]         *)
(*         | [kind |-> "other"]  (any other exception escaped)             *)
(*         | [kind |-> "alien", truthy |-> BOOLEAN]  (a Python value of a  *)
(*            type outside the modelled universe, e.g. a type object)      *)
(***************************************************************************)
Total(o)         == o.kind \in {"value", "experr", "alien"}
Conf(o, n, ctx)  == LET r == EvalTop(n, ctx)
                    IN  IF IsErr(r) THEN o.kind = "experr" ELSE o.kind = "value" /\ o.v = r
\* the branch decision the callers derive from it (error = falsy for the split, = enabled for skip)
Branch(o)        == CASE o.kind = "value" -> IF Truthy(o.v) THEN "T" ELSE "F"
                      [] o.kind = "alien" -> IF o.truthy THEN "T" ELSE "F"
                      [] OTHER            -> "E"
BranchOf(r)      == IF IsErr(r) THEN "E" ELSE IF Truthy(r) THEN "T" ELSE "F"
SameBranch(o, n, ctx) == Branch(o) = BranchOf(EvalTop(n, ctx))
=============================================================================
