------------------------------ MODULE MC_Queue ------------------------------
(***************************************************************************)
(* Model-checking / export root for Queue (property C08).                  *)
(*                                                                         *)
(* 1. Property runs: the cfg lists the invariants / action properties of   *)
(*    Queue; nothing of this module is needed.                             *)
(* 2. Spec -> code binding (DESIGN 4.2): with ACTION_CONSTRAINT ExportEdge *)
(*    and INVARIANT ExportState TLC prints one line per distinct state     *)
(*    ("S key json") and one per explored transition ("E key key' label"). *)
(*    harness/check_queue.py rebuilds the state graph from these lines,    *)
(*    covers its edges by walks from the initial state and replays every   *)
(*    walk on the real SqliteQueue, comparing the real tables, the real    *)
(*    client (park position, return value) and the ledger with `t` after   *)
(*    every step.  Run with -workers 1 and without SYMMETRY.               *)
(* 3. Counter-examples of the recorded defects are taken from halting      *)
(*    runs (the `lbl` variable of every state of TLC's error trace is the  *)
(*    operation sequence) and replayed on the real queue the same way.     *)
(***************************************************************************)
EXTENDS Queue, Json, TLCExt

RowSet(f)  == {[id |-> i, msg |-> f[i].msg, att |-> f[i].att, maxAtt |-> f[i].maxAtt, lock |-> f[i].lock,
                delayed |-> f[i].delayed, ver |-> f[i].ver, front |-> f[i].front] : i \in DOMAIN f}
DlqSet(f)  == {[id |-> k, msg |-> f[k].msg, att |-> f[k].att, orig |-> f[k].orig] : k \in DOMAIN f}
\* what the tables and the trigger ledger show of `acked`: pushed messages that are in neither table
\* (inside an open DLQ move that is also true of the message being moved)
Gone(d)    == {m \in d.pushed : ~\E i \in DOMAIN d.rows : d.rows[i].msg = m} \ {d.dlq[k].msg : k \in DOMAIN d.dlq}
ProjDb(d)  == [rows |-> RowSet(d.rows), dlq |-> DlqSet(d.dlq), nid |-> d.nid, ndlq |-> d.ndlq,
               order |-> d.order, pushed |-> d.pushed, acked |-> d.acked, gone |-> Gone(d),
               leases |-> {[c |-> g[1], id |-> g[2], msg |-> g[3]] : g \in d.leases},
               gh |-> {[d |-> x[1], msg |-> x[2]] : x \in d.gh}]
ProjCl(r)  == [pc |-> r.pc, op |-> r.op, cand |-> r.cand, todo |-> r.todo, moved |-> r.moved,
               held |-> r.held,
               tmp |-> IF r.pc \in {"mv_ins", "rp_ins"} THEN <<r.tmp[1]>> ELSE IF r.pc = "commit" /\ r.op \in {"poll", "extend"} THEN r.tmp ELSE <<>>]
St == [db  |-> ProjDb(db),
       txn |-> [owner |-> txn.owner, img |-> IF txn.owner = Nobody THEN [none |-> TRUE] ELSE ProjDb(txn.img)],
       cl  |-> {[c |-> c, r |-> ProjCl(cl[c])] : c \in Clients},
       cnt |-> cnt]

\* Two 32-bit fingerprints of the VIEW identify a state in the export (TLCFP = lower half of TLC's own).
F1 == TLCFP(<<1, View_>>)
F2 == TLCFP(<<2, View_>>)
Key == ToString(F1) \o ":" \o ToString(F2)
\* INVARIANT: evaluated once per distinct state -> one "S" line per state
ExportState == PrintT("S " \o Key \o " " \o ToJson(St))
\* ACTION_CONSTRAINT: evaluated once per explored transition -> one "E" line per edge
ExportEdge == PrintT("E " \o Key \o " " \o Key' \o " " \o ToJson(lbl'))

(* depth bound for the export configurations *)
CONSTANT MaxDepth
DepthBound == TLCGet("level") <= MaxDepth
=============================================================================
