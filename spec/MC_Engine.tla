----------------------------- MODULE MC_Engine -----------------------------
(***************************************************************************)
(* Model-checking root for Engine.  Property formulas named in CheckProps  *)
(* are evaluated in every explored state / on every explored transition.  *)
(* A failure is PRINTED with the full state as JSON and exploration is     *)
(* pruned behind it (the constraint returns FALSE), so TLC keeps covering  *)
(* every other behaviour; the Python side matches each printed failure     *)
(* against known_findings.json and reports anything else as a violation.   *)
(***************************************************************************)
EXTENDS EngineProps, Json

StateJson == ToJson([wf |-> wf, st |-> st, tk |-> tk, q |-> q, dlq |-> dlq, done |-> done,
                     wk |-> wk, ledger |-> ledger, gh |-> gh, cnt |-> cnt, lbl |-> lbl])
NoViolation ==
  FailedState = {} \/ ((\A n \in FailedState : PrintT(<<"VIOL", n, "-", StateJson>>)) /\ FALSE)
NoActionViolation ==
  \A n \in CheckProps \cap ActionPropNames :
     (AP(n) \/ (PrintT(<<"VIOL", n, lbl'.name, StateJson>>) /\ FALSE))
DepthBound == TLCGet("level") <= MaxDepth
QuiescentReached == Quiescent => PrintT(<<"QUIET", wf.status, [s \in DOMAIN st |-> st[s].status],
                                          [t \in DOMAIN ledger |-> Len(ledger[t])]>>)
=============================================================================
