---- MODULE MC_WfRow ----
\* export root for WfRow.tla: prints every reachable (row, pushed) pair, marking the terminal ones
EXTENDS WfRow, Json
Seen == PrintT(<<"WFROW", ToJson([row |-> row, pushed |-> pushed]), IF ENABLED Next THEN "live" ELSE "terminal">>)
====
