-------------------------------- MODULE Race --------------------------------
(***************************************************************************)
(* Several workers handle messages of the SAME workflow at the same time.  *)
(* Grain: a worker step is either its initial reads (everything up to its  *)
(* first write statement) or one write transaction (first DML .. commit /  *)
(* rollback) together with the reads that follow it - SQLite excludes      *)
(* every other writer for the duration of a write transaction, and reads   *)
(* outside a transaction are single-statement snapshots, so this is the    *)
(* grain at which workers can really interleave (DESIGN.md 2.3, 4.1).      *)
(*                                                                         *)
(* Scenario "A": every upstream branch of the join stage d has completed   *)
(*   and each worker holds one StartStage(d) (one per completed branch).   *)
(* Scenario "B": the branches are RUNNING with finished tasks and each     *)
(*   worker holds the CompleteStage of one branch (join tracking on d for  *)
(*   first-of / quorum joins, then the downstream StartStage(d)).          *)
(* A worker's decisions use the SNAPSHOT it read; its writes are compare-  *)
(* and-swap on the version (and status) it read.                           *)
(*   handlers/start_stage/handler.py:_start_if_ready                       *)
(*   handlers/complete_stage/handler.py + split_logic.py:_update_join_tracking *)
(*   persistence/sqlite/transaction.py:store_stage(expected_phase)         *)
(***************************************************************************)
EXTENDS Naturals, Sequences, FiniteSets, TLC, RaceCfg
\* RaceCfg: Workers, Branch (worker -> the stage its message is about), JoinType, Threshold, Scenario, Up (upstream
\* refs of d), SibOrder (sibling stages in store order), InitSt (projection of the real database at race start)

VARIABLES st,      \* stage rows: ref -> [status, ver, fired, cb, tver (version of its single task)]
          q,       \* message ids in the queue: <<type, stage, n>>; n < 100 = the racing messages, n >= 100 = pushed during the race
          done,    \* processed-message ids
          claims,  \* claim table: key -> owning stage (mutex / deferred choice)
          wk,      \* worker -> [pc, snap, sib]
          gh       \* ghost: claims / plans / StartTask pushes, StartStage(d) pushes, stages ever claimed
vars == <<st, q, done, claims, wk, gh>>

Continuable == {"SUCCEEDED", "FAILED_CONTINUE", "SKIPPED", "REDIRECT"}
Tracked     == JoinType \in {"DISCRIMINATOR", "N_OF_M"}
Complete    == {"CANCELED", "SUCCEEDED", "STOPPED", "SKIPPED", "TERMINAL", "FAILED_CONTINUE"}
Starter(w)   == Scenario = "A" \/ (Scenario = "C" /\ Branch[w] = "d")     \* worker w holds a StartStage(d)
Completer(w) == Scenario = "B" \/ (Scenario = "C" /\ Branch[w] # "d")     \* worker w holds CompleteStage(Branch[w])
MsgOf(w)    == CASE Starter(w) -> <<"StartStage", "d", w>>
                 [] Completer(w) -> <<"CompleteStage", Branch[w], 1>>
                 [] OTHER -> <<"StartStage", Branch[w], 1>>          \* "M" mutex siblings, "X" deferred-choice siblings
NewMsg(typ, s) == <<typ, s, 100 + Cardinality({m \in q : m[3] >= 100})>>

\* InitSt (RaceCfg) is the projection of the REAL database at the moment the race starts:
\* ref -> [status, ver, fired, cb, tver]
Init ==
  /\ st = InitSt
  /\ q = {MsgOf(w) : w \in Workers}
  /\ done = {}
  /\ claims = <<>>
  /\ wk = [w \in Workers |-> [pc |-> "read", snap |-> <<>>, sib |-> <<>>]]
  /\ gh = [nclaims |-> 0, plans |-> 0, startTask |-> 0, startStageD |-> 0, claimed |-> {}]

(* dag/readiness.py on a snapshot of d and its upstream *)
Ready(sn) ==
  LET C == {u \in Up : sn.up[u] \in Continuable} IN
  CASE JoinType = "DISCRIMINATOR" -> IF sn.fired THEN "RETRY" ELSE IF C # {} THEN "READY" ELSE "WAIT"
    [] JoinType = "N_OF_M" -> IF sn.fired THEN "RETRY" ELSE IF Cardinality(C) >= Threshold THEN "READY" ELSE "WAIT"
    [] JoinType = "MULTI_MERGE" -> IF C # {} THEN "READY" ELSE "WAIT"
    [] OTHER -> IF C = Up THEN "READY" ELSE "WAIT"

Snap(s) == [status |-> st[s].status, ver |-> st[s].ver, fired |-> st[s].fired, cb |-> st[s].cb,
            up |-> [u \in Up |-> st[u].status],
            nt |-> st[s].nt,
            dcb |-> IF "d" \in DOMAIN st THEN st["d"].cb ELSE {},
            sibs |-> [o \in DOMAIN st |-> st[o].status]]
Go(w, pc) == wk' = [wk EXCEPT ![w].pc = pc]

(* ---- StartStage(d) ------------------------------------------------------------------------ *)
SSRead(w) ==
  /\ Starter(w) /\ wk[w].pc = "read"
  /\ LET sn == Snap("d") r == Ready(sn) IN
     wk' = [wk EXCEPT ![w] = [pc |-> IF MsgOf(w) \in done THEN "ack"
                                      ELSE IF r = "READY" /\ sn.status = "NOT_STARTED" THEN "claim"
                                      \* zombie re-plan: claimed (RUNNING) but never planned - no task rows, no children
                                      ELSE IF r = "READY" /\ sn.status = "RUNNING" /\ sn.nt = 0 THEN "claim"
                                      ELSE IF r = "RETRY" THEN "requeue"
                                      ELSE "postmark",
                              snap |-> sn, sib |-> <<>>]]
  /\ UNCHANGED <<st, q, done, claims, gh>>

SSClaim(w) ==   \* UPDATE .. WHERE version = :v AND status = :expected_phase (the status the claimer read: NOT_STARTED,
                \* or RUNNING on the zombie path); the loser swallows ConcurrencyError
  /\ wk[w].pc = "claim"
  /\ IF st["d"].ver = wk[w].snap.ver /\ st["d"].status = wk[w].snap.status
     THEN /\ st' = [st EXCEPT !["d"].status = "RUNNING", !["d"].ver = @ + 1,
                               !["d"].tver = IF st["d"].nt > 0 THEN @ + 1 ELSE @]
          /\ gh' = [gh EXCEPT !.nclaims = @ + (IF wk[w].snap.status = "NOT_STARTED" THEN 1 ELSE 0), !.claimed = @ \cup {"d"}]
          /\ Go(w, "plan")
     ELSE /\ UNCHANGED <<st, gh>> /\ Go(w, "postmark")
  /\ UNCHANGED <<q, done, claims>>

Target(w) == IF Starter(w) THEN "d" ELSE Branch[w]
SSPlan(w) ==    \* plan commit: CAS on the version the claim produced; mark + StartTask in the same commit
  /\ wk[w].pc = "plan"
  /\ LET s == Target(w) IN
     IF st[s].ver = wk[w].snap.ver + 1
     THEN /\ st' = [st EXCEPT ![s].ver = @ + 1, ![s].fired = @ \/ (s = "d" /\ Tracked),
                               \* tasks built by the stage's builder are inserted with the plan (fresh ids: new rows)
                               ![s].tver = IF st[s].nt > 0 /\ wk[w].snap.nt > 0 THEN @ + 1 ELSE @,
                               ![s].nt = IF wk[w].snap.nt = 0 THEN @ + 1 ELSE @]
          /\ done' = done \cup {MsgOf(w)}
          /\ q' = q \cup {NewMsg("StartTask", s)}
          /\ gh' = [gh EXCEPT !.plans = @ + 1, !.startTask = @ + 1]
     ELSE UNCHANGED <<st, done, q, gh>>
  /\ Go(w, "postmark") /\ UNCHANGED claims

SSRequeue(w) ==  \* fired join: StartStage re-queued with retry_count + 1 (own commit)
  /\ wk[w].pc = "requeue"
  /\ q' = q \cup {NewMsg("StartStage", Target(w))}
  /\ Go(w, "postmark")
  /\ UNCHANGED <<st, done, claims, gh>>

(* ---- CompleteStage(branch) ------------------------------------------------------------------ *)
CSRead(w) ==
  /\ Completer(w) /\ wk[w].pc = "read"
  /\ LET b == Branch[w] sn == Snap(b) IN
     wk' = [wk EXCEPT ![w] = [pc |-> IF MsgOf(w) \in done THEN "ack"
                                      ELSE IF Tracked /\ b \notin sn.dcb THEN "jointrack" ELSE "final",
                              snap |-> sn, sib |-> <<>>]]
  /\ UNCHANGED <<st, q, done, claims, gh>>

CSJoinTrack(w) ==
  \* store_stage(fresh d, expected_phase): a failed CAS leaves the implicit transaction open, the
  \* retry re-reads and writes inside it, so the whole step is atomic and ends with b recorded.
  /\ wk[w].pc = "jointrack"
  /\ st' = [st EXCEPT !["d"].cb = @ \cup {Branch[w]}, !["d"].ver = @ + 1, !["d"].tver = @ + 1]
  /\ Go(w, "final")
  /\ UNCHANGED <<q, done, claims, gh>>

CSFinal(w) ==   \* stage status + mark + downstream StartStage(d) in one commit
  /\ wk[w].pc = "final"
  /\ LET b == Branch[w] IN
     IF st[b].ver = wk[w].snap.ver
     THEN /\ st' = [st EXCEPT ![b].status = "SUCCEEDED", ![b].ver = @ + 1, ![b].tver = @ + 1]
          /\ done' = done \cup {MsgOf(w)}
          /\ q' = q \cup {NewMsg("StartStage", "d")}
          /\ gh' = [gh EXCEPT !.startStageD = @ + 1]
     ELSE UNCHANGED <<st, done, q, gh>>
  /\ Go(w, "postmark") /\ UNCHANGED claims

(* ---- StartStage of sibling stages sharing a mutex key ("M") or a deferred-choice group ("X") ------ *)
ClaimKey == IF Scenario = "M" THEN "mutex:m" ELSE "choice:g"
SibRead(w) ==   \* fast path: _is_mutex_blocked / _is_deferred_choice_claimed read every stage of the workflow
  /\ Scenario \in {"M", "X"} /\ wk[w].pc = "read"
  /\ LET s == Branch[w] sn == Snap(s)
         others == DOMAIN st \ {s}
     IN wk' = [wk EXCEPT ![w] = [pc |-> IF MsgOf(w) \in done THEN "ack"
                                        ELSE IF sn.status # "NOT_STARTED" THEN "postmark"
                                        ELSE IF Scenario = "M" /\ \E o \in others : sn.sibs[o] = "RUNNING" THEN "requeue"
                                        ELSE IF Scenario = "X" /\ \E o \in others : sn.sibs[o] # "NOT_STARTED" THEN "cancelself"
                                        ELSE "sibclaim",
                                snap |-> sn, sib |-> <<>>]]
  /\ UNCHANGED <<st, q, done, claims, gh>>

SibClaim(w) ==
  \* one transaction: INSERT OR IGNORE of the claim row (mutex: steal only from a terminal owner) and the
  \* NOT_STARTED -> RUNNING compare-and-swap of the stage; a blocked claim rolls everything back
  /\ wk[w].pc = "sibclaim"
  /\ LET s == Branch[w]
         free == \/ ClaimKey \notin DOMAIN claims \/ claims[ClaimKey] = s
                 \/ (Scenario = "M" /\ st[claims[ClaimKey]].status \in Complete)
     IN IF free /\ st[s].ver = wk[w].snap.ver /\ st[s].status = "NOT_STARTED"
        THEN /\ st' = [st EXCEPT ![s].status = "RUNNING", ![s].ver = @ + 1, ![s].tver = @ + 1]
             /\ claims' = [k \in DOMAIN claims \cup {ClaimKey} |-> IF k = ClaimKey THEN s ELSE claims[k]]
             /\ gh' = [gh EXCEPT !.nclaims = @ + 1, !.claimed = @ \cup {s}]
             /\ LET \* winner of a choice re-reads the workflow: still NOT_STARTED siblings get a CancelStage
                     sibs == IF Scenario = "X"
                             THEN SelectSeq(SibOrder, LAMBDA o : o # s /\ st[o].status = "NOT_STARTED") ELSE <<>>
                IN wk' = [wk EXCEPT ![w].pc = IF sibs # <<>> THEN "sibcancel" ELSE "plan", ![w].sib = sibs]
        ELSE /\ UNCHANGED <<st, claims, gh>>
             /\ Go(w, IF ~free THEN (IF Scenario = "M" THEN "requeue" ELSE "cancelself") ELSE "postmark")
  /\ UNCHANGED <<q, done>>

SibCancel(w) ==   \* own commit per sibling
  /\ wk[w].pc = "sibcancel"
  /\ wk[w].sib # <<>>
  /\ q' = q \cup {NewMsg("CancelStage", Head(wk[w].sib))}
  /\ wk' = [wk EXCEPT ![w].sib = Tail(@), ![w].pc = IF Len(wk[w].sib) = 1 THEN "plan" ELSE "sibcancel"]
  /\ UNCHANGED <<st, done, claims, gh>>
CancelSelf(w) ==    \* lost the choice: processed mark + CancelStage(self) in one commit
  /\ wk[w].pc = "cancelself"
  /\ done' = done \cup {MsgOf(w)}
  /\ q' = q \cup {NewMsg("CancelStage", Branch[w])}
  /\ Go(w, "postmark")
  /\ UNCHANGED <<st, claims, gh>>

(* ---- processor tail --------------------------------------------------------------------------- *)
PostMark(w) == /\ wk[w].pc = "postmark" /\ done' = done \cup {MsgOf(w)} /\ Go(w, "ack") /\ UNCHANGED <<st, q, claims, gh>>
Ack(w)      == /\ wk[w].pc = "ack" /\ q' = q \ {MsgOf(w)} /\ Go(w, "end") /\ UNCHANGED <<st, done, claims, gh>>

Step(w) == SSRead(w) \/ SSClaim(w) \/ SSPlan(w) \/ SSRequeue(w) \/ CSRead(w) \/ CSJoinTrack(w) \/ CSFinal(w)
           \/ SibRead(w) \/ SibClaim(w) \/ SibCancel(w) \/ CancelSelf(w)
           \/ PostMark(w) \/ Ack(w)
Next == \E w \in Workers : Step(w)
Spec == Init /\ [][Next]_vars

AllDone == \A w \in Workers : wk[w].pc = "end"

(* C04: exactly one of the racing workers starts the stage: claimed once, planned once, first task
   triggered once; every upstream completion is recorded on the join stage (no lost update) and
   triggers the join stage exactly once per branch. *)
ClaimOnce       == gh.nclaims <= 1
PlanOnce        == gh.plans <= 1 /\ gh.startTask <= 1
StartedExactlyOnce == (AllDone /\ Scenario = "A") => (gh.nclaims = 1 /\ gh.plans = 1 /\ gh.startTask = 1
                                                      /\ st["d"].status = "RUNNING")
BranchesRecorded == (AllDone /\ Scenario = "B") =>
                       /\ (Tracked => st["d"].cb = {Branch[w] : w \in Workers})
                       /\ gh.startStageD = Cardinality(Workers)
                       /\ \A w \in Workers : st[Branch[w]].status = "SUCCEEDED"
(* Scenario "C" (a StartStage(d) sent by an early branch races with the CompleteStage of a later branch that
   tracks itself on d): whatever the interleaving, d must end planned exactly once, or still NOT_STARTED with a
   fresh StartStage(d) on its way - never claimed-but-unplanned with nothing left to plan it. *)
JoinNotWedged == (AllDone /\ Scenario = "C") =>
   \/ (gh.plans = 1 /\ gh.startTask = 1)
   \/ (st["d"].status = "NOT_STARTED" /\ \E m \in q : m[1] = "StartStage" /\ m[2] = "d" /\ m[3] >= 100)

(* C11: two stages sharing a mutex key are never RUNNING together; of a deferred-choice group exactly one
   stage is ever claimed and every other one gets its CancelStage *)
MutexExclusive == Scenario = "M" => Cardinality({s \in DOMAIN st : st[s].status = "RUNNING"}) <= 1
ChoiceOneWinner == Scenario = "X" => Cardinality(gh.claimed) <= 1
SiblingsSettled == (AllDone /\ Scenario \in {"M", "X"}) =>
   /\ Cardinality(gh.claimed) = 1
   /\ \A w \in Workers : Branch[w] \notin gh.claimed =>
         \E m \in q : m[3] >= 100 /\ m[2] = Branch[w] /\ m[1] = (IF Scenario = "M" THEN "StartStage" ELSE "CancelStage")
NothingLeftLocked == AllDone => \A w \in Workers : MsgOf(w) \notin q /\ MsgOf(w) \in done
=============================================================================
