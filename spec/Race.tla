-------------------------------- MODULE Race --------------------------------
(***************************************************************************)
(* Several workers handle messages of the SAME workflow at the same time.  *)
(* Grain: a worker step is either its initial reads (everything up to its  *)
(* first write statement) or one write transaction (first DML .. commit /  *)
(* rollback) together with the reads that follow it - SQLite excludes      *)
(* every other writer for the duration of a write transaction, and reads   *)
(* outside a transaction are single-statement snapshots, so this is the    *)
(* grain at which workers can really interleave (DESIGN.md 2.3, 4.1).      *)
(*                                                                         *)
(* Scenario "A": every upstream branch of the join stage d has completed   *)
(*   and each worker holds one StartStage(d) (one per completed branch).   *)
(* Scenario "B": the branches are RUNNING with finished tasks and each     *)
(*   worker holds the CompleteStage of one branch (join tracking on d for  *)
(*   first-of / quorum joins, then the downstream StartStage(d)).          *)
(* A worker's decisions use the SNAPSHOT it read; its writes are compare-  *)
(* and-swap on the version (and status) it read.                           *)
(*   handlers/start_stage/handler.py:_start_if_ready                       *)
(*   handlers/complete_stage/handler.py + split_logic.py:_update_join_tracking *)
(*   persistence/sqlite/transaction.py:store_stage(expected_phase)         *)
(***************************************************************************)
EXTENDS Naturals, Sequences, FiniteSets, TLC, RaceCfg
\* RaceCfg: Workers, Branch (worker -> upstream branch), JoinType, Threshold, Scenario, Up (set of upstream refs)

VARIABLES st,      \* stage rows: ref -> [status, ver, fired, cb, tver (version of its single task), tstatus]
          q,       \* message ids in the queue (all locked by their holder)
          done,    \* processed-message ids
          wk,      \* worker -> [pc, snap]
          gh       \* ghost: claims / plans / StartTask pushes of d, StartStage(d) pushes per branch
vars == <<st, q, done, wk, gh>>

Continuable == {"SUCCEEDED", "FAILED_CONTINUE", "SKIPPED", "REDIRECT"}
Tracked     == JoinType \in {"DISCRIMINATOR", "N_OF_M"}
MsgOf(w)    == IF Scenario = "A" THEN <<"StartStage", "d", w>> ELSE <<"CompleteStage", Branch[w], 1>>

\* InitSt (RaceCfg) is the projection of the REAL database at the moment the race starts:
\* ref -> [status, ver, fired, cb, tver]
Init ==
  /\ st = InitSt
  /\ q = {MsgOf(w) : w \in Workers}
  /\ done = {}
  /\ wk = [w \in Workers |-> [pc |-> "read", snap |-> <<>>]]
  /\ gh = [claims |-> 0, plans |-> 0, startTask |-> 0, startStageD |-> 0]

(* dag/readiness.py on a snapshot of d and its upstream *)
Ready(sn) ==
  LET C == {u \in Up : sn.up[u] \in Continuable} IN
  CASE JoinType = "DISCRIMINATOR" -> IF sn.fired THEN "RETRY" ELSE IF C # {} THEN "READY" ELSE "WAIT"
    [] JoinType = "N_OF_M" -> IF sn.fired THEN "RETRY" ELSE IF Cardinality(C) >= Threshold THEN "READY" ELSE "WAIT"
    [] JoinType = "MULTI_MERGE" -> IF C # {} THEN "READY" ELSE "WAIT"
    [] OTHER -> IF C = Up THEN "READY" ELSE "WAIT"

Snap(s) == [status |-> st[s].status, ver |-> st[s].ver, fired |-> st[s].fired, cb |-> st[s].cb,
            up |-> [u \in Up |-> st[u].status], dver |-> st["d"].ver, dstatus |-> st["d"].status, dcb |-> st["d"].cb]
Go(w, pc) == wk' = [wk EXCEPT ![w].pc = pc]

(* ---- StartStage(d) ------------------------------------------------------------------------ *)
SSRead(w) ==
  /\ Scenario = "A" /\ wk[w].pc = "read"
  /\ LET sn == Snap("d") r == Ready(sn) IN
     wk' = [wk EXCEPT ![w] = [pc |-> IF MsgOf(w) \in done THEN "ack"
                                      ELSE IF r = "READY" /\ sn.status = "NOT_STARTED" THEN "claim"
                                      ELSE IF r = "RETRY" THEN "requeue"
                                      ELSE "postmark",
                              snap |-> sn]]
  /\ UNCHANGED <<st, q, done, gh>>

SSClaim(w) ==   \* UPDATE .. WHERE version = :v AND status = 'NOT_STARTED'; loser swallows ConcurrencyError
  /\ wk[w].pc = "claim"
  /\ IF st["d"].ver = wk[w].snap.ver /\ st["d"].status = "NOT_STARTED"
     THEN /\ st' = [st EXCEPT !["d"].status = "RUNNING", !["d"].ver = @ + 1, !["d"].tver = @ + 1]
          /\ gh' = [gh EXCEPT !.claims = @ + 1]
          /\ Go(w, "plan")
     ELSE /\ UNCHANGED <<st, gh>> /\ Go(w, "postmark")
  /\ UNCHANGED <<q, done>>

SSPlan(w) ==    \* plan commit: CAS on the version the claim produced; mark + StartTask in the same commit
  /\ wk[w].pc = "plan"
  /\ IF st["d"].ver = wk[w].snap.ver + 1
     THEN /\ st' = [st EXCEPT !["d"].ver = @ + 1, !["d"].tver = @ + 1, !["d"].fired = @ \/ Tracked]
          /\ done' = done \cup {MsgOf(w)}
          /\ q' = q \cup {<<"StartTask", "d", gh.startTask + 1>>}
          /\ gh' = [gh EXCEPT !.plans = @ + 1, !.startTask = @ + 1]
     ELSE UNCHANGED <<st, done, q, gh>>
  /\ Go(w, "postmark")

SSRequeue(w) ==  \* fired join: StartStage re-queued with retry_count + 1 (own commit)
  /\ wk[w].pc = "requeue"
  /\ q' = q \cup {<<"StartStage", "d", 10 + w>>}
  /\ Go(w, "postmark")
  /\ UNCHANGED <<st, done, gh>>

(* ---- CompleteStage(branch) ------------------------------------------------------------------ *)
CSRead(w) ==
  /\ Scenario = "B" /\ wk[w].pc = "read"
  /\ LET b == Branch[w] sn == Snap(b) IN
     wk' = [wk EXCEPT ![w] = [pc |-> IF MsgOf(w) \in done THEN "ack"
                                      ELSE IF Tracked /\ b \notin sn.dcb THEN "jointrack" ELSE "final",
                              snap |-> sn]]
  /\ UNCHANGED <<st, q, done, gh>>

CSJoinTrack(w) ==
  \* store_stage(fresh d, expected_phase): a failed CAS leaves the implicit transaction open, the
  \* retry re-reads and writes inside it, so the whole step is atomic and ends with b recorded.
  /\ wk[w].pc = "jointrack"
  /\ st' = [st EXCEPT !["d"].cb = @ \cup {Branch[w]}, !["d"].ver = @ + 1, !["d"].tver = @ + 1]
  /\ Go(w, "final")
  /\ UNCHANGED <<q, done, gh>>

CSFinal(w) ==   \* stage status + mark + downstream StartStage(d) in one commit
  /\ wk[w].pc = "final"
  /\ LET b == Branch[w] IN
     IF st[b].ver = wk[w].snap.ver
     THEN /\ st' = [st EXCEPT ![b].status = "SUCCEEDED", ![b].ver = @ + 1, ![b].tver = @ + 1]
          /\ done' = done \cup {MsgOf(w)}
          /\ q' = q \cup {<<"StartStage", "d", gh.startStageD + 1>>}
          /\ gh' = [gh EXCEPT !.startStageD = @ + 1]
     ELSE UNCHANGED <<st, done, q, gh>>
  /\ Go(w, "postmark")

(* ---- processor tail --------------------------------------------------------------------------- *)
PostMark(w) == /\ wk[w].pc = "postmark" /\ done' = done \cup {MsgOf(w)} /\ Go(w, "ack") /\ UNCHANGED <<st, q, gh>>
Ack(w)      == /\ wk[w].pc = "ack" /\ q' = q \ {MsgOf(w)} /\ Go(w, "end") /\ UNCHANGED <<st, done, gh>>

Step(w) == SSRead(w) \/ SSClaim(w) \/ SSPlan(w) \/ SSRequeue(w) \/ CSRead(w) \/ CSJoinTrack(w) \/ CSFinal(w)
           \/ PostMark(w) \/ Ack(w)
Next == \E w \in Workers : Step(w)
Spec == Init /\ [][Next]_vars

AllDone == \A w \in Workers : wk[w].pc = "end"

(* C04: exactly one of the racing workers starts the stage: claimed once, planned once, first task
   triggered once; every upstream completion is recorded on the join stage (no lost update) and
   triggers the join stage exactly once per branch. *)
ClaimOnce       == gh.claims <= 1
PlanOnce        == gh.plans <= 1 /\ gh.startTask <= 1
StartedExactlyOnce == (AllDone /\ Scenario = "A") => (gh.claims = 1 /\ gh.plans = 1 /\ gh.startTask = 1
                                                      /\ st["d"].status = "RUNNING")
BranchesRecorded == (AllDone /\ Scenario = "B") =>
                       /\ (Tracked => st["d"].cb = {Branch[w] : w \in Workers})
                       /\ gh.startStageD = Cardinality(Workers)
                       /\ \A w \in Workers : st[Branch[w]].status = "SUCCEEDED"
NothingLeftLocked == AllDone => \A w \in Workers : MsgOf(w) \notin q /\ MsgOf(w) \in done
=============================================================================
