---------------------------- MODULE MC_Reducers ----------------------------
(***************************************************************************)
(* Exhaustive enumeration root for Reducers.                               *)
(*   state      = one case (reducer name, per-branch slots in branch order)*)
(*   transition = two adjacent branches finish in the other order          *)
(* Adjacent transpositions generate every permutation, so an action        *)
(* property that holds on every transition holds between any two orders.   *)
(* Every state is an initial state: the number of distinct states is the   *)
(* number of enumerated cases.  `Export` prints each case with the result  *)
(* the specification predicts; the harness replays it on                   *)
(* stabilize.reducers.apply_output_reducers.                               *)
(***************************************************************************)
EXTENDS Reducers, Json

CONSTANTS MaxLen,      \* branch lists of length 0..MaxLen
          Rich         \* FALSE: quick universe, TRUE: thorough universe

VARIABLES name, slots
vars == <<name, slots>>

A == Str(<<97>>)
B == Str(<<98>>)
Base == {I(0), I(1), I(2), Lst(<<I(1)>>), Lst(<<I(1), I(2)>>), Lst(<<>>), None, A,
         Dct([k |-> I(1)]), Dct([k |-> I(2)])}
More == {B, Str(<<>>), Lst(<<I(2)>>), Dct([j |-> I(1)]), Dct(<<>>)}
Values == IF Rich THEN Base \cup More ELSE Base
Slots == Values \cup {Absent}
Names == Builtin \cup {"median"}          \* "median" is not a reducer: the unknown-name case

Init == /\ name \in Names
        /\ slots \in UNION {[1..n -> Slots] : n \in 0..MaxLen}

Swap(i) == /\ slots[i] # slots[i + 1]
           /\ slots' = [slots EXCEPT ![i] = slots[i + 1], ![i + 1] = slots[i]]
           /\ UNCHANGED name
Next == \E i \in 1..(Len(slots) - 1) : Swap(i)
Spec == Init /\ [][Next]_vars

Result == Apply(name, slots)

\* A formula that is false is RECORDED (printed with the case) instead of halting TLC, so that one
\* run reports every failing case; the harness turns each printed VIOL into a violation.
CaseJson == ToJson([n |-> name, s |-> slots])

\* invariant: the order laws of the case (all permutations at once, exact characterisations)
Laws == OrderLaw(name, slots) \/ PrintT(<<"VIOL", "OrderLaw", CaseJson>>)

\* action property: finishing two adjacent branches in the other order
SwapOK ==
  /\ name \in Insensitive    => Apply(name, slots') = Apply(name, slots)
  /\ name \in BagInsensitive => SameItems(Apply(name, slots'), Apply(name, slots))
  /\ (name = "merge" /\ Compatible(slots)) => Apply(name, slots') = Apply(name, slots)
  /\ (name \in {"first", "last"} /\ AllEqual(slots)) => Apply(name, slots') = Apply(name, slots)
SwapLaw == [][SwapOK \/ PrintT(<<"VIOL", "SwapLaw", CaseJson>>)]_vars

\* every reducer is total on the universe: a value, NoKey or Err - never a TLC evaluation error
TypeOK == Result.t \in {"int", "none", "str", "list", "dict", "nokey", "err"}

Export == PrintT(<<"CASE", ToJson([n |-> name, s |-> slots, r |-> Result])>>)
=============================================================================
