------------------------------ MODULE Obs_Graph ------------------------------
(***************************************************************************)
(* Code -> spec direction for Graph: what the REAL Workflow.create,        *)
(* topological_sort and get_execution_layers did on each graph is read     *)
(* from a JSON file and judged by the definitions of Graph.  One state per *)
(* observation; a formula that is false is PRINTED (not halted on), so one *)
(* TLC run judges the whole batch.  Verdicts are TLC's.                    *)
(*                                                                         *)
(* observation = [g |-> <<<<ref, <<req,...>>, join>>, ...>>,               *)
(*                created |-> BOOLEAN,   \* Workflow.create returned       *)
(*                kind    |-> STRING,    \* defect named by the error      *)
(*                sorted  |-> BOOLEAN,   \* topological_sort returned      *)
(*                sortexc |-> STRING,    \* else the exception it raised   *)
(*                order   |-> <<list positions>>,                          *)
(*                layers  |-> <<<<positions>>, ...>>]                      *)
(***************************************************************************)
EXTENDS Graph, TLC, Json, IOUtils

Obs == JsonDeserialize(IOEnv.OBS_FILE)
N   == Len(Obs)

VARIABLE i
Init == i = 0
Step == i < N /\ i' = i + 1
Next == Step

SeqToSet(s) == {s[k] : k \in 1..Len(s)}
GraphOf(o)  == [k \in 1..Len(o.g) |-> [ref |-> o.g[k][1], reqs |-> SeqToSet(o.g[k][2]), join |-> o.g[k][3]]]
LayersOf(o) == [k \in 1..Len(o.layers) |-> SeqToSet(o.layers[k])]

\* ---- the property (a false one is a VIOLATION) --------------------------
C20_CreateIffValid(o) == o.created <=> Valid(GraphOf(o))
C20_OrderAfterDeps(o) == /\ o.created => TopoOK(GraphOf(o), o.order)
                         /\ o.sorted  => ProvidedOK(GraphOf(o), o.order)
\* only the documented error types: InvalidStageGraphError (duplicate_ref / self_edge / unknown_ref)
\* and CircularDependencyError (cycle) from create, CircularDependencyError from the sort
C20_DocumentedError(o) == /\ ~o.created => o.kind \in {"duplicate_ref", "self_edge", "unknown_ref", "cycle"}
                          /\ o.sortexc \in {"", "CircularDependencyError"}
\* ---- conformance with the operational part (a false one is DRIFT) -------
D_SortIffSortable(o)  == o.sorted <=> Sortable(GraphOf(o))
D_KahnOrder(o)        == (o.sorted /\ Sortable(GraphOf(o))) => KahnOK(GraphOf(o), o.order)
D_Layers(o)           == LayersOf(o) = Layers(GraphOf(o))
D_ErrKind(o)          == o.kind = ErrKind(GraphOf(o))

Holds(f, o) == CASE f = "C20_CreateIffValid" -> C20_CreateIffValid(o)
                 [] f = "C20_OrderAfterDeps" -> C20_OrderAfterDeps(o)
                 [] f = "C20_DocumentedError" -> C20_DocumentedError(o)
                 [] f = "D_SortIffSortable"  -> D_SortIffSortable(o)
                 [] f = "D_KahnOrder"        -> D_KahnOrder(o)
                 [] f = "D_Layers"           -> D_Layers(o)
                 [] f = "D_ErrKind"          -> D_ErrKind(o)
Formulas == {"C20_CreateIffValid", "C20_OrderAfterDeps", "C20_DocumentedError", "D_SortIffSortable", "D_KahnOrder", "D_Layers", "D_ErrKind"}

Judge == i = 0 \/ \A f \in Formulas : Holds(f, Obs[i]) \/ PrintT(<<"FAIL", i, f>>)
=============================================================================
