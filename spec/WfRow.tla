------------------------------- MODULE WfRow -------------------------------
(***************************************************************************)
(* Two workers on the WORKFLOW row.  The row has no version: every handler *)
(* writes it with an UPDATE ... WHERE id.  What keeps concurrent handlers  *)
(* from undoing each other is that each writes only ITS columns:           *)
(*   update_workflow_status (StartWorkflow, CompleteWorkflow):  status,    *)
(*                                              start_time, end_time       *)
(*   store.cancel (CancelWorkflow):  is_canceled, canceled_by, reason      *)
(* and that each re-reads the row when it starts.                          *)
(* Scenario "complete":  CompleteWorkflow (all stages finished) vs an      *)
(*   operator's CancelWorkflow          (C06: a completed status is final) *)
(* Scenario "start":     StartWorkflow vs CancelWorkflow on a NOT_STARTED  *)
(*   workflow                 (C17: the cancel flag, once durable, stays)  *)
(* A step is "reads | write transaction" as in Race.tla.                   *)
(***************************************************************************)
EXTENDS Naturals, FiniteSets, TLC, WfRowCfg
(* WfRowCfg: Scenario ("complete" | "start"), NStages (stages a CancelWorkflow finds not complete), NInitial *)

VARIABLES
  row,     \* [status, canceled]
  pushed,  \* [CancelStage, CompleteWorkflow, StartStage]: messages pushed by the two handlers
  done,    \* handlers whose message has a processed record
  wk       \* handler -> [pc, snap]

vars == <<row, pushed, done, wk>>
A == IF Scenario = "complete" THEN "complete" ELSE "start"      \* the handler racing with the cancel
H == {A, "cancel"}
Final == {"SUCCEEDED", "TERMINAL", "CANCELED", "STOPPED"}
Row0 == [status |-> IF Scenario = "complete" THEN "RUNNING" ELSE "NOT_STARTED", canceled |-> FALSE]

Init ==
  /\ row = Row0 /\ pushed = [CancelStage |-> 0, CompleteWorkflow |-> 0, StartStage |-> 0] /\ done = {}
  /\ wk = [h \in H |-> [pc |-> "start", snap |-> Row0]]

Go(h, pc) == wk' = [wk EXCEPT ![h].pc = pc]

(* CompleteWorkflow: all top-level stages are SUCCEEDED -> the workflow is SUCCEEDED (status columns only) *)
CompleteRead ==
  /\ A = "complete" /\ wk["complete"].pc = "start"
  /\ wk' = [wk EXCEPT !["complete"] = [pc |-> IF row.status \in Final THEN "mark" ELSE "write", snap |-> row]]
  /\ UNCHANGED <<row, pushed, done>>
CompleteWrite ==
  /\ A = "complete" /\ wk["complete"].pc = "write"
  /\ row' = [row EXCEPT !.status = "SUCCEEDED"]
  /\ done' = done \cup {"complete"} /\ Go("complete", "mark") /\ UNCHANGED pushed

(* StartWorkflow on a NOT_STARTED workflow: canceled in the row it read -> nothing is written; else RUNNING + StartStage *)
StartRead ==
  /\ A = "start" /\ wk["start"].pc = "start"
  /\ wk' = [wk EXCEPT !["start"] = [pc |-> IF row.status # "NOT_STARTED" \/ row.canceled THEN "mark" ELSE "write", snap |-> row]]
  /\ UNCHANGED <<row, pushed, done>>
StartWrite ==
  /\ A = "start" /\ wk["start"].pc = "write"
  /\ row' = [row EXCEPT !.status = "RUNNING"]
  /\ pushed' = [pushed EXCEPT !.StartStage = @ + NInitial]
  /\ done' = done \cup {"start"} /\ Go("start", "mark")

(* CancelWorkflow: complete in the row it read -> mark only; else the flag (own commit), then the fan-out transaction *)
CancelRead ==
  /\ wk["cancel"].pc = "start"
  /\ wk' = [wk EXCEPT !["cancel"] = [pc |-> IF row.status \in Final THEN "markonly" ELSE "flag", snap |-> row]]
  /\ UNCHANGED <<row, pushed, done>>
CancelMarkOnly ==
  /\ wk["cancel"].pc = "markonly" /\ done' = done \cup {"cancel"} /\ Go("cancel", "mark") /\ UNCHANGED <<row, pushed>>
CancelFlag ==
  /\ wk["cancel"].pc = "flag" /\ row' = [row EXCEPT !.canceled = TRUE] /\ Go("cancel", "txn") /\ UNCHANGED <<pushed, done>>
CancelTxn ==
  /\ wk["cancel"].pc = "txn"
  /\ pushed' = [pushed EXCEPT !.CancelStage = @ + NStages, !.CompleteWorkflow = @ + 1]
  /\ done' = done \cup {"cancel"} /\ Go("cancel", "mark") /\ UNCHANGED row

Mark(h) == /\ wk[h].pc = "mark" /\ done' = done \cup {h} /\ Go(h, "ack") /\ UNCHANGED <<row, pushed>>
Ack(h)  == /\ wk[h].pc = "ack" /\ Go(h, "end") /\ UNCHANGED <<row, pushed, done>>

Next == CompleteRead \/ CompleteWrite \/ StartRead \/ StartWrite \/ CancelRead \/ CancelMarkOnly \/ CancelFlag \/ CancelTxn
        \/ \E h \in H : Mark(h) \/ Ack(h)
Spec == Init /\ [][Next]_vars

AllDone == \A h \in H : wk[h].pc = "end"
(* C06: once the completed status is durable it stays *)
CompletedIsFinal == [][row.status \in Final => row'.status = row.status]_vars
(* C17: the cancel flag, once durable, stays; a cancel that was accepted leaves its flag behind *)
FlagStays == [][row.canceled => row'.canceled]_vars
CancelAccepted == (AllDone /\ pushed.CompleteWorkflow = 1) => row.canceled
=============================================================================
