--------------------------- MODULE Trace_DataFlow ---------------------------
(***************************************************************************)
(* Code -> spec validation for C16.  Each case of the batch                *)
(* (IOEnv.DF_CASES) carries the runs recorded from the REAL engine for one *)
(* program: per run the sequence of task executions with the context the   *)
(* task was handed (`view`), its ledger ordinal `n` and the _jump_count it *)
(* read.  TLC walks every run; an event is                                 *)
(*   - checked for CONFORMANCE with the state machine of DataFlow run "as  *)
(*     the code" (StoreMerged = TRUE): the stage was startable, the task   *)
(*     is the next one, ordinal and jump count are the model's, and the    *)
(*     view is one the planner can produce for SOME tie-break of Kahn's    *)
(*     queue given the context the stage stored earlier (C_* names);       *)
(*   - JUDGED by the declarative property Failed(s, view) over the current *)
(*     outputs of the ancestors and the stage's own context as the PROGRAM *)
(*     set it.                                                             *)
(* Nothing halts TLC: false formulas are collected in register 2 and       *)
(* written to IOEnv.DF_OUT by the POSTCONDITION; register 1 collects the   *)
(* runs that were consumed to their end.  Run with -workers 1.             *)
(***************************************************************************)
EXTENDS DataFlow, TLCExt, SequencesExt

VARIABLES rid, l
Events == Cases[cid].runs[rid].events
Ev == Events[l]

TInit == \E c \in 1 .. Len(Cases) : \E r \in 1 .. Len(Cases[c].runs) : DInit(c) /\ rid = r /\ l = 1

ASSUME TLCSet(1, {})
ASSUME TLCSet(2, {})

Known(e) == e.stage \in Stages /\ e.task \in ToSet(TasksOf(e.stage))
CodeViews(s) == {PlanView(o, OwnAtPlan(s)) : o \in CodeOrders(Anc(s))}
ConfFailed(e) ==
  LET s == e.stage
      t == e.task
      first == tix[s] = 0
  IN   (IF first THEN (IF st[s] = "NS" /\ \A r \in Req(s) : st[r] = "DONE" THEN {} ELSE {"C_Ready"})
                 ELSE (IF st[s] = "RUN" THEN {} ELSE {"C_Ready"}))
  \cup (IF tix[s] < Len(TasksOf(s)) /\ TasksOf(s)[tix[s] + 1] = t THEN {} ELSE {"C_TaskOrder"})
  \cup (IF e.n = it[t] THEN {} ELSE {"C_Ordinal"})
  \cup (IF e.jumps = jc[s] THEN {} ELSE {"C_JumpCount"})
  \cup (IF first THEN (IF e.view \in CodeViews(s) THEN {} ELSE {"C_View"})
                 ELSE (IF e.view = seen[s] THEN {} ELSE {"C_SameView"}))

Rec(f, k, stale) == TLCSet(2, TLCGet(2) \cup {[c |-> cid, r |-> rid, l |-> l, s |-> Ev.stage, n |-> Ev.n,
                                               f |-> f, k |-> k, stale |-> stale]})
Finished == (l = Len(Events)) => TLCSet(1, TLCGet(1) \cup {<<cid, rid>>})

TExec ==
  /\ l <= Len(Events)
  /\ l' = l + 1 /\ UNCHANGED <<rid, cid, pl>>
  /\ Finished
  /\ IF ~Known(Ev)
     THEN Rec("C_Unknown", "", FALSE) /\ UNCHANGED <<st, tix, it, outs, seen, jc>>
     ELSE /\ \A f \in ConfFailed(Ev) : Rec(f, "", FALSE)
          /\ \A f \in Failed(Ev.stage, Ev.view) : Rec(f[1], f[2], Stale(Ev.stage, Ev.view, f[2]))
          /\ seen' = [seen EXCEPT ![Ev.stage] = Ev.view]
          /\ TaskEffect(Ev.stage, Ev.task)

TNext == TExec
Export ==     \* POSTCONDITION
  JsonSerialize(IOEnv.DF_OUT, [done |-> SetToSeq(TLCGet(1)), failed |-> SetToSeq(TLCGet(2))])
=============================================================================
