----------------------------- MODULE Trace_Queue -----------------------------
(***************************************************************************)
(* Code -> spec trace validation for Queue (DESIGN 4.3, property C08).     *)
(*                                                                         *)
(* A batch of histories recorded on the REAL SqliteQueue (random           *)
(* multi-client driver, or a TLC counter-example replayed on the code) is  *)
(* checked against Queue: every recorded step must be an instance of the   *)
(* named specification action with the same client, argument and return    *)
(* value, and must land in exactly the observed image of the database      *)
(* (committed tables, the open transaction's private image, every client's *)
(* park position).  The ghosts (leases, defect flags) follow from the      *)
(* actions.  The C08 formulas are evaluated in every state / on every step *)
(* of every trace; failures are recorded, not halted on, so the whole      *)
(* batch is judged in one TLC run.                                         *)
(*                                                                         *)
(* In the cfg: Clients, Msgs are sets of STRINGS here and Nobody = "Nobody"*)
(* (they come back from JSON), all bounds are large.                       *)
(***************************************************************************)
EXTENDS MC_Queue, IOUtils, Integers

Traces == JsonDeserialize(IOEnv.TRACE_FILE)

VARIABLES tid, l
tvars == <<vars, tid, l>>

Events == Traces[tid].events
Ev     == Events[l]
ToSetS(seq) == {seq[i] : i \in DOMAIN seq}

\* observable part of a database image, in the shape the harness projects
ObsDb(d) == [rows |-> RowSet(d.rows), dlq |-> DlqSet(d.dlq), nid |-> d.nid, ndlq |-> d.ndlq,
             order |-> d.order, pushed |-> d.pushed, gone |-> Gone(d)]
LogDb(S) == [rows |-> ToSetS(S.rows), dlq |-> ToSetS(S.dlq), nid |-> S.nid, ndlq |-> S.ndlq,
             order |-> S.order, pushed |-> ToSetS(S.pushed), gone |-> ToSetS(S.gone)]

Lands(S) ==   \* the step lands in the observed state
  /\ ObsDb(db') = LogDb(S.db)
  /\ txn'.owner = S.txn.owner
  /\ (txn'.owner # Nobody) => ObsDb(txn'.img) = LogDb(S.txn.img)
  /\ \A c \in Clients : cl'[c].pc = S.cl[c].pc /\ cl'[c].held.id = S.cl[c].held

TraceInit ==
  /\ tid \in 1..Len(Traces)
  /\ l = 1
  /\ Init

TraceNext ==
  /\ l <= Len(Events)
  /\ Next
  /\ lbl'.a = Ev.a /\ lbl'.c = Ev.c
  /\ IF Ev.arg = -1 THEN TRUE ELSE lbl'.arg = Ev.arg   \* -1: argument not observable by the harness
  /\ IF Ev.ret = "*" THEN TRUE ELSE ToJson(lbl'.ret) = Ev.ret   \* "*": value internal to the client
  /\ Lands(Ev.s)
  /\ l' = l + 1
  /\ UNCHANGED tid

TraceSpec == TraceInit /\ [][TraceNext]_tvars

(***************************************************************************)
(* Bookkeeping in TLC registers (-workers 1):                              *)
(*   1 = per trace the number of events matched + 1                        *)
(*   2 = set of <<trace, position, formula, explaining defect flags>> for  *)
(*       every property formula found false                                *)
(***************************************************************************)
ASSUME TLCSet(1, [i \in 1..Len(Traces) |-> 1])
ASSUME TLCSet(2, {})

Flags(m) == {x[1] : x \in {y \in db.gh : y[2] = m}}
Rec(n, why) == TLCSet(2, TLCGet(2) \cup {<<tid, l, n, why>>})

FailedStates ==
     {<<"Conservation", {}>> : m \in {x \in Msgs : Places(db, x) # (IF x \in db.pushed THEN 1 ELSE 0)}}
  \cup {<<"OneHolder", Flags(m)>> : m \in {x \in Msgs : Count({g \in db.leases : g[3] = x}) > 1}}
  \cup {<<"NoStrandedRow", Flags(db.rows[i].msg)>> :
           i \in {j \in DOMAIN db.rows : db.rows[j].att >= QMax /\ ~AtLimit(db.rows[j])}}
  \cup {<<"ClaimBelowLimit", {}>> : i \in {j \in DOMAIN db.rows : db.rows[j].att > QMax}}

TraceProgress ==
  /\ IF l > TLCGet(1)[tid] THEN TLCSet(1, [TLCGet(1) EXCEPT ![tid] = l]) ELSE TRUE
  /\ \A f \in FailedStates : Rec(f[1], f[2])

CheckActions ==
  /\ ReplayUnchanged \/ Rec("ReplayUnchanged", {x[1] : x \in {y \in db'.gh : y[2] = db'.rows[db'.nid - 1].msg}})
  /\ MoveKeeps \/ Rec("MoveKeeps", {})

Accepted ==
  /\ PrintT(<<"PREFIX", TLCGet(1)>>)
  /\ PrintT(<<"FAILED", TLCGet(2)>>)
=============================================================================
