-------------------------- MODULE MC_EventsParams --------------------------
(* Sample of the module harness/check_events.py generates per model-checking run
   (programs as literal records, the formulas to evaluate, the depth bound). *)
Programs == {
  [name |-> "s2t21", stages |-> {"a", "b"}, tasks |-> {"a.1", "a.2", "b.1"}, taskSeq |-> <<"a.1", "a.2", "b.1">>,
   stageOf |-> [t \in {"a.1", "a.2", "b.1"} |-> IF t = "b.1" THEN "b" ELSE "a"],
   cof |-> {}, nofailp |-> {}, top |-> {"a", "b"}] }
CheckProps == {"TypeOK", "C13_NoPhantom", "C13_NoMissing", "C13_PublishAfterCommit", "C13_SeqMonotone"}
MaxDepth == 200
=============================================================================
