------------------------------ MODULE Reducers ------------------------------
(***************************************************************************)
(* Fan-in reducers (C16, last sentence): a transcription of                *)
(*   /repo/src/stabilize/reducers.py                                       *)
(* and of the way handlers/start_stage/planner.py:_plan_stage uses it.     *)
(*                                                                         *)
(* PYTHON VALUES.  TLC cannot compare values of different kinds, so every  *)
(* Python value is a tagged record [t, v]:                                 *)
(*    int   [t |-> "int",  v |-> n]                                        *)
(*    None  [t |-> "none", v |-> 0]                                        *)
(*    str   [t |-> "str",  v |-> <<code points>>]   ("a" = <<97>>; Python  *)
(*          orders strings by code point, i.e. lexicographically on v)     *)
(*    list  [t |-> "list", v |-> <<values>>]                               *)
(*    dict  [t |-> "dict", v |-> [key |-> value]]   (keys are strings)     *)
(* plus three pseudo values that are never elements of a list/dict:        *)
(*    Absent  - "this branch's outputs do not contain the key"             *)
(*    NoKey   - "the result dict does not contain the key"                 *)
(*    Err(c)  - the call raised exception class c (TypeError / ValueError) *)
(*                                                                         *)
(* Deliberate deviations (named):                                          *)
(*  D1 dict key ORDER is not modelled (Python == ignores it as well).      *)
(*  D2 bool / float are outside the value universe (1 == True == 1.0 in    *)
(*     Python; the harness adds them as hypothesis inputs outside the      *)
(*     grammar and compares with Python ==).                               *)
(*  D3 custom reducers (register_reducer) are not modelled; an unknown     *)
(*     name is.                                                            *)
(***************************************************************************)
EXTENDS Integers, Sequences, FiniteSets, SequencesExt, TLC

I(n)   == [t |-> "int",  v |-> n]
None   == [t |-> "none", v |-> 0]
Str(s) == [t |-> "str",  v |-> s]
Lst(s) == [t |-> "list", v |-> s]
Dct(f) == [t |-> "dict", v |-> f]
Absent == [t |-> "absent", v |-> 0]
NoKey  == [t |-> "nokey",  v |-> 0]
Err(c) == [t |-> "err",    v |-> c]
IsErr(x) == x.t = "err"

(***************************************************************************)
(* reducers.py, one operator per function.  `vs` is the list `values` the  *)
(* reducer receives: non-empty, no Absent in it, branch order.             *)
(***************************************************************************)

\* _collect: a list value is extended, anything else (None included) appended
Collect(vs) ==
  Lst(FoldLeft(LAMBDA acc, x : IF x.t = "list" THEN acc \o x.v ELSE Append(acc, x), <<>>, vs))

\* _extend: a list value is extended, None is dropped, anything else appended
Extend(vs) ==
  Lst(FoldLeft(LAMBDA acc, x : IF x.t = "list" THEN acc \o x.v
                               ELSE IF x.t = "none" THEN acc ELSE Append(acc, x), <<>>, vs))

\* _sum: total = 0; None skipped; `total + v` is int + v: TypeError unless v is a number
Sum(vs) ==
  FoldLeft(LAMBDA acc, x : IF IsErr(acc) THEN acc
                           ELSE IF x.t = "none" THEN acc
                           ELSE IF x.t = "int" THEN I(acc.v + x.v)
                           ELSE Err("TypeError"), I(0), vs)

(***************************************************************************)
(* Python's `x > y` for the modelled kinds: "T", "F" or "E" (TypeError).   *)
(* int/int and str/str are ordered; list/list is lexicographic: the first  *)
(* position where the elements are not == decides with `>` on those two    *)
(* elements (which may itself be a TypeError), otherwise the longer list   *)
(* is greater; every other pairing (dict/dict included) is a TypeError.    *)
(***************************************************************************)
SeqGT(a, b) ==   \* sequences of naturals (code points)
  LET n == IF Len(a) < Len(b) THEN Len(a) ELSE Len(b)
      D == {i \in 1..n : a[i] # b[i]}
  IN IF D = {} THEN Len(a) > Len(b)
     ELSE LET i == CHOOSE j \in D : \A k \in D : j <= k IN a[i] > b[i]

RECURSIVE GT(_, _)
GT(x, y) ==
  IF x.t = "int" /\ y.t = "int" THEN (IF x.v > y.v THEN "T" ELSE "F")
  ELSE IF x.t = "str" /\ y.t = "str" THEN (IF SeqGT(x.v, y.v) THEN "T" ELSE "F")
  ELSE IF x.t = "list" /\ y.t = "list" THEN
     LET n == IF Len(x.v) < Len(y.v) THEN Len(x.v) ELSE Len(y.v)
         D == {i \in 1..n : x.v[i] # y.v[i]}
     IN IF D = {} THEN (IF Len(x.v) > Len(y.v) THEN "T" ELSE "F")
        ELSE LET i == CHOOSE j \in D : \A k \in D : j <= k IN GT(x.v[i], y.v[i])
  ELSE "E"

NotNone(vs) == SelectSeq(vs, LAMBDA x : x.t # "none")

\* max(v for v in values if v is not None): ValueError on an empty sequence; CPython keeps the
\* FIRST maximal item (replaces the candidate only if `item > candidate`)
Extremum(vs, better(_, _)) ==
  LET ws == NotNone(vs) IN
  IF ws = <<>> THEN Err("ValueError")
  ELSE FoldLeft(LAMBDA cur, x : IF IsErr(cur) THEN cur
                                ELSE LET g == better(x, cur) IN
                                     IF g = "E" THEN Err("TypeError") ELSE IF g = "T" THEN x ELSE cur,
                Head(ws), Tail(ws))
MaxOf(vs) == Extremum(vs, LAMBDA x, cur : GT(x, cur))
MinOf(vs) == Extremum(vs, LAMBDA x, cur : GT(cur, x))      \* `item < candidate`

\* _merge: dict.update per dict value in branch order, non-dicts ignored
Merge(vs) ==
  Dct(FoldLeft(LAMBDA acc, x : IF x.t # "dict" THEN acc
                               ELSE [k \in DOMAIN acc \cup DOMAIN x.v |->
                                        IF k \in DOMAIN x.v THEN x.v[k] ELSE acc[k]], <<>>, vs))

FirstOf(vs) == vs[1]
LastOf(vs)  == vs[Len(vs)]

Builtin == {"collect", "append", "extend", "sum", "max", "min", "merge", "first", "last"}

Reduce(name, vs) ==
  CASE name \in {"collect", "append"} -> Collect(vs)
    [] name = "extend" -> Extend(vs)
    [] name = "sum"    -> Sum(vs)
    [] name = "max"    -> MaxOf(vs)
    [] name = "min"    -> MinOf(vs)
    [] name = "merge"  -> Merge(vs)
    [] name = "first"  -> FirstOf(vs)
    [] name = "last"   -> LastOf(vs)

(***************************************************************************)
(* apply_output_reducers for ONE key: `slots` is the per-branch value of   *)
(* the key in branch order, Absent where a branch does not have it.        *)
(* get_reducer is consulted BEFORE the values are looked at: an unknown    *)
(* name raises ValueError even if no branch has the key.                   *)
(***************************************************************************)
Present(slots) == SelectSeq(slots, LAMBDA s : s.t # "absent")
Apply(name, slots) ==
  IF name \notin Builtin THEN Err("ValueError")
  ELSE IF Present(slots) = <<>> THEN NoKey
  ELSE Reduce(name, Present(slots))

(***************************************************************************)
(* apply_output_reducers for a whole `reducers` dict.  reds: sequence of   *)
(* <<key, name>> in dict order; outs: sequence of branch output dicts      *)
(* (functions key -> value).  The first failing key aborts the call.       *)
(***************************************************************************)
SlotsOf(key, outs) == [i \in 1..Len(outs) |-> IF key \in DOMAIN outs[i] THEN outs[i][key] ELSE Absent]
ApplyAll(reds, outs) ==
  LET res  == [i \in 1..Len(reds) |-> Apply(reds[i][2], SlotsOf(reds[i][1], outs))]
      bad  == {i \in 1..Len(reds) : IsErr(res[i])}
      keys == {reds[i][1] : i \in {j \in 1..Len(reds) : res[j].t # "nokey"}}
      \* a later duplicate key cannot occur: `reducers` is a dict
      idx(k) == CHOOSE i \in 1..Len(reds) : reds[i][1] = k
  IN IF bad # {} THEN res[CHOOSE i \in bad : \A j \in bad : i <= j]
     ELSE Dct([k \in keys |-> res[idx(k)]])

(***************************************************************************)
(* Order (in)sensitivity.  Perm(s, p) is s re-ordered by the permutation p *)
(* of 1..Len(s): "the branches finished in another order".                 *)
(***************************************************************************)
PermsOf(n) == {p \in [1..n -> 1..n] : \A i, j \in 1..n : p[i] = p[j] => i = j}
Perm(s, p) == [i \in 1..Len(s) |-> s[p[i]]]
SeqBag(s) == [x \in {s[i] : i \in 1..Len(s)} |-> Cardinality({i \in 1..Len(s) : s[i] = x})]

\* same result object, or (for the list-building reducers) the same multiset of items
SameResult(x, y) == x = y
SameItems(x, y)  == (x.t = "list" /\ y.t = "list" /\ SeqBag(x.v) = SeqBag(y.v)) \/ (x.t # "list" /\ x = y)

Insensitive == {"sum", "max", "min"}            \* same value for every order, errors included
BagInsensitive == {"collect", "append", "extend"}  \* same multiset of items; the ORDER of the items is
                                                   \* the branch order (concatenation of per-branch chunks)
\* merge is insensitive exactly when the dict values agree on every shared key
Compatible(slots) ==
  \A i, j \in 1..Len(slots) :
     (slots[i].t = "dict" /\ slots[j].t = "dict") =>
        \A k \in DOMAIN slots[i].v \cap DOMAIN slots[j].v : slots[i].v[k] = slots[j].v[k]
\* first/last are insensitive exactly when all present values are equal
AllEqual(slots) == \A i, j \in 1..Len(Present(slots)) : Present(slots)[i] = Present(slots)[j]

\* what each branch contributes to collect / extend, on its own
Chunk(name, x) ==
  IF x.t = "absent" THEN <<>>
  ELSE IF x.t = "list" THEN x.v
  ELSE IF x.t = "none" /\ name = "extend" THEN <<>>
  ELSE <<x>>
Concat(ss) == FoldLeft(LAMBDA acc, s : acc \o s, <<>>, ss)

(***************************************************************************)
(* The theorem-like statements, evaluated by TLC for one (name, slots).    *)
(***************************************************************************)
OrderLaw(name, slots) ==
  LET n == Len(slots)
      R(p) == Apply(name, Perm(slots, p))
      all == PermsOf(n)
      id == [i \in 1..n |-> i]
      rev == [i \in 1..n |-> n + 1 - i]
  IN
  /\ name \in Insensitive    => \A p \in all : SameResult(R(p), R(id))
  /\ name \in BagInsensitive =>
       /\ \A p \in all : SameItems(R(p), R(id))
       /\ \A p \in all : Present(slots) # <<>> =>         \* exact: concatenation of chunks in branch order
             R(p) = Lst(Concat([i \in 1..n |-> Chunk(name, slots[p[i]])]))
  /\ name = "merge"          =>
       /\ Compatible(slots) <=> \A p \in all : SameResult(R(p), R(id))
       /\ Present(slots) # <<>> =>                        \* exact: per key, the LAST dict that has it wins
            LET r == R(id).v
                has(k) == {i \in 1..n : slots[i].t = "dict" /\ k \in DOMAIN slots[i].v}
            IN /\ DOMAIN r = UNION {DOMAIN slots[i].v : i \in {j \in 1..n : slots[j].t = "dict"}}
               /\ \A k \in DOMAIN r : r[k] = slots[CHOOSE i \in has(k) : \A j \in has(k) : j <= i].v[k]
  /\ name \in {"first", "last"} =>
       /\ AllEqual(slots) <=> \A p \in all : SameResult(R(p), R(id))
       /\ Apply("first", Perm(slots, rev)) = Apply("last", slots)   \* mirror images
       /\ Present(slots) # <<>> => R(id) = (IF name = "first" THEN Head(Present(slots))
                                            ELSE Present(slots)[Len(Present(slots))])
  /\ name \notin Builtin     => \A p \in all : R(p) = Err("ValueError")
  \* independent characterisations of sum / max / min (not via the fold)
  /\ (name = "sum" /\ ~IsErr(R(id)) /\ R(id).t # "nokey") =>
        /\ \A i \in 1..n : slots[i].t \in {"int", "none", "absent"}
        /\ R(id) = I(FoldLeft(LAMBDA a, x : a + (IF x.t = "int" THEN x.v ELSE 0), 0, slots))
  /\ (name \in {"max", "min"} /\ ~IsErr(R(id)) /\ R(id).t # "nokey") =>
        LET ws == NotNone(Present(slots)) IN
        /\ \E i \in 1..Len(ws) : ws[i] = R(id)
        /\ \A i \in 1..Len(ws) : \/ ws[i] = R(id)
                                  \/ (IF name = "max" THEN GT(ws[i], R(id)) ELSE GT(R(id), ws[i])) = "F"

(***************************************************************************)
(* _plan_stage for a join stage j with direct upstreams b_1..b_n and       *)
(* further ancestors.                                                      *)
(*   anc   : sequence of output dicts of ALL ancestors in the topological  *)
(*           order get_merged_ancestor_outputs used (ancestors first)      *)
(*   ups   : sequence of output dicts of the DIRECT upstream stages in the *)
(*           order get_upstream_stages returned them                       *)
(*   reds  : the stage's output_reducers as a sequence of <<key, name>>    *)
(*   own   : the stage's own context                                       *)
(* Result: the context the stage's tasks see, or Err.                      *)
(***************************************************************************)
\* "if key in merged and both are lists: append the items not yet present, else overwrite"
MergeKey(m, k, val) ==
  IF k \in DOMAIN m /\ m[k].t = "list" /\ val.t = "list"
  THEN LET add == FoldLeft(LAMBDA acc, x : IF \E i \in 1..Len(acc) : acc[i] = x THEN acc ELSE Append(acc, x),
                           m[k].v, val.v)
       IN [kk \in DOMAIN m |-> IF kk = k THEN Lst(add) ELSE m[kk]]
  ELSE [kk \in DOMAIN m \cup {k} |-> IF kk = k THEN val ELSE m[kk]]

\* keys of one dict are distinct, so the order in which they are merged does not matter
RECURSIVE MergeDict(_, _, _)
MergeDict(m, d, skip) ==
  LET ks == DOMAIN d \ skip IN
  IF ks = {} THEN m
  ELSE LET k == CHOOSE x \in ks : TRUE IN MergeDict(MergeKey(m, k, d[k]), [x \in DOMAIN d \ {k} |-> d[x]], skip)

AncestorMerge(anc) == FoldLeft(LAMBDA m, d : MergeDict(m, d, {}), <<>>, anc)

PlanContext(anc, ups, reds, own) ==
  LET merged0 == AncestorMerge(anc)
      redKeys == {reds[i][1] : i \in 1..Len(reds)}
      \* branch_outputs = [u.outputs for u in upstreams if u is not None and u.outputs]
      branch  == SelectSeq(ups, LAMBDA d : DOMAIN d # {})
      red     == IF reds = <<>> THEN Dct(<<>>) ELSE ApplyAll(reds, branch)
  IN IF IsErr(red) THEN red
     ELSE LET merged1 == [k \in DOMAIN merged0 \cup DOMAIN red.v |->
                             IF k \in DOMAIN red.v THEN red.v[k] ELSE merged0[k]]   \* dict.update
          IN Dct(MergeDict(merged1, own, redKeys))    \* own context, reducer keys skipped
=============================================================================
