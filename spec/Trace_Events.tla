---------------------------- MODULE Trace_Events ----------------------------
(***************************************************************************)
(* Code -> spec trace validation for C12 / C13 (DESIGN.md 4.3).  A batch   *)
(* of executions recorded from the REAL engine running with event sourcing *)
(* on the SqliteEventStore in the same database (one JSON file, each trace *)
(* carries its own program header) is checked against Events:             *)
(*   hbegin / hret / hraise   handler entry / exit                         *)
(*   append     an INSERT INTO events was issued (inside an open write     *)
(*              transaction or not - observed on the connection)           *)
(*   commit     a durable commit; carries the projected statuses (or       *)
(*              same = TRUE when they did not change), the new rows of the *)
(*              events table, its row count, and whether the handler's     *)
(*              message was marked processed in it.  Commits outside any   *)
(*              handler that change neither (poll / post-mark / ack) are   *)
(*              pure stutters of this projection and are not recorded.     *)
(*   rollback   a transaction was rolled back                              *)
(*   pub        the synchronous bus subscriber received an event           *)
(*   crash      simulated process kill (possibly inside a transaction)     *)
(*   replay     the REAL EventReplayer.rebuild_workflow_state was called   *)
(*              (full / as_of_sequence n / from a snapshot taken at p)     *)
(* Every event must be an instance of an Events action landing in exactly  *)
(* the logged state; every formula named in the batch is evaluated in      *)
(* every state; replay observations are compared with the specification's  *)
(* Replay fold of the logged event prefix.  Nothing halts the run: results *)
(* are collected in TLC registers (-workers 1).                            *)
(***************************************************************************)
EXTENDS Events, Json, IOUtils, TLCExt

Batch      == JsonDeserialize(IOEnv.TRACE_FILE)
Traces     == Batch.traces
ToSetS(q)  == {q[i] : i \in DOMAIN q}
CheckProps == ToSetS(Batch.props)

VARIABLES tid, l
tvars == <<vars, tid, l>>

Events_ == Traces[tid].events
Ev      == Events_[l]
W       == CHOOSE w \in Workers : TRUE

Header(h) == [name |-> h.name, stages |-> ToSetS(h.stages), tasks |-> ToSetS(h.tasks), taskSeq |-> h.tasks,
              stageOf |-> [t \in ToSetS(h.tasks) |-> h.stageOf[t]], cof |-> ToSetS(h.cof),
              nofailp |-> ToSetS(h.nofailp), top |-> ToSetS(h.top), audit |-> ToSetS(h.audit)]

XStatus(x) == [e \in Ents |-> IF e = "wf" THEN x.wf ELSE IF e \in Stages THEN x.st[e] ELSE x.tk[e]]
EvRec(r)   == [seq |-> r.seq, typ |-> r.typ, ent |-> r.ent, st |-> r.st]
NewRows(S) == [i \in DOMAIN S.nev |-> EvRec(S.nev[i])]

LoggedP(S) == /\ status' = (IF S.same THEN status ELSE XStatus(S.x))   \* the step lands in the logged state
              /\ ev' = ev \o NewRows(S)
              /\ Len(ev') = S.evn
LoggedSame(S) == /\ (S.same \/ status = XStatus(S.x)) /\ S.nev = <<>> /\ Len(ev) = S.evn

TraceInit ==
  /\ tid \in 1..Len(Traces)
  /\ l = 2
  /\ Traces[tid].events[1].e = "init"
  /\ InitWith(Header(Traces[tid].events[1].prog))
  /\ LoggedSame(Traces[tid].events[1])

IsEvent(e) == l <= Len(Events_) /\ Ev.e = e /\ Ev.d = 0 /\ l' = l + 1 /\ UNCHANGED tid
Stay == UNCHANGED vars

NewStatus(S) == IF S.same THEN status ELSE XStatus(S.x)
Changed(S) == {e \in Ents : NewStatus(S)[e] # status[e]}
TCommit ==
  /\ IsEvent("commit")
  /\ \/ OtherCommit(W, Ev.mark)
     \/ StartWorkflowCommit(W) \/ StartStageClaim(W) \/ StartStageReplan(W) \/ StartStagePlan(W)
     \/ StartTaskCommit(W) \/ CancelStageCommit(W)
     \/ ForceCommit(W, [e \in Changed(Ev) |-> NewStatus(Ev)[e]], Ev.mark)
     \/ \E e0 \in OwnEvent(W) : RecordOwn(W, e0)
     \/ CompleteTaskCommit(W) \/ CompleteStageCommit(W) \/ CompleteStageErrorCommit(W)
     \/ SkipStageCommit(W) \/ CompleteWorkflowCommit(W)
     \/ AuditRecord(W)
  /\ act'.mark = Ev.mark
  /\ LoggedP(Ev)
TAppend ==
  /\ IsEvent("append")
  /\ IF Ev.intx THEN \E e0 \in InTxnEvents(W) : SameEvent(e0, Ev.ev) /\ AppendInTxn(W, e0)
     ELSE /\ ~tx[W].open
          /\ \/ pend[W] = <<>> /\ \E e0 \in OwnEvent(W) : SameEvent(e0, Ev.ev)
             \/ pend[W] # <<>> /\ pend[W][1].seq = 0 /\ SameEvent(pend[W][1], Ev.ev)     \* the reacting subscriber
          /\ Stay
TPub      == IsEvent("pub") /\ pend[W] # <<>> /\ pend[W][1] = EvRec(Ev.ev) /\ Publish(W)
TRollback == IsEvent("rollback") /\ Rollback(W) /\ LoggedSame(Ev)
THBegin   == IsEvent("hbegin") /\ Begin(W, Ev.h, Ev.ent, Ev.ms)
THRet     == IsEvent("hret") /\ Return(W)
THRaise   == IsEvent("hraise") /\ Raise(W)
THFail    == IsEvent("hfail") /\ Idle(W) /\ Stay
TCrash    == IsEvent("crash") /\ Crash /\ LoggedSame(Ev)
TEnv      == (IsEvent("sweep") \/ IsEvent("sendcancel") \/ IsEvent("quiescent")) /\ AllIdle /\ Stay /\ LoggedSame(Ev)
TNote     == (IsEvent("inject") \/ IsEvent("mksnap")) /\ Stay

(* --- C12 observations: the real replayer against the specification's fold ------------------ *)
ObsN   == IF Ev.full THEN LastSeq(ev) ELSE Ev.n
ObsEn  == [x \in DOMAIN Ev.r.st \cup DOMAIN Ev.r.tk |-> IF x \in DOMAIN Ev.r.st THEN Ev.r.st[x] ELSE Ev.r.tk[x]]
ObsFl  == [wfStart |-> Ev.r.fl.wfStart, wfEnd |-> Ev.r.fl.wfEnd, stStart |-> ToSetS(Ev.r.fl.stStart),
           stEnd |-> ToSetS(Ev.r.fl.stEnd), tkStart |-> ToSetS(Ev.r.fl.tkStart), tkEnd |-> ToSetS(Ev.r.fl.tkEnd)]
SameStatuses(R) == /\ Ev.r.wf = R.wf
                   /\ DOMAIN ObsEn = DOMAIN R.en
                   /\ \A x \in DOMAIN ObsEn : ObsEn[x] = R.en[x]
SameEntFlags(R) == /\ ObsFl.stStart = R.fl.stStart /\ ObsFl.stEnd = R.fl.stEnd
                   /\ ObsFl.tkStart = R.fl.tkStart /\ ObsFl.tkEnd = R.fl.tkEnd
SameWfFlags(R)  == ObsFl.wfStart = R.fl.wfStart /\ ObsFl.wfEnd = R.fl.wfEnd
SameAs(R) == SameStatuses(R) /\ ObsFl = R.fl
PrefixLen(n) == Cardinality({i \in DOMAIN ev : ev[i].seq <= n})
ObsFailed ==
  {n \in CheckProps :
     \/ n = "C12_ReplayBinding" /\ Ev.p = 0 /\ Ev.full /\ ~SameAs(Replay(ev))
     \/ n = "C12_Prefix" /\ Ev.p = 0 /\ ~Ev.full /\ ~SameAs(Replay(SubSeq(ev, 1, PrefixLen(Ev.n))))
     \* snapshot at p + the later events = full replay: statuses / rebuilt data / the workflow's own timestamps
     \/ n = "C12_Snapshot" /\ Ev.p > 0 /\ ~(SameStatuses(FromSnapshot(Ev.p, ObsN)) /\ SameStatuses(RebuildAsOf(ObsN)))
     \/ n = "C12_SnapshotData" /\ Ev.p > 0 /\ ~(SameEntFlags(FromSnapshot(Ev.p, ObsN)) /\ Ev.dig = Ev.fdig)
     \/ n = "C12_SnapshotWfTimes" /\ Ev.p > 0 /\ ~SameWfFlags(FromSnapshot(Ev.p, ObsN))
     \/ n = "C12_ReplayMatches" /\ Ev.p = 0 /\ Ev.full /\ Quiet
           /\ ~(\A x \in RegularEnts \ CanceledTasks :
                  status[x] = (IF x = "wf" THEN (IF Ev.r.wf = Absent THEN "NOT_STARTED" ELSE Ev.r.wf)
                               ELSE IF x \in DOMAIN ObsEn /\ ObsEn[x] # Absent THEN ObsEn[x] ELSE "NOT_STARTED"))}

(* --- property formulas by name ------------------------------------------------------------------ *)
SP(n) ==
  CASE n = "C13_NoPhantom" -> C13_NoPhantom
    [] n = "C13_NoPhantomSkip" -> C13_NoPhantomSkip
    [] n = "C13_NoMissing" -> C13_NoMissing
    [] n = "C13_PublishAfterCommit" -> C13_PublishAfterCommit
    [] n = "C13_SeqMonotone" -> C13_SeqMonotone
    [] n = "C12_ReplayMatches" -> C12_ReplayMatches
    [] n = "C12_ReplayMatchesCanceledTasks" -> C12_ReplayMatchesCanceledTasks
    [] OTHER -> TRUE                                    \* observation formulas: evaluated in TReplay
FailedState == {n \in CheckProps : ~SP(n)}

(* Bookkeeping in TLC registers (run with -workers 1):
     1 = per trace the longest matched prefix (index of the next event to consume)
     2 = set of <<trace, position, formula>> for every formula found false (state formulas: position of
         the state = events consumed + 1; observation formulas: position of the replay event) *)
ASSUME TLCSet(1, [i \in 1..Len(Traces) |-> 1])
ASSUME TLCSet(2, {})
Rec(n) == IF \E r \in TLCGet(2) : r[1] = tid /\ r[3] = n THEN TRUE      \* first position per trace and formula
          ELSE TLCSet(2, TLCGet(2) \cup {<<tid, l, n>>})
TReplay == IsEvent("replay") /\ Stay /\ \A n \in ObsFailed : Rec(n)

(* --- drift adoption (DESIGN 5): a line the tight pass could not explain is re-submitted with d = 1; the
   logged state is adopted so that the property formulas keep being evaluated on the rest of the trace.
   The history variables are maintained from the log: the handler that was running is the writer. *)
HasX == Ev.e \in {"commit", "rollback", "crash", "sweep", "sendcancel", "quiescent"}
AdoptWriter == IF Ev.h \in RegularWriters THEN Ev.h ELSE "force"
TAdopt ==
  /\ l <= Len(Events_) /\ Ev.d = 1 /\ l' = l + 1 /\ UNCHANGED <<tid, prog, cnt>>
  /\ act' = Label("Adopt", W, FALSE)
  /\ IF HasX
       THEN /\ status' = NewStatus(Ev) /\ ev' = ev \o NewRows(Ev)
            /\ wr' = [e \in DOMAIN wr |-> IF e \in Changed(Ev) THEN AdoptWriter ELSE wr[e]]
            /\ done' = [all  |-> Bump(done.all, {<<e, NewStatus(Ev)[e]>> : e \in Changed(Ev)}),
                        step |-> IF Ev.h \in {"CompleteTask", "CompleteStage"}
                                 THEN Bump(done.step, {<<e, NewStatus(Ev)[e]>> : e \in Changed(Ev) \cap {cur[W].e}})
                                 ELSE done.step]
       ELSE UNCHANGED <<status, ev, wr, done>>
  /\ bus' = IF Ev.e = "pub" THEN Append(bus, EvRec(Ev.ev)) ELSE bus
  /\ IF Ev.e \in {"hret", "hraise", "crash"} THEN cur' = [w \in Workers |-> IdleCur] ELSE UNCHANGED cur
  /\ tx' = [w \in Workers |-> NoTx]
  /\ pend' = IF Ev.e = "pub" /\ pend[W] # <<>> /\ pend[W][1] = EvRec(Ev.ev) THEN [pend EXCEPT ![W] = Tail(@)]
             ELSE IF Ev.e = "pub" THEN pend ELSE [w \in Workers |-> <<>>]

TraceNext == TCommit \/ TAppend \/ TPub \/ TRollback \/ THBegin \/ THRet \/ THRaise \/ THFail \/ TCrash
             \/ TEnv \/ TNote \/ TReplay \/ TAdopt
TraceSpec == TraceInit /\ [][TraceNext]_tvars

Progress ==
  /\ IF l > TLCGet(1)[tid] THEN TLCSet(1, [TLCGet(1) EXCEPT ![tid] = l]) ELSE TRUE
  /\ \A n \in FailedState : Rec(n)
Accepted ==
  /\ PrintT(<<"PREFIX", TLCGet(1)>>)
  /\ PrintT(<<"FAILED", TLCGet(2)>>)
=============================================================================
