------------------------------- MODULE Graph -------------------------------
(***************************************************************************)
(* C20, first half: "creating a workflow succeeds exactly when its stages  *)
(* form an acyclic graph with unique, known references, and the computed   *)
(* execution order always lists a stage after all of its dependencies".    *)
(*                                                                         *)
(* Pure-function transcription (MongoDB merge-rules style): this module    *)
(* DEFINES the functions; TLC enumerates the argument space (MC_Graph) and *)
(* every enumerated graph becomes one test of the implementation, and what *)
(* the implementation returned is judged by the same definitions           *)
(* (Obs_Graph).                                                            *)
(*                                                                         *)
(* Code anchors (src/stabilize):                                           *)
(*   dag/topological.py  validate_stage_graph  -> Valid, ErrKind           *)
(*   dag/topological.py  topological_sort      -> Sortable, TopoOK, KahnOK *)
(*   dag/topological.py  get_execution_layers  -> Layers                   *)
(*   models/workflow.py  Workflow.create       -> Creates <=> Valid        *)
(*                                                                         *)
(* A graph is the LIST of top-level stages handed to Workflow.create: a    *)
(* sequence of [ref, reqs, join] with reqs an arbitrary set of refs, so    *)
(* duplicate refs, self edges, unknown refs and cycles all occur.  List    *)
(* order matters only for WHICH defect the validator names first (ErrKind).*)
(*                                                                         *)
(* `join` is the stage's join type (how it waits for its upstreams AT RUN  *)
(* TIME: AND / OR / DISCRIMINATOR / N_OF_M / MULTI_MERGE).  It is carried  *)
(* as a dimension of the enumerated inputs and handed to the real          *)
(* StageExecution, but NO definition below reads it: whether a graph is    *)
(* valid, and what "after all of its dependencies" means, is a matter of   *)
(* the edges alone.  (A join that fires on its first upstream still        *)
(* depends on all of them; an order or a cycle check that looks at the     *)
(* join type is wrong.)                                                    *)
(***************************************************************************)
EXTENDS Naturals, Sequences, FiniteSets

CONSTANTS Refs        \* the reference alphabet

JoinTypes == {"AND", "OR", "DISCRIMINATOR", "N_OF_M", "MULTI_MERGE"}
Stage == [ref : Refs, reqs : SUBSET Refs, join : JoinTypes]

Idx(g)    == 1..Len(g)
RefsOf(g) == {g[i].ref : i \in Idx(g)}

(***************************************************************************)
(* Validity, declaratively (the statement of the property).                *)
(***************************************************************************)
UniqueRefs(g) == \A i, j \in Idx(g) : g[i].ref = g[j].ref => i = j
NoSelfEdge(g) == \A i \in Idx(g) : g[i].ref \notin g[i].reqs
AllKnown(g)   == \A i \in Idx(g) : g[i].reqs \subseteq RefsOf(g)
\* i is a dependency of j
Dep(g, i, j)  == g[i].ref \in g[j].reqs
\* A cycle exists iff some non-empty set of stages is closed under "has a dependency inside the set".
Acyclic(g)    == ~ \E S \in (SUBSET Idx(g)) \ {{}} : \A j \in S : \E i \in S : Dep(g, i, j)

Valid(g) == UniqueRefs(g) /\ NoSelfEdge(g) /\ AllKnown(g) /\ Acyclic(g)

(***************************************************************************)
(* Which defect validate_stage_graph reports.  It checks duplicates over   *)
(* the whole list first, then walks the list once and for each stage tests *)
(* the self edge before the unknown refs, and only then runs Kahn.         *)
(* (Deliberately operational: it transcribes the order of the checks; the  *)
(* property itself only needs Valid.  A different kind is DRIFT.)          *)
(***************************************************************************)
Min(S) == CHOOSE x \in S : \A y \in S : x <= y
ErrKind(g) ==
  IF ~UniqueRefs(g) THEN "duplicate_ref"
  ELSE LET bad == {i \in Idx(g) : g[i].ref \in g[i].reqs \/ ~(g[i].reqs \subseteq RefsOf(g))}
       IN  IF bad # {}
           THEN IF g[Min(bad)].ref \in g[Min(bad)].reqs THEN "self_edge" ELSE "unknown_ref"
           ELSE IF ~Acyclic(g) THEN "cycle" ELSE "none"

(***************************************************************************)
(* Execution order.  `order` is a sequence of list positions.              *)
(***************************************************************************)
IsPerm(g, order) ==
  /\ Len(order) = Len(g)
  /\ \A i \in Idx(g) : \E p \in 1..Len(order) : order[p] = i

\* The property: a stage is listed after ALL of its dependencies.
TopoOK(g, order) ==
  /\ IsPerm(g, order)
  /\ \A p, q \in 1..Len(order) : Dep(g, order[p], order[q]) => p < q

\* What Kahn's loop guarantees on ANY list (also with duplicate refs, where "the" dependency is
\* ambiguous): every requisite ref of a stage is carried by some stage listed earlier.
ProvidedOK(g, order) ==
  /\ IsPerm(g, order)
  /\ \A q \in 1..Len(order) : \A r \in g[order[q]].reqs : \E p \in 1..(q - 1) : g[order[p]].ref = r

(***************************************************************************)
(* topological_sort / get_execution_layers, operationally: rounds of "all  *)
(* stages whose requisites are all provided by earlier rounds".            *)
(***************************************************************************)
RECURSIVE LayersFrom(_, _)
LayersFrom(g, done) ==
  LET provided == {g[i].ref : i \in done}
      layer    == {i \in Idx(g) \ done : g[i].reqs \subseteq provided}
  IN  IF layer = {} THEN <<>> ELSE <<layer>> \o LayersFrom(g, done \cup layer)

Layers(g)   == LayersFrom(g, {})
Placed(g)   == UNION {Layers(g)[k] : k \in 1..Len(Layers(g))}
\* topological_sort returns iff every stage gets placed, otherwise raises CircularDependencyError
Sortable(g) == Placed(g) = Idx(g)
LayerOf(g, i) == CHOOSE k \in 1..Len(Layers(g)) : i \in Layers(g)[k]
\* exactly the outputs topological_sort can produce: layer by layer, any order inside a layer
KahnOK(g, order) ==
  /\ IsPerm(g, order)
  /\ \A p, q \in 1..Len(order) : p < q => LayerOf(g, order[p]) <= LayerOf(g, order[q])

(***************************************************************************)
(* Consistency of the definitions above (checked by TLC on every graph of  *)
(* the bound as invariant DefsAgree of MC_Graph): a valid graph is         *)
(* sortable; on a valid graph every Kahn output is a topological order and *)
(* the two formulations of "after its dependencies" coincide.              *)
(***************************************************************************)
Perms(g) == {o \in [Idx(g) -> Idx(g)] : \A i \in Idx(g) : \E p \in Idx(g) : o[p] = i}
DefsAgreeOn(g) ==
  /\ Valid(g) => Sortable(g)
  /\ Valid(g) <=> (ErrKind(g) = "none")
  /\ (UniqueRefs(g) /\ Sortable(g)) => Valid(g)
  /\ Valid(g) => \A o \in Perms(g) : /\ KahnOK(g, o) => TopoOK(g, o)
                                      /\ TopoOK(g, o) <=> ProvidedOK(g, o)
=============================================================================
