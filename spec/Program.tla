---- MODULE Program ----
EXTENDS TLC
P == [
   name |-> "diamond",
   stages |-> <<"a", "b", "c", "d">>,
   req |-> ("a" :> {} @@ "b" :> {"a"} @@ "c" :> {"a"} @@ "d" :> {"b", "c"}),
   join |-> ("a" :> "AND" @@ "b" :> "AND" @@ "c" :> "AND" @@ "d" :> "AND"),
   thr |-> ("a" :> 0 @@ "b" :> 0 @@ "c" :> 0 @@ "d" :> 0),
   tasks |-> ("a" :> <<"a.1">> @@ "b" :> <<"b.1">> @@ "c" :> <<"c.1">> @@ "d" :> <<"d.1">>),
   beh |-> ("a.1" :> ("k" :> "ok" @@ "n" :> 0 @@ "target" :> "" @@ "targets" :> <<"">>) @@ "b.1" :> ("k" :> "ok" @@ "n" :> 0 @@ "target" :> "" @@ "targets" :> <<"">>) @@ "c.1" :> ("k" :> "ok" @@ "n" :> 0 @@ "target" :> "" @@ "targets" :> <<"">>) @@ "d.1" :> ("k" :> "ok" @@ "n" :> 0 @@ "target" :> "" @@ "targets" :> <<"">>)),
   stageOf |-> ("a.1" :> "a" @@ "b.1" :> "b" @@ "c.1" :> "c" @@ "d.1" :> "d"),
   cof |-> ("a" :> FALSE @@ "b" :> FALSE @@ "c" :> FALSE @@ "d" :> FALSE),
   failp |-> ("a" :> TRUE @@ "b" :> TRUE @@ "c" :> TRUE @@ "d" :> TRUE),
   mutex |-> ("a" :> "" @@ "b" :> "" @@ "c" :> "" @@ "d" :> ""),
   choice |-> ("a" :> "" @@ "b" :> "" @@ "c" :> "" @@ "d" :> ""),
   parent |-> ("a" :> "" @@ "b" :> "" @@ "c" :> "" @@ "d" :> ""),
   owner |-> ("a" :> "" @@ "b" :> "" @@ "c" :> "" @@ "d" :> ""),
   enabled |-> ("a" :> "none" @@ "b" :> "none" @@ "c" :> "none" @@ "d" :> "none"),
   maxJumps |-> 10 ]
Ref == [wf |-> "", st |-> <<>>]
Ideal == [wf |-> "", st |-> <<>>]
Racy == {}
ExecMax == <<>>
RefViews == <<>>
CheckProps == {}
MaxDepth == 400
====
