------------------------------ MODULE DataFlow ------------------------------
(***************************************************************************)
(* C16  "A stage sees exactly its ancestors' outputs, the nearest ancestor *)
(* winning".                                                               *)
(*                                                                         *)
(* Code under study (stabilize):                                           *)
(*   handlers/start_stage/planner.py   _plan_stage                         *)
(*   persistence/sqlite/queries.py     get_merged_ancestor_outputs         *)
(*   handlers/run_task/result.py       process_result (outputs -> stage)   *)
(*   handlers/jump_to_stage/{handler,reset,traversal}.py  (re-arm)         *)
(*                                                                         *)
(* The module has three layers.                                            *)
(*  1. The data model and the OPERATIONAL merge, transcribed from the code:*)
(*     MergeInto (the per-key rule used both for the ancestor fold and for *)
(*     the own-context overlay), Kahn's algorithm with a FIFO queue whose  *)
(*     tie-breaks are arbitrary (Python set iteration), PlanView.          *)
(*  2. The DECLARATIVE statement of the property: Anc, Producers, Maximal, *)
(*     Candidates, PathOrdered, VisibleKeys, ListCands and Failed(s, view) *)
(*     = the set of <<formula, key>> an observation breaks.                *)
(*  3. A small planner/engine state machine (StartStage, KahnStep,         *)
(*     FinishPlan, RunTask with the jump re-arm) over which TLC (a) proves *)
(*     the theorems that tie layer 1 to layer 2 for EVERY merge order and  *)
(*     (b) predicts what the real engine shows.  Trace_DataFlow re-uses    *)
(*     TaskEffect and the operators to validate recorded executions.       *)
(*                                                                         *)
(* Programs are not constants of the model: a whole batch of generated     *)
(* programs (and, for trace validation, their recorded runs) is read from  *)
(* one JSON file and the variable `cid` selects the program of a behaviour *)
(* (it never changes), so one TLC run covers hundreds of programs.         *)
(*                                                                         *)
(* Program record G (JSON):                                                *)
(*   stages  <<ref>>                 storage order                         *)
(*   req     [ref -> <<ref>>]        requisite stage refs                  *)
(*   tasks   [ref -> <<task>>]       tasks of the stage, in order          *)
(*   kind    [key -> "s" | "l"]      scalar / list valued key              *)
(*   prod    [task -> [key -> [when |-> "always"|"first", dup |-> BOOLEAN]]]*)
(*           what the task returns as outputs; "first": only on its first  *)
(*           execution (iteration 0); dup: the list also carries the shared*)
(*           item "dup" (exercises the duplicate-free concatenation)       *)
(*   own     [ref -> [key -> Val]]   the stage's own context               *)
(*   jump    [task -> [target |-> ref, n |-> Nat]]  the task answers       *)
(*           jump_to(target) while the stage's _jump_count < n             *)
(* Val = [t |-> "s"|"l", v |-> <<atom>>] (a scalar is a one-item sequence, *)
(* so that every comparison is between values of one shape).  The value a  *)
(* task produces is TAGGED with producer, key and the ordinal of the       *)
(* producing execution: Atom(s, k, n) = "s.k.n" - the iteration is visible *)
(* in every value an observer sees.                                        *)
(*                                                                         *)
(* Deliberate deviations: every stage finishes in a continuable status    *)
(* (SUCCEEDED, or FAILED_CONTINUE with outputs - the same "DONE" here: what *)
(* a failed-but-continuing stage produced counts; no halting statuses, no  *)
(* synthetic stages); only backward jumps whose loop body is closed (every *)
(* descendant of the target is an ancestor or a descendant of the jumping  *)
(* stage); jump_context / _jump_outputs and task-written context are not   *)
(* modelled; reducers are in Reducers.tla.  The jump is folded into the    *)
(* step of the jumping task (nothing that reads the re-armed stages can    *)
(* run in between).                                                        *)
(***************************************************************************)
EXTENDS Integers, Sequences, FiniteSets, TLC, Json, IOUtils

CONSTANT StoreMerged   \* TRUE: _plan_stage stores the merged dict as the stage's context (the code);
                       \* FALSE: the stage's own context stays what the program set (ideal / proposed fix)
CONSTANT MergeOrder    \* "kahn": the code's order; mutants of the MODEL used to show the theorems bite:
                       \* "reversed" (descendants first)
CONSTANT OwnWins       \* TRUE: own context merged last (the code); FALSE: model mutant

Cases == JsonDeserialize(IOEnv.DF_CASES)

VARIABLES cid,    \* index of the program in Cases (constant along a behaviour)
          st,     \* [ref -> "NS" | "RUN" | "DONE"]
          tix,    \* [ref -> number of tasks of the stage finished in the current arm]
          it,     \* [task -> number of executions so far]   (the ledger count)
          outs,   \* [ref -> [key -> Val]]   stage_executions.outputs
          seen,   \* [ref -> [key -> Val]]   user part of stage_executions.context = what its tasks read
          jc,     \* [ref -> _jump_count stored in the stage's context]
          pl      \* the planner's local state while _plan_stage runs
dvars == <<cid, st, tix, it, outs, seen, jc, pl>>

G == Cases[cid].prog
ToSet(q) == {q[i] : i \in DOMAIN q}
Stages == ToSet(G.stages)
Keys   == DOMAIN G.kind
Tasks  == UNION {ToSet(G.tasks[s]) : s \in Stages}
Req(s) == ToSet(G.req[s])
TasksOf(s) == G.tasks[s]
Empty == [k \in {} |-> 0]

-----------------------------------------------------------------------------
(* Graph                                                                   *)
Anc(s) ==   \* every stage s transitively depends on (BFS of get_merged_ancestor_outputs)
  LET RECURSIVE Up(_)
      Up(S) == LET N == S \cup UNION {Req(x) : x \in S} IN IF N = S THEN S ELSE Up(N)
  IN Up(Req(s))
Before(a, b) == a \in Anc(b)          \* a strictly upstream of b on a dependency path
Desc(s) == {x \in Stages : s \in Anc(x)}

Resettable(tg) ==   \* get_resettable_downstream_stages: fan-in boundaries respected, fixed point
  LET RECURSIVE Grow(_)
      Grow(S) == LET N == S \cup {x \in Stages : Req(x) # {} /\ Req(x) \subseteq S}
                 IN IF N = S THEN S ELSE Grow(N)
  IN Grow({tg}) \ {tg}
ReArmed(src, tg) == {tg, src} \cup Resettable(tg)

-----------------------------------------------------------------------------
(* Values and the merge rule                                               *)
Atom(s, k, n) == s \o "." \o k \o "." \o ToString(n)
ProdVal(s, k, d, n) ==
  IF G.kind[k] = "s" THEN [t |-> "s", v |-> <<Atom(s, k, n)>>]
  ELSE [t |-> "l", v |-> <<Atom(s, k, n)>> \o (IF d.dup THEN <<"dup">> ELSE <<>>)]
Produce(s, t, n) ==   \* outputs returned by the n-th execution (0-based) of task t of stage s
  LET D == G.prod[t]
      K == {k \in DOMAIN D : D[k].when = "always" \/ n = 0}
  IN [k \in K |-> ProdVal(s, k, D[k], n)]

In(x, q) == \E i \in DOMAIN q : q[i] = x
RECURSIVE AppendNew(_, _)      \* for item in ys: if item not in xs: xs.append(item)
AppendNew(xs, ys) ==
  IF ys = <<>> THEN xs
  ELSE AppendNew(IF In(Head(ys), xs) THEN xs ELSE Append(xs, Head(ys)), Tail(ys))
MergeVal(old, new) ==          \* "if key in merged and both are lists: concatenate, else replace"
  IF old.t = "l" /\ new.t = "l" THEN [t |-> "l", v |-> AppendNew(old.v, new.v)] ELSE new
MergeInto(acc, d) ==
  [k \in DOMAIN acc \cup DOMAIN d |->
     IF k \in DOMAIN d THEN (IF k \in DOMAIN acc THEN MergeVal(acc[k], d[k]) ELSE d[k]) ELSE acc[k]]
Update(acc, d) ==              \* dict.update (process_result: stage.outputs.update(result.outputs))
  [k \in DOMAIN acc \cup DOMAIN d |-> IF k \in DOMAIN d THEN d[k] ELSE acc[k]]

RECURSIVE FoldOrder(_, _)
FoldOrder(o, acc) == IF o = <<>> THEN acc ELSE FoldOrder(Tail(o), MergeInto(acc, outs[Head(o)]))
Overlay(merged, own) == IF OwnWins THEN MergeInto(merged, own) ELSE MergeInto(own, merged)
PlanView(o, own) == Overlay(FoldOrder(o, Empty), own)

-----------------------------------------------------------------------------
(* Orders                                                                  *)
RECURSIVE Perms(_)
Perms(S) == IF S = {} THEN {<<>>} ELSE UNION {{<<a>> \o o : o \in Perms(S \ {a})} : a \in S}
RECURSIVE LinExt(_)            \* all topological orders of S (declarative side)
LinExt(S) ==
  IF S = {} THEN {<<>>}
  ELSE UNION {{<<a>> \o o : o \in LinExt(S \ {a})} : a \in {x \in S : \A y \in S : ~Before(y, x)}}

(* Kahn's algorithm as written in the code: in-degrees over DIRECT requisite edges inside S, a FIFO  *)
(* queue seeded with the in-degree-0 nodes in set-iteration order, successors appended as they are   *)
(* freed, again in set-iteration order.  Not every topological order can come out of it.             *)
Sources(S) == {x \in S : Req(x) \cap S = {}}
Freed(u, D, S) == {v \in S \ D : u \in Req(v) /\ (Req(v) \cap S) \subseteq D}   \* D already contains u
RECURSIVE KahnFrom(_, _, _)
KahnFrom(q, D, S) ==
  IF q = <<>> THEN {<<>>}
  ELSE LET u == Head(q)
           D2 == D \cup {u}
       IN UNION {{<<u>> \o o : o \in KahnFrom(Tail(q) \o p, D2, S)} : p \in Perms(Freed(u, D2, S))}
KahnOrders(S) == UNION {KahnFrom(p, {}, S) : p \in Perms(Sources(S))}
RECURSIVE Rev(_)
Rev(q) == IF q = <<>> THEN <<>> ELSE Append(Rev(Tail(q)), Head(q))
CodeOrders(S) == IF MergeOrder = "reversed" THEN {Rev(o) : o \in KahnOrders(S)} ELSE KahnOrders(S)

-----------------------------------------------------------------------------
(* The property, declaratively (over the CURRENT outputs: a re-armed ancestor's outputs of an     *)
(* earlier loop iteration are gone, so "current" = produced in the current iteration)             *)
Producers(s, k) == {a \in Anc(s) : k \in DOMAIN outs[a]}
Maximal(s, k)   == {a \in Producers(s, k) : \A b \in Producers(s, k) : ~Before(a, b)}
PathOrdered(s, k) == Cardinality(Maximal(s, k)) <= 1    \* the nearest producer is unique
OwnKeys(s) == DOMAIN G.own[s]
Candidates(s, k) ==
  IF k \in OwnKeys(s) THEN {G.own[s][k]} ELSE {outs[a][k] : a \in Maximal(s, k)}
VisibleKeys(s) == OwnKeys(s) \cup {k \in Keys : Producers(s, k) # {}}
RECURSIVE ConcatLists(_, _)
ConcatLists(o, k) == IF o = <<>> THEN <<>> ELSE AppendNew(ConcatLists(SubSeq(o, 1, Len(o) - 1), k), outs[o[Len(o)]][k].v)
ListCands(s, k) ==   \* duplicate-free concatenation of the ancestors' lists in SOME topological order, own items last
  {[t |-> "l", v |-> AppendNew(ConcatLists(o, k), IF k \in OwnKeys(s) THEN G.own[s][k].v ELSE <<>>)] :
     o \in LinExt(Producers(s, k))}

Failed(s, view) ==   \* the <<formula, key>> pairs an observation (stage s was handed `view`) breaks
     {<<"NoForeignKeys", k>> : k \in DOMAIN view \ VisibleKeys(s)}
  \cup {<<"AllAncestorKeys", k>> : k \in VisibleKeys(s) \ DOMAIN view}
  \cup {<<"OwnWins", k>> : k \in {x \in DOMAIN view \cap OwnKeys(s) : G.kind[x] = "s" /\ view[x] \notin Candidates(s, x)}}
  \cup {<<"NearestWins", k>> : k \in {x \in (DOMAIN view \cap VisibleKeys(s)) \ OwnKeys(s) :
                                          G.kind[x] = "s" /\ view[x] \notin Candidates(s, x)}}
  \cup {<<"ListsAccumulate", k>> : k \in {x \in DOMAIN view \cap VisibleKeys(s) :
                                          G.kind[x] = "l" /\ view[x] \notin ListCands(s, x)}}
Allowed(s, view) == Failed(s, view) = {}

(* Diagnostic for triage: the value seen under k carries an item some ancestor produced in an      *)
(* EARLIER execution than its latest one (a value of a previous loop iteration).                    *)
StaleAtoms(s, k) ==
  UNION {UNION {{Atom(a, k, j) : j \in 0 .. (it[t] - 2)} : t \in {x \in ToSet(TasksOf(a)) : k \in DOMAIN G.prod[x]}} :
           a \in Anc(s)}
Stale(s, view, k) == k \in DOMAIN view /\ \E i \in DOMAIN view[k].v : view[k].v[i] \in StaleAtoms(s, k)

-----------------------------------------------------------------------------
(* State machine                                                           *)
NoPlan == [s |-> "", q |-> <<>>, d |-> {}, o |-> <<>>, acc |-> Empty, ph |-> "idle"]
OwnAtPlan(s) == IF StoreMerged THEN seen[s] ELSE G.own[s]

DInit(c) ==
  /\ cid = c
  /\ st = [s \in ToSet(Cases[c].prog.stages) |-> "NS"]
  /\ tix = [s \in ToSet(Cases[c].prog.stages) |-> 0]
  /\ it = [t \in UNION {ToSet(Cases[c].prog.tasks[s]) : s \in ToSet(Cases[c].prog.stages)} |-> 0]
  /\ outs = [s \in ToSet(Cases[c].prog.stages) |-> Empty]
  /\ seen = [s \in ToSet(Cases[c].prog.stages) |-> Cases[c].prog.own[s]]
  /\ jc = [s \in ToSet(Cases[c].prog.stages) |-> 0]
  /\ pl = NoPlan

(* StartStageHandler: the stage is ready; get_merged_ancestor_outputs reads all rows in ONE SELECT  *)
(* (an atomic snapshot), seeds the queue with the in-degree-0 ancestors in arbitrary order.         *)
StartStage(s) ==
  /\ pl.ph = "idle" /\ st[s] = "NS"
  /\ \A r \in Req(s) : st[r] = "DONE"
  /\ \E p \in Perms(Sources(Anc(s))) :
        pl' = [s |-> s, q |-> p, d |-> {}, o |-> <<>>, acc |-> Empty, ph |-> "merge"]
  /\ UNCHANGED <<cid, st, tix, it, outs, seen, jc>>

(* one round of "u = queue.pop(0); sorted.append(u); free its successors" + the merge of u's outputs *)
KahnStep ==
  /\ pl.ph = "merge" /\ pl.q # <<>>
  /\ LET u == Head(pl.q)
         D == pl.d \cup {u}
     IN \E p \in Perms(Freed(u, D, Anc(pl.s))) :
           pl' = [pl EXCEPT !.q = Tail(pl.q) \o p, !.d = D, !.o = Append(pl.o, u)]
  /\ UNCHANGED <<cid, st, tix, it, outs, seen, jc>>

(* the fold over sorted_ancestors, the own-context overlay and `stage.context = merged` *)
PlannedView == PlanView(IF MergeOrder = "reversed" THEN Rev(pl.o) ELSE pl.o, OwnAtPlan(pl.s))
FinishPlan ==
  /\ pl.ph = "merge" /\ pl.q = <<>>
  /\ seen' = [seen EXCEPT ![pl.s] = PlannedView]
  /\ st' = [st EXCEPT ![pl.s] = "RUN"]
  /\ pl' = NoPlan
  /\ UNCHANGED <<cid, tix, it, outs, jc>>

(* What one task execution does to the durable state (shared with Trace_DataFlow).  Outputs are     *)
(* stored with the task result; a jump answer carries no outputs, re-arms target, the resettable    *)
(* downstream stages and the jumping stage itself (outputs := {}, status, tasks), keeps their       *)
(* CONTEXT, and stamps _jump_count on source and target.                                            *)
Jumping(s, t) == t \in DOMAIN G.jump /\ jc[s] < G.jump[t].n
TaskEffect(s, t) ==
  LET n == it[t]
      last == tix[s] + 1 = Len(TasksOf(s))
  IN /\ it' = [it EXCEPT ![t] = n + 1]
     /\ IF Jumping(s, t)
        THEN LET tg == G.jump[t].target
                 R == ReArmed(s, tg)
             IN /\ st' = [x \in Stages |-> IF x \in R THEN "NS" ELSE st[x]]
                /\ tix' = [x \in Stages |-> IF x \in R THEN 0 ELSE tix[x]]
                /\ outs' = [x \in Stages |-> IF x \in R THEN Empty ELSE outs[x]]
                /\ jc' = [jc EXCEPT ![s] = jc[s] + 1, ![tg] = jc[s] + 1]
        ELSE /\ outs' = [outs EXCEPT ![s] = Update(outs[s], Produce(s, t, n))]
             /\ tix' = [tix EXCEPT ![s] = tix[s] + 1]
             /\ st' = [st EXCEPT ![s] = IF last THEN "DONE" ELSE "RUN"]
             /\ UNCHANGED jc

RunTask(s) ==
  /\ pl.ph = "idle" /\ st[s] = "RUN"
  /\ TaskEffect(s, TasksOf(s)[tix[s] + 1])
  /\ UNCHANGED <<cid, seen, pl>>

DNext == (\E s \in Stages : StartStage(s) \/ RunTask(s)) \/ KahnStep \/ FinishPlan

-----------------------------------------------------------------------------
(* Theorems tying the operational merge to the declarative statement; checked by TLC as invariants *)
(* in every reachable state of every program of the batch, for every stage that could be planned.  *)
Plannable(s) == pl.ph = "idle" /\ st[s] = "NS" /\ \A r \in Req(s) : st[r] = "DONE"
IdealViews(s, orders) == {PlanView(o, G.own[s]) : o \in orders}

ThmKahnIsTopological ==      \* every order the code can produce is a topological order of the ancestors
  \A s \in Stages : Plannable(s) => KahnOrders(Anc(s)) \subseteq LinExt(Anc(s))
ThmEveryOrderAllowed ==      \* EVERY topological merge order yields an allowed view ...
  \A s \in Stages : Plannable(s) => \A v \in IdealViews(s, LinExt(Anc(s))) : Allowed(s, v)
ThmCodeOrdersAllowed ==      \* in particular every order the code's algorithm can produce
  \A s \in Stages : Plannable(s) => \A v \in IdealViews(s, CodeOrders(Anc(s))) : Allowed(s, v)
ThmCandidatesExact ==        \* ... and every candidate is reached by some order; a path-ordered key has ONE value
  \A s \in Stages : Plannable(s) =>
     \A k \in VisibleKeys(s) :
        LET vals == {v[k] : v \in IdealViews(s, LinExt(Anc(s)))} IN
        /\ G.kind[k] = "s" => vals = Candidates(s, k)
        /\ G.kind[k] = "l" => vals = ListCands(s, k)
        /\ (G.kind[k] = "s" /\ (PathOrdered(s, k) \/ k \in OwnKeys(s))) => Cardinality(vals) = 1
ThmStepwise ==               \* the step-by-step planner computes exactly the operator form
  (pl.ph = "merge" /\ pl.q = <<>>) =>
     /\ pl.o \in KahnOrders(Anc(pl.s))
     /\ pl.d = Anc(pl.s)
TypeOK ==
  /\ st \in [Stages -> {"NS", "RUN", "DONE"}]
  /\ \A s \in Stages : tix[s] \in 0 .. Len(TasksOf(s))
  /\ \A s \in Stages : DOMAIN seen[s] \subseteq Keys /\ DOMAIN outs[s] \subseteq Keys
=============================================================================
