------------------------------- MODULE Slots -------------------------------
(***************************************************************************)
(* Concurrency slots (C05: "... or explicitly waiting for ... a            *)
(* concurrency slot - never silently stuck").                              *)
(*                                                                         *)
(* Workflows of one pipeline configuration with limit_concurrent and       *)
(* max_concurrent_executions = Limit.  handlers/start_workflow.py: a       *)
(* NOT_STARTED workflow whose StartWorkflow finds >= Limit RUNNING ones of  *)
(* its configuration becomes BUFFERED (one commit, no message), otherwise  *)
(* RUNNING.  handlers/complete_workflow.py pushes StartWaitingWorkflows in *)
(* the commit that finalises a workflow; handlers/start_waiting_workflows: *)
(* reads the BUFFERED and the RUNNING workflows, promotes the oldest       *)
(* (Limit - running) ones to NOT_STARTED + StartWorkflow, one commit each. *)
(* Workflow rows are written by a blind UPDATE ... WHERE id (no version).  *)
(*                                                                         *)
(* The inner life of a workflow is abstracted: RUNNING --Finish--> its     *)
(* CompleteWorkflow message.  Workers take messages one at a time; a step  *)
(* is "reads | write transaction" as in Race.tla.  With one worker the     *)
(* handlers are atomic; with two the read of one can be stale when it      *)
(* writes.                                                                 *)
(***************************************************************************)
EXTENDS Naturals, Sequences, FiniteSets, TLC, SlotsCfg
(* SlotsCfg: Workflows (sequence, oldest first), Limit, Workers, InitStatus, InitQueue, Recheck *)

VARIABLES
  wst,    \* workflow -> status
  q,      \* pending messages: records [typ, w, n]   (typ: "StartWorkflow", "CompleteWorkflow", "StartWaiting"; n: row id)
  nid,    \* next row id
  wk      \* worker -> [pc, m (message being handled), running (count it read), buffered (sequence it read), todo]

vars == <<wst, q, nid, wk>>
W == {Workflows[i] : i \in DOMAIN Workflows}
NoM == [typ |-> "", w |-> "", n |-> 0]
Msg(t, w) == [typ |-> t, w |-> w, n |-> nid]
Idle0 == [pc |-> "idle", m |-> NoM, running |-> 0, buffered |-> <<>>, todo |-> <<>>]

Init == wst = InitStatus /\ q = InitQueue /\ nid = 100 /\ wk = [x \in Workers |-> Idle0]

RunningNow  == Cardinality({w \in W : wst[w] = "RUNNING"})
BufferedNow == SelectSeq(Workflows, LAMBDA w : wst[w] = "BUFFERED")
Taken == {wk[x].m : x \in Workers}

(* poll + the handler's reads *)
Take(x, m) ==
  /\ wk[x].pc = "idle" /\ m \in q /\ m \notin Taken
  /\ wk' = [wk EXCEPT ![x] = [pc |-> "read", m |-> m, running |-> RunningNow, buffered |-> BufferedNow, todo |-> <<>>]]
  /\ UNCHANGED <<wst, q, nid>>

Done(x) == wk' = [wk EXCEPT ![x] = Idle0]

(* StartWorkflow: decision from what was READ, one commit.  After buffering, the handler counts the RUNNING workflows
   again (Recheck; /repo fix "a buffered workflow re-checks for a free slot"): the one it counted may have completed -
   and its StartWaitingWorkflows may have found nothing buffered yet - in the meantime; with a free slot it pushes
   a StartWaitingWorkflows itself (a commit of its own). *)
StartWf(x) ==
  /\ wk[x].pc = "read" /\ wk[x].m.typ = "StartWorkflow"
  /\ LET w == wk[x].m.w
         buf == wst[w] = "NOT_STARTED" /\ wk[x].running >= Limit
     IN
     /\ wst' = IF wst[w] # "NOT_STARTED" THEN wst              \* (status is re-read with the execution: ignored)
               ELSE IF buf THEN [wst EXCEPT ![w] = "BUFFERED"]
               ELSE [wst EXCEPT ![w] = "RUNNING"]
     /\ IF buf /\ Recheck /\ Cardinality({v \in W : wst'[v] = "RUNNING"}) < Limit
        THEN /\ wk' = [wk EXCEPT ![x].pc = "pushsww"] /\ q' = q
        ELSE /\ q' = q \ {wk[x].m} /\ Done(x)
     /\ UNCHANGED nid
PushSWW(x) ==
  /\ wk[x].pc = "pushsww"
  /\ q' = (q \ {wk[x].m}) \cup {Msg("StartWaiting", wk[x].m.w)} /\ nid' = nid + 1
  /\ Done(x) /\ UNCHANGED wst

(* the workflow's own run, abstracted *)
Finish(w) ==
  /\ wst[w] = "RUNNING" /\ ~\E m \in q : m.typ = "CompleteWorkflow" /\ m.w = w
  /\ q' = q \cup {Msg("CompleteWorkflow", w)} /\ nid' = nid + 1
  /\ UNCHANGED <<wst, wk>>

CompleteWf(x) ==
  /\ wk[x].pc = "read" /\ wk[x].m.typ = "CompleteWorkflow"
  /\ LET w == wk[x].m.w IN
     /\ wst' = [wst EXCEPT ![w] = IF @ = "RUNNING" THEN "SUCCEEDED" ELSE @]
     /\ q' = (q \ {wk[x].m}) \cup {Msg("StartWaiting", w)} /\ nid' = nid + 1
  /\ Done(x)

(* StartWaitingWorkflows: slots from what was READ; one commit per promoted workflow *)
WaitingPlan(x) ==
  /\ wk[x].pc = "read" /\ wk[x].m.typ = "StartWaiting"
  /\ LET slots == IF Limit > wk[x].running THEN Limit - wk[x].running ELSE 0
         b == wk[x].buffered
     IN wk' = [wk EXCEPT ![x].pc = "promote",
                         ![x].todo = SubSeq(b, 1, IF Len(b) < slots THEN Len(b) ELSE slots)]
  /\ UNCHANGED <<wst, q, nid>>
Promote(x) ==
  /\ wk[x].pc = "promote"
  /\ IF wk[x].todo = <<>>
     THEN /\ q' = q \ {wk[x].m} /\ Done(x) /\ UNCHANGED <<wst, nid>>
     ELSE LET w == Head(wk[x].todo) IN
          /\ wst' = [wst EXCEPT ![w] = "NOT_STARTED"]          \* blind UPDATE
          /\ q' = q \cup {Msg("StartWorkflow", w)} /\ nid' = nid + 1
          /\ wk' = [wk EXCEPT ![x].todo = Tail(@)]

Next ==
  \/ \E x \in Workers : (\E m \in q : Take(x, m)) \/ StartWf(x) \/ PushSWW(x) \/ CompleteWf(x) \/ WaitingPlan(x) \/ Promote(x)
  \/ \E w \in W : Finish(w)
Spec == Init /\ [][Next]_vars /\ WF_vars(Next)

Quiet == q = {} /\ \A x \in Workers : wk[x].pc = "idle" /\ \A w \in W : wst[w] # "RUNNING"
(* C05: never silently stuck - when nothing is pending and nothing runs, nobody waits for a slot *)
NoStrandedBuffered == Quiet => \A w \in W : wst[w] # "BUFFERED"
(* and the limit is a limit *)
AtMostLimit == RunningNow <= Limit
(* liveness form: every workflow ends *)
AllFinish == <>[](\A w \in W : wst[w] = "SUCCEEDED")
=============================================================================
