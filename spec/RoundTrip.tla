----------------------------- MODULE RoundTrip -----------------------------
(***************************************************************************)
(* Register model of the workflow store and of the queue (property C19):   *)
(* what is stored or queued is read back unchanged.                        *)
(*                                                                         *)
(* Values are abstract TOKENS [w |-> number of the operation that wrote    *)
(* it, c |-> value class]; the Python side concretises every token with a  *)
(* real value of that class (hypothesis, seeded) and compares, field by    *)
(* field, the real objects with the tokens this model predicts.            *)
(*                                                                         *)
(* The store is modelled the way the code works, not as a tautology:       *)
(*   store(workflow)      INSERTs every column of the workflow row, of     *)
(*                        each stage row (helpers.insert_stage) and of     *)
(*                        each task row (helpers.upsert_task, INSERT path) *)
(*   retrieve / retrieve_stage   load every column into a fresh object     *)
(*                        (converters.py: row_to_stage etc.), tasks ORDER BY id *)
(*   store_stage(obj)     UPDATEs exactly UpdCols of the stage row from    *)
(*                        the object, version := version + 1, and UPDATEs  *)
(*                        every task row of obj (or INSERTs a new one)     *)
(* and the properties are stated against ghost variables that remember     *)
(* the last value the CALLER assigned to each field:                       *)
(*   ReadBack   every column equals the caller's last assignment           *)
(*   Frame      store_stage alters no column the caller did not change,    *)
(*              and persists nothing outside UpdCols / the tasks           *)
(*   TaskOrder  tasks are read back in the order of stage.tasks            *)
(*   PathsAgree a message is delivered with the type and field values it   *)
(*              was pushed with, whichever push path was used              *)
(*                                                                         *)
(* TLC enumerates (Mode "stage") which subset of fields a store_stage call *)
(* changes, over MaxRounds rounds, and (Mode "queue") which message types  *)
(* are pushed through which path; the rotation r \in Rots decides which    *)
(* value class goes into which field, so that over all r every field sees  *)
(* every class of its kind (every member of every enum included).          *)
(* Every complete case is printed as one JSON line for the replayer.       *)
(***************************************************************************)
EXTENDS Naturals, Sequences, FiniteSets, TLC, Json

CONSTANTS
  Mode,        \* "stage" | "queue"
  Rots,        \* set of rotations, e.g. 0..12
  MaxRounds,   \* stage mode: number of store_stage rounds after the initial store
  MsgTypes,    \* queue mode: message types to enumerate (all of queue/messages.py:MESSAGE_TYPES)
  MaxSlots     \* queue mode: number of push slots (a slot is one push or a direct/transactional pair)

VARIABLES
  row,      \* the database: [wf |-> cols, st |-> [stage -> cols], tk |-> [stage -> sequence of task rows]]
  last,     \* ghost: what the caller last assigned (same shape)
  q,        \* the queue: sequence of [type, path, f |-> field -> token]
  hist,     \* the operations of the case, with their parameters and the expected observations
  n,        \* number of operations so far (token stamp)
  rounds,   \* store_stage rounds / push slots used
  stored, done

vars == <<row, last, q, hist, n, rounds, stored, done>>

-----------------------------------------------------------------------------
(* Field tables: <<name, kind>>.  Kinds and their value classes.           *)
F(nm, k) == [n |-> nm, k |-> k]

Classes(k) ==
  CASE k = "text"     -> <<"ascii", "unicode", "large", "empty">>
    [] k = "text1"    -> <<"ascii", "unicode", "large">>        \* non-empty text, see WfFields.origin
    [] k = "otext"    -> <<"none", "ascii", "unicode", "empty", "large">>
    [] k = "oint"     -> <<"none", "zero", "small", "epoch", "max">>
    [] k = "nat"      -> <<"zero", "small", "epoch">>
    [] k = "json"     -> <<"empty", "scalars", "nested", "unicode", "large">>
    [] k = "jsonlist" -> <<"empty", "nested", "unicode">>
    [] k = "strmap"   -> <<"empty", "ascii", "unicode">>
    [] k = "reducers" -> <<"empty", "one", "many">>              \* output key -> reducer name
    [] k = "refs"     -> <<"empty", "one", "many">>
    [] k = "bool"     -> <<"true", "false">>
    [] k = "status"   -> <<"e1", "e2", "e3", "e4", "e5", "e6", "e7", "e8", "e9", "e10", "e11", "e12">>   \* WorkflowStatus
    [] k = "ostatus"  -> <<"none", "e1", "e2", "e3", "e4", "e5", "e6", "e7", "e8", "e9", "e10", "e11", "e12">>
    [] k = "join"     -> <<"e1", "e2", "e3", "e4", "e5">>                                              \* JoinType
    [] k = "split"    -> <<"e1", "e2">>                                                                \* SplitType
    [] k = "owner"    -> <<"e1", "e2">>                                                                \* SyntheticStageOwner
    [] k = "oowner"   -> <<"none", "e1", "e2">>
    [] k = "wftype"   -> <<"e1", "e2">>                                                                \* WorkflowType
    [] k = "omi"      -> <<"none", "default", "custom">>                                               \* MultiInstanceConfig
    [] k = "opaused"  -> <<"none", "custom">>                                                          \* PausedDetails
    [] OTHER          -> <<"ascii">>

Pick(k, i) == Classes(k)[(i % Len(Classes(k))) + 1]

WfFields == <<F("type", "wftype"), F("application", "text"), F("name", "text"), F("status", "status"), F("context", "json"),
   F("start_time", "oint"), F("end_time", "oint"), F("start_time_expiry", "oint"),
   F("trigger.type", "text"), F("trigger.user", "text"), F("trigger.parameters", "json"), F("trigger.artifacts", "jsonlist"),
   F("trigger.payload", "json"), F("is_canceled", "bool"), F("canceled_by", "otext"), F("cancellation_reason", "otext"),
   F("paused", "opaused"), F("pipeline_config_id", "otext"), F("is_limit_concurrent", "bool"),
   F("max_concurrent_executions", "nat"), F("keep_waiting_pipelines", "bool"), F("origin", "text1")>>
   \* origin: an EMPTY origin is read back as "unknown" (converters.row_to_execution: `row["origin"] or "unknown"`).
   \* Workflow.origin is provenance metadata, not among the things the property lists (stages, dependencies,
   \* control-flow settings, tasks, statuses, context, outputs), so the empty class is left out on purpose;
   \* the observation is recorded in docs/notes_C19.md.

StageFields == <<F("type", "text"), F("name", "text"), F("status", "status"), F("context", "json"), F("outputs", "json"),
   F("requisite_stage_ref_ids", "refs"), F("parent_stage_id", "otext"), F("synthetic_stage_owner", "oowner"),
   F("start_time", "oint"), F("end_time", "oint"), F("start_time_expiry", "oint"), F("scheduled_time", "oint"),
   F("version", "nat"),
   F("join_type", "join"), F("join_threshold", "nat"), F("split_type", "split"), F("split_conditions", "strmap"),
   F("mi_config", "omi"), F("deferred_choice_group", "otext"), F("milestone_ref_id", "otext"),
   F("milestone_status", "otext"), F("mutex_key", "otext"), F("cancel_region", "otext"),
   F("output_reducers", "reducers")>>
   \* output_reducers (fan-in reducers, a control-flow setting) has no column of its own: the code persists it through the
   \* private context key "_output_reducers" - in this model it is a field like the others (INSERTed, loaded, and, not
   \* being in UpdCols, left alone by store_stage); the replayer, as the caller, carries the private key over when it
   \* assigns a new context.

(* columns of `UPDATE stage_executions SET ...` in store_stage (version is bumped, not assigned) *)
UpdCols == {"status", "context", "outputs", "start_time", "end_time"}

TaskFields == <<F("name", "text"), F("implementing_class", "text"), F("status", "status"),
   F("start_time", "oint"), F("end_time", "oint"), F("stage_start", "bool"), F("stage_end", "bool"),
   F("loop_start", "bool"), F("loop_end", "bool"), F("task_exception_details", "json")>>
(* every task column except id / stage_id is rewritten by upsert_task's UPDATE *)

MsgFields(t) ==
  LET base   == <<F("last_error", "otext"), F("last_error_type", "otext")>>
      wfl    == base \o <<F("execution_type", "text"), F("execution_id", "text")>>
      stl    == wfl \o <<F("stage_id", "text"), F("retry_count", "nat")>>
      tkl    == stl \o <<F("task_id", "text")>>
  IN CASE t = "StartWorkflow" -> wfl
       [] t = "CompleteWorkflow" -> wfl \o <<F("retry_count", "nat")>>
       [] t = "CancelWorkflow" -> wfl \o <<F("user", "text"), F("reason", "text")>>
       [] t = "StartWaitingWorkflows" -> base \o <<F("pipeline_config_id", "text"), F("purge_queue", "bool")>>
       [] t \in {"StartStage", "CompleteStage", "SkipStage", "CancelStage", "RestartStage", "ResumeStage", "InvalidStageId"} -> stl
       [] t = "ContinueParentStage" -> stl \o <<F("phase", "owner")>>
       [] t = "JumpToStage" -> stl \o <<F("target_stage_ref_id", "text"), F("jump_context", "json"), F("jump_outputs", "json")>>
       [] t = "SignalStage" -> stl \o <<F("signal_name", "text"), F("signal_data", "json"), F("persistent", "bool")>>
       [] t = "CancelRegion" -> wfl \o <<F("region", "text")>>
       [] t = "AddMultiInstance" -> stl \o <<F("instance_context", "json")>>
       [] t \in {"StartTask", "PauseTask", "InvalidTaskId"} -> tkl
       [] t = "RunTask" -> tkl \o <<F("task_type", "text")>>
       [] t = "CompleteTask" -> tkl \o <<F("status", "status"), F("original_status", "ostatus")>>
       [] t = "InvalidTaskType" -> tkl \o <<F("task_type_name", "text")>>
       [] t = "InvalidWorkflowId" -> wfl
       [] OTHER -> base

-----------------------------------------------------------------------------
Names(fields) == {fields[j].n : j \in DOMAIN fields}
Idx(fields, nm) == CHOOSE j \in DOMAIN fields : fields[j].n = nm

(* the tokens an operation number w with rotation r (salt s) assigns to the given fields *)
Tokens(fields, names, w, r, s) ==
  [nm \in names |-> [w |-> w, c |-> Pick(fields[Idx(fields, nm)].k, Idx(fields, nm) + r + 5 * w + s), plus |-> 0]]

Stages == {1, 2}
NTasks(s, r) == <<0, 1, 3, 2>>[((r + s) % 4) + 1]
IdClass(r)   == <<"ulid", "custom_sorted", "custom_unsorted">>[(r % 3) + 1]

NewTask(rank, w, r, s) == [rank |-> rank, ver |-> 0, f |-> Tokens(TaskFields, Names(TaskFields), w, r, s + 7 * rank)]

Empty == [wf |-> <<>>, st |-> <<>>, tk |-> <<>>]

Init ==
  /\ row = Empty /\ last = Empty /\ q = <<>> /\ hist = <<>> /\ n = 0 /\ rounds = 0
  /\ stored = FALSE /\ done = FALSE

(* ---- store(workflow): everything is INSERTed as given.  The code has two ways to insert a stage: with its workflow
   (store) and on its own (add_stage, used for synthetic and multi-instance stages): "add_stage" = the workflow is stored
   with stage 1 only and stage 2 is added afterwards - one meaning in this model.  Every retrieve / retrieve_stage of a
   case is made twice by the replayer: through the writer's connection and through an independent one (another worker);
   both must return the expected image. ---- *)
StoreHow(r) == <<"store", "add_stage">>[((r \div 2) % 2) + 1]
StoreWorkflow(r) ==
  /\ Mode = "stage" /\ ~stored /\ ~done
  /\ LET w  == n + 1
         img == [wf |-> Tokens(WfFields, Names(WfFields), w, r, 0),
                 st |-> [s \in Stages |-> Tokens(StageFields, Names(StageFields), w, r, 11 * s)],
                 tk |-> [s \in Stages |-> [i \in 1..NTasks(s, r) |-> NewTask(i, w, r, 13 * s)]]]
     IN /\ row' = img /\ last' = img
        /\ hist' = hist \o <<[op |-> "store", w |-> w, r |-> r, ids |-> IdClass(r), how |-> StoreHow(r), img |-> img],
                             [op |-> "retrieve", expect |-> img]>>
        /\ n' = w
  /\ stored' = TRUE
  /\ UNCHANGED <<q, rounds, done>>

(* ---- one round: retrieve_stage(1), the caller changes the fields in S, store_stage, observe ---- *)
Choices == {"status", "context", "outputs", "start_time", "end_time", "tasks_mod", "tasks_add", "other"}
OtherFields == Names(StageFields) \ (UpdCols \cup {"version", "requisite_stage_ref_ids"})

Bump(t) == [t EXCEPT !.plus = @ + 1]

StoreStage(S, r) ==
  /\ Mode = "stage" /\ stored /\ ~done /\ rounds < MaxRounds
  /\ LET w    == n + 1
         obj  == row.st[1]                                   \* retrieve_stage loads every column
         chg  == Tokens(StageFields, S \cap UpdCols, w, r, 0)
         mem  == IF "other" \in S THEN Tokens(StageFields, OtherFields, w, r, 3) ELSE <<>>
         \* the object after the caller's assignments
         obj2 == [nm \in DOMAIN obj |-> IF nm \in DOMAIN chg THEN chg[nm] ELSE IF nm \in DOMAIN mem THEN mem[nm] ELSE obj[nm]]
         tks  == row.tk[1]
         tks1 == IF "tasks_mod" \in S
                 THEN [i \in DOMAIN tks |-> [tks[i] EXCEPT !.f = Tokens(TaskFields, Names(TaskFields), w, r, 17 * i)]]
                 ELSE tks
         tks2 == IF "tasks_add" \in S THEN Append(tks1, NewTask(Len(tks1) + 1, w, r, 23)) ELSE tks1
         \* UPDATE stage_executions SET <UpdCols> = obj2.<col>, version = version + 1
         newst == [nm \in DOMAIN obj |-> IF nm \in UpdCols THEN obj2[nm] ELSE IF nm = "version" THEN Bump(obj[nm]) ELSE obj[nm]]
         \* upsert_task per task of the object: UPDATE all columns + version + 1, or INSERT with version 0
         newtk == [i \in DOMAIN tks2 |-> IF i \in DOMAIN tks THEN [tks2[i] EXCEPT !.ver = @ + 1] ELSE tks2[i]]
         \* ghost: the caller's last assignments (assignments store_stage does not persist do not count as stored)
         lst  == [nm \in DOMAIN obj |-> IF nm \in DOMAIN chg THEN chg[nm] ELSE IF nm = "version" THEN Bump(last.st[1][nm]) ELSE last.st[1][nm]]
         ltk  == [i \in DOMAIN tks2 |-> IF i \in DOMAIN tks THEN [tks2[i] EXCEPT !.ver = last.tk[1][i].ver + 1] ELSE tks2[i]]
     IN /\ row' = [row EXCEPT !.st[1] = newst, !.tk[1] = newtk]
        /\ last' = [last EXCEPT !.st[1] = lst, !.tk[1] = ltk]
        /\ hist' = hist \o <<[op |-> "store_stage", w |-> w, r |-> r, changed |-> S, set |-> chg, mem_only |-> mem,
                              tasks |-> newtk],
                             [op |-> "retrieve_stage", expect |-> [st |-> newst, tk |-> newtk]],
                             [op |-> "retrieve", expect |-> row']>>
        /\ n' = w
  /\ rounds' = rounds + 1
  /\ UNCHANGED <<q, stored, done>>

(* ---- queue ---- *)
Msg(t, path, w, r) == [type |-> t, path |-> path, r |-> r, f |-> Tokens(MsgFields(t), Names(MsgFields(t)), 0, r, 0)]
  \* the tokens of a message depend on (type, r) only: the two halves of a pair carry the SAME values

PushOne(path, t, r) ==
  /\ Mode = "queue" /\ ~done /\ rounds < MaxSlots
  /\ q' = Append(q, Msg(t, path, n + 1, r))
  /\ hist' = Append(hist, [op |-> "push", path |-> path, type |-> t, r |-> r, f |-> Msg(t, path, n + 1, r).f])
  /\ n' = n + 1 /\ rounds' = rounds + 1
  /\ UNCHANGED <<row, last, stored, done>>

PushPair(first, t, r) ==           \* the same message through both paths
  /\ Mode = "queue" /\ ~done /\ rounds < MaxSlots
  /\ LET second == IF first = "direct" THEN "txn" ELSE "direct"
         m1 == Msg(t, first, n + 1, r)
         m2 == Msg(t, second, n + 2, r)
     IN /\ q' = q \o <<m1, m2>>
        /\ hist' = hist \o <<[op |-> "push", path |-> first, type |-> t, r |-> r, f |-> m1.f],
                             [op |-> "push", path |-> second, type |-> t, r |-> r, f |-> m2.f]>>
  /\ n' = n + 2 /\ rounds' = rounds + 1
  /\ UNCHANGED <<row, last, stored, done>>

(* ---- end of a case: in queue mode every message is polled (FIFO) and acknowledged.  Every other rotation the
   first delivery is NOT acknowledged: the consumer scribbles over the object it was handed and dies, the lock
   lapses, and the message is delivered again - from what was stored, i.e. with the values it was pushed with. ---- *)
PollOps(m) == LET e == [type |-> m.type, f |-> m.f]
              IN IF m.r % 2 = 0 THEN <<[op |-> "poll", ack |-> FALSE, expect |-> e], [op |-> "poll", ack |-> TRUE, expect |-> e]>>
                 ELSE <<[op |-> "poll", ack |-> TRUE, expect |-> e]>>
RECURSIVE Polls(_)
Polls(i) == IF i > Len(q) THEN <<>> ELSE PollOps(q[i]) \o Polls(i + 1)

Finish ==
  /\ ~done
  /\ \/ Mode = "stage" /\ stored /\ rounds = MaxRounds
     \/ Mode = "queue" /\ rounds >= 1
  /\ hist' = IF Mode = "queue"
             THEN hist \o Polls(1)
             ELSE hist
  /\ q' = IF Mode = "queue" THEN <<>> ELSE q
  /\ done' = TRUE
  /\ UNCHANGED <<row, last, n, rounds, stored>>

Next ==
  \/ \E r \in Rots : StoreWorkflow(r)
  \/ \E S \in SUBSET Choices, r \in Rots : StoreStage(S, r)
  \/ \E p \in {"direct", "txn"}, t \in MsgTypes, r \in Rots : PushOne(p, t, r)
  \/ \E p \in {"direct", "txn"}, t \in MsgTypes, r \in Rots : PushPair(p, t, r)
  \/ Finish

(* For enumeration: all rounds of one case use the rotation of its first operation. *)
SameRot == \A i \in DOMAIN hist' : ("r" \in DOMAIN hist'[i]) => hist'[i].r = hist'[1].r

-----------------------------------------------------------------------------
(* Properties of the register model *)

ReadBack  == row = last
   \* every column holds what the caller last assigned to it (for every field, every class)

Frame ==   \* store_stage: columns outside UpdCols (and the other stage, and the workflow row) keep their stored value
  \A i \in DOMAIN hist : hist[i].op = "store_stage" =>
     LET before == hist[i - 1].expect       \* the observation that precedes the round
         after  == hist[i + 2].expect        \* retrieve after the round
     IN /\ after.wf = before.wf
        /\ after.st[2] = before.st[2] /\ after.tk[2] = before.tk[2]
        /\ \A nm \in DOMAIN after.st[1] :
              (nm \notin hist[i].changed /\ nm # "version") => after.st[1][nm] = before.st[1][nm]
        /\ \A nm \in DOMAIN hist[i].mem_only : after.st[1][nm] = before.st[1][nm]
        /\ after.st[1]["version"].plus = before.st[1]["version"].plus + 1

TaskOrder ==   \* tasks come back in list order: ranks 1..k
  \A s \in DOMAIN row.tk : \A i \in DOMAIN row.tk[s] : row.tk[s][i].rank = i

PathsAgree ==  \* what is delivered depends on (type, values) only, never on the push path
  \A i, j \in DOMAIN q : (q[i].type = q[j].type /\ q[i].r = q[j].r) => q[i].f = q[j].f

Export == done => PrintT(<<"CASE", ToJson(hist)>>)

(* The field tables, printed once: the replayer takes kinds and classes from here (single source of truth) *)
(* and checks them against the dataclasses / MESSAGE_TYPES / table columns of the code under test.        *)
AllKinds == {"text", "text1", "otext", "oint", "nat", "json", "jsonlist", "strmap", "refs", "bool", "status", "ostatus", "join",
             "split", "owner", "oowner", "wftype", "omi", "opaused", "reducers"}
Tables == [wf |-> WfFields, st |-> StageFields, tk |-> TaskFields, upd |-> UpdCols,
           msg |-> [t \in MsgTypes |-> MsgFields(t)], classes |-> [k \in AllKinds |-> Classes(k)]]
ASSUME PrintT(<<"TABLES", ToJson(Tables)>>)
=============================================================================
