---------------------------- MODULE SuspendRace ----------------------------
(***************************************************************************)
(* C18 under a second worker: "two workers interleaved at statement level  *)
(* (signal handler vs. the task result that suspends)".                    *)
(*                                                                         *)
(* Worker "r" handles RunTask(t) whose task body returns                   *)
(* TaskResult.suspend(): handlers/run_task/result.py:_handle_suspended,    *)
(* called from _process_result_safely, whose closure always re-reads the   *)
(* stage.  With a buffered signal in the row it read it consumes the       *)
(* OLDEST one (stage stays RUNNING, the task is re-queued), otherwise the  *)
(* stage and the task become SUSPENDED - either way ONE transaction (CAS   *)
(* on the version read) that also marks the RunTask processed.             *)
(* Each worker in Writers handles a persistent SignalStage for the stage   *)
(* (handlers/signal_stage.py): SUSPENDED in the row it read -> deliver     *)
(* (status RUNNING, _signal_name, RunTask pushed); otherwise -> buffer.    *)
(* A failed CAS: "r" re-submits the same object InnerRetries times         *)
(* (TransactionHelper.execute_atomic), then - like the writers at once -   *)
(* the closure runs again and re-reads (retry_on_concurrency_error).       *)
(* Grain as in Race.tla / Progress.tla: write transaction + reads up to    *)
(* the next write.                                                         *)
(***************************************************************************)
EXTENDS Naturals, Sequences, FiniteSets, TLC, SuspendRaceCfg
(* SuspendRaceCfg: Writers, NameOf (writer -> signal name), InitRow [ver, status, buf (seq of names), sig], MaxTries, InnerRetries *)

VARIABLES
  row,       \* stage row: [ver, status, buf, sig]  (buf = names in context["_buffered_signals"], sig = context["_signal_name"])
  runtasks,  \* RunTask messages pushed by the racing handlers (resume by delivery or by consumption)
  done, inq, \* processed records / queue rows of the racing messages
  wk,        \* per worker: [pc, snap, tries, inner]
  got        \* ghost: names of the signals delivered to or consumed for the task, in order

vars == <<row, runtasks, done, inq, wk, got>>
All == Writers \cup {"r"}
NoSnap == [ver |-> 0, status |-> "", buf |-> <<>>, sig |-> ""]

Init ==
  /\ row = InitRow /\ runtasks = 0 /\ done = {} /\ inq = All /\ got = <<>>
  /\ wk = [w \in All |-> [pc |-> "start", snap |-> NoSnap, tries |-> 0, inner |-> 0]]

Go(w, pc) == wk' = [wk EXCEPT ![w].pc = pc]

RStart ==   \* with_task read, task body (returns suspend), re-read in _process_result_safely: all before the first write
  /\ wk["r"].pc = "start"
  /\ wk' = [wk EXCEPT !["r"] = [pc |-> "store", snap |-> row, tries |-> 0, inner |-> 0]]
  /\ UNCHANGED <<row, runtasks, done, inq, got>>

RStore ==
  /\ wk["r"].pc = "store"
  /\ LET sn == wk["r"].snap IN
     IF row.ver = sn.ver
     THEN /\ IF sn.buf # <<>>
             THEN /\ row' = [ver |-> row.ver + 1, status |-> "RUNNING", buf |-> Tail(sn.buf), sig |-> Head(sn.buf)]
                  /\ runtasks' = runtasks + 1
                  /\ got' = Append(got, Head(sn.buf))
             ELSE /\ row' = [ver |-> row.ver + 1, status |-> "SUSPENDED", buf |-> <<>>, sig |-> sn.sig]
                  /\ UNCHANGED <<runtasks, got>>
          /\ done' = done \cup {"r"}
          /\ Go("r", "mark")
     ELSE /\ IF wk["r"].inner < InnerRetries
             THEN wk' = [wk EXCEPT !["r"].inner = @ + 1]
             ELSE /\ wk["r"].tries < MaxTries
                  /\ wk' = [wk EXCEPT !["r"].snap = row, !["r"].tries = @ + 1, !["r"].inner = 0]
          /\ UNCHANGED <<row, runtasks, done, got>>
  /\ UNCHANGED inq

WStart(w) ==
  /\ w \in Writers /\ wk[w].pc = "start"
  /\ wk' = [wk EXCEPT ![w] = [pc |-> "store", snap |-> row, tries |-> 0, inner |-> 0]]
  /\ UNCHANGED <<row, runtasks, done, inq, got>>

WStore(w) ==
  /\ w \in Writers /\ wk[w].pc = "store"
  /\ LET sn == wk[w].snap IN
     IF row.ver = sn.ver
     THEN /\ IF sn.status = "SUSPENDED"
             THEN /\ row' = [ver |-> row.ver + 1, status |-> "RUNNING", buf |-> sn.buf, sig |-> NameOf[w]]
                  /\ runtasks' = runtasks + 1
                  /\ got' = Append(got, NameOf[w])
             ELSE /\ row' = [ver |-> row.ver + 1, status |-> sn.status, buf |-> Append(sn.buf, NameOf[w]), sig |-> sn.sig]
                  /\ UNCHANGED <<runtasks, got>>
          /\ done' = done \cup {w}
          /\ Go(w, "mark")
     ELSE /\ wk[w].tries < MaxTries
          /\ wk' = [wk EXCEPT ![w].snap = row, ![w].tries = @ + 1]
          /\ UNCHANGED <<row, runtasks, done, got>>
  /\ UNCHANGED inq

Mark(w) == /\ wk[w].pc = "mark" /\ done' = done \cup {w} /\ Go(w, "ack") /\ UNCHANGED <<row, runtasks, inq, got>>
Ack(w)  == /\ wk[w].pc = "ack" /\ inq' = inq \ {w} /\ Go(w, "end") /\ UNCHANGED <<row, runtasks, done, got>>

Step(w) == (w = "r" /\ (RStart \/ RStore)) \/ WStart(w) \/ WStore(w) \/ Mark(w) \/ Ack(w)
Next == \E w \in All : Step(w)
Spec == Init /\ [][Next]_vars

AllDone == \A w \in All : wk[w].pc = "end"
Range(f) == {f[i] : i \in DOMAIN f}
Stored(w) == wk[w].pc \in {"mark", "ack", "end"}

(* C18: a persistent signal is never lost - every signal whose handler committed is buffered or was handed to the task *)
SignalsConserved ==
  /\ Len(row.buf) + Len(got) = Len(InitRow.buf) + Cardinality({w \in Writers : Stored(w)})
  /\ \A w \in Writers : Stored(w) => NameOf[w] \in Range(row.buf) \cup Range(got)
(* the stage never sits SUSPENDED on a buffered signal once both sides are through *)
NotSittingOnSignal == AllDone => ~(row.status = "SUSPENDED" /\ row.buf # <<>>)
(* every hand-over re-queues the task exactly once; a stage left RUNNING has a RunTask to go on with *)
ResumeOncePerSignal == runtasks = Len(got)
ResumedHasWork == (AllDone /\ row.status = "RUNNING") => runtasks >= 1
ConsumedInOrder == \A i, j \in DOMAIN got : i < j => got[i] # got[j]
NothingLeft  == AllDone => inq = {} /\ done = All
NoStarvation == (~AllDone) => ENABLED Next
=============================================================================
