---- MODULE MC_Progress ----
\* export root for Progress.tla: prints the initial state and every explored edge as JSON
EXTENDS Progress, Json
Proj == [row |-> row, retry |-> retry, done |-> done, inq |-> inq, wk |-> wk, seen |-> seen]
Edge == PrintT(<<"EDGE", ToJson(Proj), ToJson(Proj')>>)
InitP == Init /\ PrintT(<<"INIT", ToJson(Proj)>>)
====
